/-
C07 helper lemmas, part 2: from the redirect list of a stage to its slots and claims; the pipeline by induction on
the stage list.  (model only — no generated tables)
-/
import XonshVerif.Lemmas.Redir
import XonshVerif.Lemmas.RedirQuirks
set_option linter.unusedSimpArgs false
set_option linter.unusedVariables false
namespace Redir

theorem decide_modeOf (a : Bool) : decide (modeOf a = ['a']) = a := by cases a <;> rfl

theorem claimOut_eq (w : Op × Option Nat) : claimOut w = ((tripleOf w).2.1).map claimOfOutSlot := by
  obtain ⟨op, t⟩ := w
  cases op <;> cases t <;> simp [claimOut, tripleOf, claimOfOutSlot, decide_modeOf]

theorem claimErr_eq (w : Op × Option Nat) : claimErr w = ((tripleOf w).2.2).map claimOfErrSlot := by
  obtain ⟨op, t⟩ := w
  cases op <;> cases t <;> simp [claimErr, tripleOf, claimOfErrSlot, decide_modeOf]

theorem claimIn_eq (w : Op × Option Nat) : claimIn w = ((tripleOf w).1).map slotTarget := by
  obtain ⟨op, t⟩ := w
  cases op <;> cases t <;> simp [claimIn, tripleOf, slotTarget]

theorem userIn_triple (w : Op × Option Nat) : UserIn (tripleOf w).1 := by
  obtain ⟨op, t⟩ := w
  cases op <;> cases t <;> first | exact .none | exact .file _

theorem userOut_triple (w : Op × Option Nat) : UserOut (tripleOf w).2.1 := by
  obtain ⟨op, t⟩ := w
  cases op <;> cases t <;> first | exact .none | exact .file _ _ | exact .fd2 | exact .pipeAll

theorem userErr_triple (w : Op × Option Nat) : UserErr (tripleOf w).2.2 := by
  obtain ⟨op, t⟩ := w
  cases op <;> cases t <;> first | exact .none | exact .file _ _ | exact .toStdout | exact .pipeErr

theorem pipeAll_triple (w : Op × Option Nat) (h : (tripleOf w).2.1 = some .pipeAll) : (tripleOf w).2.2 = some .toStdout := by
  obtain ⟨op, t⟩ := w
  cases op <;> cases t <;> simp_all [tripleOf]

theorem head_toList {α : Type} (l : List α) (h : l.length ≤ 1) : l = l.head?.toList := by
  match l, h with
  | [], _ => rfl
  | [a], _ => rfl

theorem head_filterMap_mem {α β : Type} (f : α → Option β) (l : List α) (b : β) (h : (l.filterMap f).head? = some b) :
    ∃ a ∈ l, f a = some b := by
  have : b ∈ l.filterMap f := List.mem_of_mem_head? (by simp [h])
  simpa [List.mem_filterMap] using this

/-- what `buildSpec` yields when no redirect is ill formed and no stream is claimed twice -/
theorem buildSpec_ok (T : Tables) (ts : Nat → TState) (cfg : Cfg) (st : Stage) (hg : ∀ p ∈ st.redirs, Good T p)
    (hall : ∀ p ∈ st.redirs, (wellFormed ts p.1 p.2).isSome = true)
    (hlen : (ins ((wfs ts st.redirs).map tripleOf)).length ≤ 1 ∧ (outs ((wfs ts st.redirs).map tripleOf)).length ≤ 1 ∧
            (errs ((wfs ts st.redirs).map tripleOf)).length ≤ 1) :
    buildSpec T ts cfg st = .ok (mkBuilt cfg st.kind (ins ((wfs ts st.redirs).map tripleOf)).head?
      (outs ((wfs ts st.redirs).map tripleOf)).head? (errs ((wfs ts st.redirs).map tripleOf)).head?) := by
  have happ := applyRedirs_ok T ts st.redirs hg hall (none, none, none)
  have hfold : foldT ((wfs ts st.redirs).map tripleOf) (none, none, none) =
      .ok ((ins ((wfs ts st.redirs).map tripleOf)).head?, (outs ((wfs ts st.redirs).map tripleOf)).head?,
           (errs ((wfs ts st.redirs).map tripleOf)).head?) := by
    rw [foldT_ok]; simp; omega
  unfold buildSpec
  rw [happ, hfold]
  rfl

/-- … and when some stream is claimed twice, or a redirect is ill formed, it fails -/
theorem buildSpec_conflict (T : Tables) (ts : Nat → TState) (cfg : Cfg) (st : Stage) (hg : ∀ p ∈ st.redirs, Good T p)
    (hall : ∀ p ∈ st.redirs, (wellFormed ts p.1 p.2).isSome = true)
    (hlen : ¬ ((ins ((wfs ts st.redirs).map tripleOf)).length ≤ 1 ∧ (outs ((wfs ts st.redirs).map tripleOf)).length ≤ 1 ∧
            (errs ((wfs ts st.redirs).map tripleOf)).length ≤ 1)) :
    toOpt (buildSpec T ts cfg st) = none := by
  have happ := applyRedirs_ok T ts st.redirs hg hall (none, none, none)
  unfold buildSpec
  rw [happ]
  cases hf : foldT ((wfs ts st.redirs).map tripleOf) (none, none, none) with
  | error x => rfl
  | ok r =>
    obtain ⟨i', o', e'⟩ := r
    rw [foldT_ok] at hf
    simp at hf
    omega

theorem buildSpec_bad (T : Tables) (ts : Nat → TState) (cfg : Cfg) (st : Stage) (hg : ∀ p ∈ st.redirs, Good T p)
    (hb : ∃ p ∈ st.redirs, wellFormed ts p.1 p.2 = none) :
    toOpt (buildSpec T ts cfg st) = none := by
  obtain ⟨x, hx⟩ := applyRedirs_bad T ts st.redirs hg hb (none, none, none)
  unfold buildSpec
  rw [hx]
  rfl

/-- the documented outcome of a stage, in terms of the decoded triples -/
theorem specStage_eq (ts : Nat → TState) (cfg : Cfg) (cap : Cap) (n i : Nat) (st : Stage) :
    specStage ts cfg cap n i st =
      if (∃ p ∈ st.redirs, wellFormed ts p.1 p.2 = none) then .error
      else
        let xs := (wfs ts st.redirs).map tripleOf
        if (outs xs).length > 1 ∨ (errs xs).length > 1 ∨ (ins xs).length > 1 then .error
        else specCore cfg cap n i st.kind ((outs xs).map claimOfOutSlot) ((errs xs).map claimOfErrSlot) ((ins xs).map slotTarget) := by
  have hops : (st.redirs.map fun (p : Str × Loc) => wellFormed ts p.1 p.2).filterMap id = wfs ts st.redirs := by
    simp [wfs, List.filterMap_map]
  have ho : (wfs ts st.redirs).filterMap claimOut = (outs ((wfs ts st.redirs).map tripleOf)).map claimOfOutSlot := by
    simp only [outs, List.filterMap_map, List.map_filterMap]
    congr 1; funext w; simp [claimOut_eq]
  have he : (wfs ts st.redirs).filterMap claimErr = (errs ((wfs ts st.redirs).map tripleOf)).map claimOfErrSlot := by
    simp only [errs, List.filterMap_map, List.map_filterMap]
    congr 1; funext w; simp [claimErr_eq]
  have hi' : (wfs ts st.redirs).filterMap claimIn = (ins ((wfs ts st.redirs).map tripleOf)).map slotTarget := by
    simp only [ins, List.filterMap_map, List.map_filterMap]
    congr 1; funext w; simp [claimIn_eq]
  have hany : ((st.redirs.map fun (p : Str × Loc) => wellFormed ts p.1 p.2).any Option.isNone = true) ↔
      (∃ p ∈ st.redirs, wellFormed ts p.1 p.2 = none) := by
    simp [List.any_map]
  unfold specStage
  by_cases hb : ∃ p ∈ st.redirs, wellFormed ts p.1 p.2 = none
  · have := hany.2 hb
    simp only [hb, if_true]
    simp only [this, if_true]
  · have : ¬ ((st.redirs.map fun (p : Str × Loc) => wellFormed ts p.1 p.2).any Option.isNone = true) := fun h => hb (hany.1 h)
    simp only [hb, if_false]
    simp only [this, if_false, hops, ho, he, hi', List.length_map]
    simp

theorem ins_head_mem (xs : List Slots) (b : Slot) (h : (ins xs).head? = some b) : ∃ x ∈ xs, x.1 = some b :=
  head_filterMap_mem (fun (x : Slots) => x.1) xs b h

theorem outs_head_mem (xs : List Slots) (b : Slot) (h : (outs xs).head? = some b) : ∃ x ∈ xs, x.2.1 = some b :=
  head_filterMap_mem (fun (x : Slots) => x.2.1) xs b h

theorem errs_head_mem (xs : List Slots) (b : Slot) (h : (errs xs).head? = some b) : ∃ x ∈ xs, x.2.2 = some b :=
  head_filterMap_mem (fun (x : Slots) => x.2.2) xs b h

/-- what the model makes of stage `st` at position i of n: `none` = cmds_to_specs raises -/
def stageP (T : Tables) (ts : Nat → TState) (q : Quirks) (cfg : Cfg) (cap : Cap) (n i : Nat) (st : Stage) :
    Option (List StageOut) :=
  (stageSpec T ts q cfg cap n i st).map fun s => [stageOut q cfg cap s]

/-- a per-stage comparison for the switches `q`, valid on the region `R` (of configuration, capture form, "last stage?",
kind, stdout slot): the model of the stage matches the documentation and no integer handle reaches `safe_readable` -/
def CoreOk (q : Quirks) (R : Cfg → Cap → Bool → Kind → Option Slot → Prop) : Prop :=
  ∀ (cfg : Cfg) (cap : Cap) (first last : Bool) (idx : Nat) (kind : Kind) (sin sout serr : Option Slot),
    UserIn sin → UserOut sout → UserErr serr → (sout = some .pipeAll → serr = some .toStdout) → R cfg cap last kind sout →
    Matches (modelStageP q cfg cap ⟨first, last, idx⟩ (mkBuilt cfg kind sin sout serr))
      (specCoreB cfg cap first last idx kind (sout.toList.map claimOfOutSlot) (serr.toList.map claimOfErrSlot)
        (sin.toList.map slotTarget)) ∧
    (finalSpecP q cfg cap ⟨first, last, idx⟩ (mkBuilt cfg kind sin sout serr)).all (noCrash q cap last) = true

theorem coreOk_fixed : CoreOk Quirks.fixed (fun _ _ _ _ _ => True) := by
  intro cfg cap first last idx kind sin sout serr hin hout herr hinv _
  refine ⟨core_fixed cfg cap first last idx kind sin sout serr hin hout herr hinv, ?_⟩
  cases finalSpecP Quirks.fixed cfg cap ⟨first, last, idx⟩ (mkBuilt cfg kind sin sout serr) with
  | none => rfl
  | some s => simp [noCrash, crashBefore, crashAfter, Quirks.fixed]

theorem coreOk_current : CoreOk Quirks.current Outside := by
  intro cfg cap first last idx kind sin sout serr hin hout herr hinv hR
  exact core_current cfg cap first last idx kind sin sout serr hin hout herr hinv hR

/-- the region hypothesis of a stage: `R` on its kind and on the stdout slot its redirects produce -/
def StageR (R : Cfg → Cap → Bool → Kind → Option Slot → Prop) (ts : Nat → TState) (cfg : Cfg) (cap : Cap) (n i : Nat)
    (st : Stage) : Prop :=
  R cfg cap (posOf n i).last st.kind (outs ((wfs ts st.redirs).map tripleOf)).head?

theorem finalSpec_pos (q : Quirks) (cfg : Cfg) (cap : Cap) (n i : Nat) (hi : i < n) (built : Spec) :
    (wiredAt n i built).bind (finAt q cfg cap n i) = finalSpecP q cfg cap (posOf n i) built := by
  have hm := modelStage_pos q cfg cap n i hi built
  -- same computation as in modelStage_pos, without the final map
  have e1 : inAt i built = inAtP (posOf n i) built := by simp [inAt, inAtP, posOf]
  have e2 : ∀ s, outAt n i s = outAtP (posOf n i) s := by
    intro s
    by_cases h : i + 1 = n
    · have : ¬ (i + 1 < n) := by omega
      simp [outAt, outAtP, posOf, h, this]
    · have : i + 1 < n := by omega
      simp [outAt, outAtP, posOf, h, this]
  have e3 : ∀ s, finAt q cfg cap n i s = finAtP q cfg cap (posOf n i) s := by
    intro s
    have hmm : decide (n > 1) = (posOf n i).multi := by
      simp only [posOf, Pos.multi]
      rw [Bool.eq_iff_iff]
      simp
      omega
    simp only [finAt, finAtP, checkAt, checkAtP, hmm]
    simp [posOf]
  simp only [finalSpecP, wiredAt, e1]
  cases inAtP (posOf n i) built with
  | none => rfl
  | some s =>
    simp only [Option.bind_some, e2]
    cases outAtP (posOf n i) s with
    | none => rfl
    | some w => simp only [Option.bind_some, e3]

/-- THE STAGE THEOREM: for every redirect list (grammar-shaped, decoded by the tables as documented), kind, position,
capture form, configuration and target state — inside the region of the core lemma — the model of one stage matches
the documentation, and its final spec cannot crash CommandPipeline -/
theorem stage_ok (q : Quirks) (R : Cfg → Cap → Bool → Kind → Option Slot → Prop) (hcore : CoreOk q R)
    (T : Tables) (ts : Nat → TState) (cfg : Cfg) (cap : Cap) (n i : Nat) (hi : i < n) (st : Stage)
    (hg : ∀ p ∈ st.redirs, Good T p) (hR : StageR R ts cfg cap n i st) :
    Matches (stageP T ts q cfg cap n i st) (specStage ts cfg cap n i st) ∧
    (stageSpec T ts q cfg cap n i st).all (noCrash q cap (posOf n i).last) = true := by
  rw [specStage_eq]
  by_cases hb : ∃ p ∈ st.redirs, wellFormed ts p.1 p.2 = none
  · simp only [hb, if_true, Matches, stageP, stageSpec, buildSpec_bad T ts cfg st hg hb]
    exact ⟨rfl, rfl⟩
  · have hall : ∀ p ∈ st.redirs, (wellFormed ts p.1 p.2).isSome = true := by
      intro p hp
      cases h : wellFormed ts p.1 p.2 with
      | none => exact absurd ⟨p, hp, h⟩ hb
      | some w => rfl
    simp only [hb, if_false]
    by_cases hlen : (ins ((wfs ts st.redirs).map tripleOf)).length ≤ 1 ∧ (outs ((wfs ts st.redirs).map tripleOf)).length ≤ 1 ∧
        (errs ((wfs ts st.redirs).map tripleOf)).length ≤ 1
    · have hlen' : ¬ ((outs ((wfs ts st.redirs).map tripleOf)).length > 1 ∨ (errs ((wfs ts st.redirs).map tripleOf)).length > 1 ∨
          (ins ((wfs ts st.redirs).map tripleOf)).length > 1) := by omega
      simp only [hlen', if_false]
      have hbuild := buildSpec_ok T ts cfg st hg hall hlen
      unfold StageR at hR
      -- the three slots and their shapes
      generalize hxs : (wfs ts st.redirs).map tripleOf = xs at *
      have hmem : ∀ x ∈ xs, ∃ w, x = tripleOf w := by
        intro x hx; rw [← hxs] at hx; simp at hx; obtain ⟨a, b, _, h⟩ := hx; exact ⟨(a, b), h.symm⟩
      have uin : UserIn (ins xs).head? := by
        cases h : (ins xs).head? with
        | none => exact .none
        | some b =>
          obtain ⟨x, hx, hb⟩ := ins_head_mem xs b h
          obtain ⟨w, rfl⟩ := hmem x hx
          have := userIn_triple w; rw [hb] at this; exact this
      have uout : UserOut (outs xs).head? := by
        cases h : (outs xs).head? with
        | none => exact .none
        | some b =>
          obtain ⟨x, hx, hb⟩ := outs_head_mem xs b h
          obtain ⟨w, rfl⟩ := hmem x hx
          have := userOut_triple w; rw [hb] at this; exact this
      have uerr : UserErr (errs xs).head? := by
        cases h : (errs xs).head? with
        | none => exact .none
        | some b =>
          obtain ⟨x, hx, hb⟩ := errs_head_mem xs b h
          obtain ⟨w, rfl⟩ := hmem x hx
          have := userErr_triple w; rw [hb] at this; exact this
      have hinv : (outs xs).head? = some .pipeAll → (errs xs).head? = some .toStdout := by
        intro h
        obtain ⟨x, hx, hb⟩ := outs_head_mem xs _ h
        obtain ⟨w, rfl⟩ := hmem x hx
        have h2 := pipeAll_triple w hb
        have : Slot.toStdout ∈ errs xs := by
          simp only [errs, List.mem_filterMap]; exact ⟨tripleOf w, hx, h2⟩
        have e3 := head_toList (errs xs) hlen.2.2
        rw [e3] at this
        cases h4 : (errs xs).head? with
        | none => rw [h4] at this; simp at this
        | some b => rw [h4] at this; simp at this; rw [this]
      have e1 := head_toList (ins xs) hlen.1
      have e2 := head_toList (outs xs) hlen.2.1
      have e3 := head_toList (errs xs) hlen.2.2
      have key := hcore cfg cap (posOf n i).first (posOf n i).last (posOf n i).idx st.kind
        (ins xs).head? (outs xs).head? (errs xs).head? uin uout uerr hinv hR
      rw [← specCore_pos, ← e1, ← e2, ← e3] at key
      have hm := modelStage_pos q cfg cap n i hi (mkBuilt cfg st.kind (ins xs).head? (outs xs).head? (errs xs).head?)
      have hf := finalSpec_pos q cfg cap n i hi (mkBuilt cfg st.kind (ins xs).head? (outs xs).head? (errs xs).head?)
      have h1 : stageP T ts q cfg cap n i st =
          modelStage q cfg cap n i (mkBuilt cfg st.kind (ins xs).head? (outs xs).head? (errs xs).head?) := by
        simp only [stageP, stageSpec, hbuild, toOpt, Option.bind_some, modelStage]
      have h2 : stageSpec T ts q cfg cap n i st =
          finalSpecP q cfg cap (posOf n i) (mkBuilt cfg st.kind (ins xs).head? (outs xs).head? (errs xs).head?) := by
        rw [← hf]; simp only [stageSpec, hbuild, toOpt, Option.bind_some]
      rw [h1, hm, h2]
      exact key
    · have hlen' : ((outs ((wfs ts st.redirs).map tripleOf)).length > 1 ∨ (errs ((wfs ts st.redirs).map tripleOf)).length > 1 ∨
          (ins ((wfs ts st.redirs).map tripleOf)).length > 1) := by omega
      simp only [hlen', if_true, Matches, stageP, stageSpec, buildSpec_conflict T ts cfg st hg hall hlen]
      exact ⟨rfl, rfl⟩

/-! ## the pipeline, by induction on the stage list -/

/-- the model of the stages from position i on, stage by stage -/
def pipeP (T : Tables) (ts : Nat → TState) (q : Quirks) (cfg : Cfg) (cap : Cap) (n : Nat) : Nat → List Stage → Option (List StageOut)
  | _, [] => some []
  | i, st :: rest =>
    match stageP T ts q cfg cap n i st, pipeP T ts q cfg cap n (i + 1) rest with
    | some a, some b => some (a ++ b)
    | _, _ => none

theorem pipeP_eq (T : Tables) (ts : Nat → TState) (q : Quirks) (cfg : Cfg) (cap : Cap) (n i : Nat) (stages : List Stage) :
    pipeP T ts q cfg cap n i stages = (mapMI (stageSpec T ts q cfg cap n) i stages).map (List.map (stageOut q cfg cap)) := by
  induction stages generalizing i with
  | nil => simp [pipeP, mapMI]
  | cons st rest ih =>
    simp only [pipeP, mapMI, ih, stageP]
    cases stageSpec T ts q cfg cap n i st with
    | none => simp
    | some s => cases mapMI (stageSpec T ts q cfg cap n) (i + 1) rest <;> simp

/-- THE PIPELINE THEOREM (stage-by-stage form): by induction on the stage list -/
theorem pipe_ok (q : Quirks) (R : Cfg → Cap → Bool → Kind → Option Slot → Prop) (hcore : CoreOk q R)
    (T : Tables) (ts : Nat → TState) (cfg : Cfg) (cap : Cap) (n : Nat) (stages : List Stage) (i : Nat)
    (hn : i + stages.length = n) (hg : ∀ st ∈ stages, ∀ p ∈ st.redirs, Good T p)
    (hR : ∀ k st, stages[k]? = some st → StageR R ts cfg cap n (i + k) st) :
    Matches (pipeP T ts q cfg cap n i stages) (specFrom ts cfg cap n i stages) := by
  induction stages generalizing i with
  | nil => simp [pipeP, specFrom, Matches]
  | cons st rest ih =>
    have h1 := (stage_ok q R hcore T ts cfg cap n i (by simp at hn; omega) st (hg st (by simp)) (by simpa using hR 0 st (by simp))).1
    have h2 := ih (i + 1) (by simp at hn ⊢; omega) (fun s hs => hg s (by simp [hs]))
      (fun k s hs => by have := hR (k + 1) s (by simpa using hs); rwa [show i + (k + 1) = i + 1 + k by omega] at this)
    simp only [pipeP, specFrom]
    cases hs : specStage ts cfg cap n i st with
    | error =>
      rw [hs] at h1; simp only [Matches] at h1
      simp [h1, Matches]
    | unspecified =>
      cases hr : specFrom ts cfg cap n (i + 1) rest with
      | error =>
        rw [hr] at h2; simp only [Matches] at h2
        simp only [h2, Matches]
        cases stageP T ts q cfg cap n i st <;> rfl
      | unspecified => simp [Matches]
      | ok b => simp [Matches]
    | ok a =>
      rw [hs] at h1; simp only [Matches] at h1
      cases hr : specFrom ts cfg cap n (i + 1) rest with
      | error =>
        rw [hr] at h2; simp only [Matches] at h2
        simp [h1, h2, Matches]
      | unspecified => simp [Matches]
      | ok b =>
        rw [hr] at h2; simp only [Matches] at h2
        simp [h1, h2, Matches]

/-- the last spec of a pipeline cannot crash CommandPipeline -/
theorem last_noCrash (q : Quirks) (R : Cfg → Cap → Bool → Kind → Option Slot → Prop) (hcore : CoreOk q R)
    (T : Tables) (ts : Nat → TState) (cfg : Cfg) (cap : Cap) (n : Nat) (stages : List Stage) (i : Nat)
    (hn : i + stages.length = n) (hg : ∀ st ∈ stages, ∀ p ∈ st.redirs, Good T p)
    (hR : ∀ k st, stages[k]? = some st → StageR R ts cfg cap n (i + k) st)
    (specs : List Spec) (hs : mapMI (stageSpec T ts q cfg cap n) i stages = some specs)
    (y : Spec) (hy : specs.getLast? = some y) : noCrash q cap true y = true := by
  induction stages generalizing i specs with
  | nil => simp [mapMI] at hs; subst hs; simp at hy
  | cons st rest ih =>
    simp only [mapMI] at hs
    cases h1 : stageSpec T ts q cfg cap n i st with
    | none => simp [h1] at hs
    | some s =>
      cases h2 : mapMI (stageSpec T ts q cfg cap n) (i + 1) rest with
      | none => simp [h1, h2] at hs
      | some ss =>
        simp [h1, h2] at hs
        subst hs
        cases rest with
        | nil =>
          simp [mapMI] at h2; subst h2
          simp at hy; subst hy
          have hi : i + 1 = n := by simpa using hn
          have := (stage_ok q R hcore T ts cfg cap n i (by omega) st (hg st (by simp)) (by simpa using hR 0 st (by simp))).2
          rw [h1] at this
          simpa [posOf, hi] using this
        | cons st2 rest2 =>
          have hlen := mapMI_length _ _ _ _ h2
          have hne : ss ≠ [] := by
            intro h; rw [h] at hlen; simp at hlen
          have : (s :: ss).getLast? = ss.getLast? := by
            cases ss with
            | nil => exact absurd rfl hne
            | cons a b => simp [List.getLast?_cons_cons]
          rw [this] at hy
          exact ih (i + 1) (by simp at hn ⊢; omega) (fun s hs => hg s (by simp [hs]))
            (fun k s hs => by have := hR (k + 1) s (by simpa using hs); rwa [show i + (k + 1) = i + 1 + k by omega] at this)
            ss h2 hy

theorem toOpt_none {α : Type} (x : Except Err α) (h : toOpt x = none) : ∃ e, x = .error e := by
  cases x with
  | error e => exact ⟨e, rfl⟩
  | ok a => simp [toOpt] at h

theorem toOpt_some {α : Type} (x : Except Err α) (a : α) (h : toOpt x = some a) : x = .ok a := by
  cases x with
  | error e => simp [toOpt] at h
  | ok b => simp [toOpt] at h; rw [h]

/-- `route` when no crash on an integer handle is possible -/
theorem route_of_specs (T : Tables) (ts : Nat → TState) (q : Quirks) (cfg : Cfg) (cap : Cap) (stages : List Stage)
    (specs : List Spec) (h : cmdsToSpecs T ts q cfg cap stages = .ok specs)
    (hb : ∀ last, specs.getLast? = some last → crashBefore q last = false)
    (ha : ∀ last, specs.getLast? = some last → crashAfter q cap last = false) :
    route T ts q cfg cap stages = ⟨none, false, specs.map (stageOut q cfg cap)⟩ := by
  unfold route
  rw [h]
  simp only []
  cases hl : specs.getLast? with
  | none =>
    have : specs = [] := by simpa using hl
    simp [this]
  | some last => simp only [hl]; simp [hb last hl, ha last hl]

/-- THE ROUTING THEOREM: every pipeline all of whose stages lie in the region of the core lemma is routed as documented -/
theorem route_ok (q : Quirks) (R : Cfg → Cap → Bool → Kind → Option Slot → Prop) (hcore : CoreOk q R)
    (T : Tables) (ts : Nat → TState) (cfg : Cfg) (cap : Cap) (stages : List Stage)
    (hg : ∀ st ∈ stages, ∀ p ∈ st.redirs, Good T p)
    (hR : ∀ k st, stages[k]? = some st → StageR R ts cfg cap stages.length k st) :
    agrees (route T ts q cfg cap stages) (specRoute ts cfg cap stages) = true := by
  have hR' : ∀ k st, stages[k]? = some st → StageR R ts cfg cap stages.length (0 + k) st := by
    intro k st h; simpa using hR k st h
  have hp := pipe_ok q R hcore T ts cfg cap stages.length stages 0 (by simp) hg hR'
  rw [pipeP_eq, ← cmdsToSpecs_eq] at hp
  unfold specRoute
  cases hs : specFrom ts cfg cap stages.length 0 stages with
  | unspecified => rfl
  | error =>
    rw [hs] at hp; simp only [Matches] at hp
    have : toOpt (cmdsToSpecs T ts q cfg cap stages) = none := by
      cases h : toOpt (cmdsToSpecs T ts q cfg cap stages) with
      | none => rfl
      | some x => rw [h] at hp; simp at hp
    obtain ⟨e, he⟩ := toOpt_none _ this
    simp [route, he, agrees]
  | ok l =>
    rw [hs] at hp; simp only [Matches] at hp
    cases h : toOpt (cmdsToSpecs T ts q cfg cap stages) with
    | none => rw [h] at hp; simp at hp
    | some specs =>
      rw [h] at hp; simp at hp
      have hc := toOpt_some _ _ h
      have hms : mapMI (stageSpec T ts q cfg cap stages.length) 0 stages = some specs := by
        rw [← cmdsToSpecs_eq]; exact h
      have hnc := last_noCrash q R hcore T ts cfg cap stages.length stages 0 (by simp) hg hR' specs hms
      rw [route_of_specs T ts q cfg cap stages specs hc
        (by intro last hl; have := hnc last hl; simp [noCrash] at this; exact this.1)
        (by intro last hl; have := hnc last hl; simp [noCrash] at this; exact this.2)]
      simp [agrees, hp]

/-! ## the hypotheses in terms of the source text -/

theorem wellFormed_op (ts : Nat → TState) (r : Str) (loc : Loc) (w : Op × Option Nat) (h : wellFormed ts r loc = some w) :
    specDecode r = some w.1 := by
  unfold wellFormed at h
  cases hd : specDecode r with
  | none => simp [hd] at h
  | some op =>
    rw [hd] at h
    cases op <;> cases loc <;> simp at h <;> (try split at h) <;> simp_all <;>
      first | (rw [← h]) | (rw [← h.2])

/-- without an `o>e` operator the stdout slot never holds the flag 2 -/
theorem no_fd2 (ts : Nat → TState) (rs : List (Str × Loc)) (h : ∀ p ∈ rs, specDecode p.1 ≠ some .outToErr) :
    (outs ((wfs ts rs).map tripleOf)).head? ≠ some .fd2 := by
  intro hh
  obtain ⟨x, hx, hb⟩ := outs_head_mem _ _ hh
  simp only [List.mem_map] at hx
  obtain ⟨w, hw, rfl⟩ := hx
  simp only [wfs, List.mem_filterMap] at hw
  obtain ⟨p, hp, hwf⟩ := hw
  have hop := wellFormed_op ts p.1 p.2 w hwf
  have : w.1 = .outToErr := by
    obtain ⟨op, t⟩ := w
    cases op <;> cases t <;> simp_all [tripleOf]
  rw [this] at hop
  exact h p hp hop

/-- the claims the documentation counts are the values the slots receive -/
theorem claims_lengths (ts : Nat → TState) (rs : List (Str × Loc)) :
    ((wfs ts rs).filterMap claimOut).length = (outs ((wfs ts rs).map tripleOf)).length ∧
    ((wfs ts rs).filterMap claimErr).length = (errs ((wfs ts rs).map tripleOf)).length ∧
    ((wfs ts rs).filterMap claimIn).length = (ins ((wfs ts rs).map tripleOf)).length := by
  have ho : (wfs ts rs).filterMap claimOut = (outs ((wfs ts rs).map tripleOf)).map claimOfOutSlot := by
    simp only [outs, List.filterMap_map, List.map_filterMap]
    congr 1; funext w; simp [claimOut_eq]
  have he : (wfs ts rs).filterMap claimErr = (errs ((wfs ts rs).map tripleOf)).map claimOfErrSlot := by
    simp only [errs, List.filterMap_map, List.map_filterMap]
    congr 1; funext w; simp [claimErr_eq]
  have hi' : (wfs ts rs).filterMap claimIn = (ins ((wfs ts rs).map tripleOf)).map slotTarget := by
    simp only [ins, List.filterMap_map, List.map_filterMap]
    congr 1; funext w; simp [claimIn_eq]
  rw [ho, he, hi']
  simp

/-- CONFLICTING REDIRECTS ARE ERRORS — for every redirect list: `resolve_redirects` succeeds iff every redirect is
well formed and no stream (stdin / stdout / stderr) is claimed by two of them -/
theorem applyRedirs_ok_iff (T : Tables) (ts : Nat → TState) (rs : List (Str × Loc)) (hg : ∀ p ∈ rs, Good T p) :
    (∃ s, applyRedirs T ts rs (none, none, none) = .ok s) ↔
      (∀ p ∈ rs, (wellFormed ts p.1 p.2).isSome = true) ∧
      ((wfs ts rs).filterMap claimIn).length ≤ 1 ∧ ((wfs ts rs).filterMap claimOut).length ≤ 1 ∧
      ((wfs ts rs).filterMap claimErr).length ≤ 1 := by
  obtain ⟨l1, l2, l3⟩ := claims_lengths ts rs
  rw [l1, l2, l3]
  constructor
  · rintro ⟨s, hs⟩
    by_cases hb : ∃ p ∈ rs, wellFormed ts p.1 p.2 = none
    · obtain ⟨x, hx⟩ := applyRedirs_bad T ts rs hg hb (none, none, none)
      rw [hx] at hs; cases hs
    · have hall : ∀ p ∈ rs, (wellFormed ts p.1 p.2).isSome = true := by
        intro p hp
        cases h : wellFormed ts p.1 p.2 with
        | none => exact absurd ⟨p, hp, h⟩ hb
        | some w => rfl
      refine ⟨hall, ?_⟩
      rw [applyRedirs_ok T ts rs hg hall] at hs
      obtain ⟨i', o', e'⟩ := s
      rw [foldT_ok] at hs
      simpa using hs.1
  · rintro ⟨hall, hl⟩
    rw [applyRedirs_ok T ts rs hg hall]
    refine ⟨((ins ((wfs ts rs).map tripleOf)).head?, (outs ((wfs ts rs).map tripleOf)).head?,
      (errs ((wfs ts rs).map tripleOf)).head?), ?_⟩
    rw [foldT_ok]
    refine ⟨by simpa using hl, by simp, by simp, by simp⟩

end Redir
