import XonshVerif.Model.TrySkel
/-
C03 — the generic lemma: a loop that starts with `if n ≤ 0: raise; n -= 1` and never writes `n` afterwards runs
at most n₀ times, whatever the opaque parts do; the guarded recursion has depth ≤ 2.  Hence a bound on the number
of parser calls for every oracle.  Proved once; the regenerated skeleton only has to satisfy `shapeOk`.
-/
namespace TrySkel

theorem exec_ctr (E : Env) (st : Stmt) (s : St) (h : noCtrWrite E.ctrName st = true) :
    (exec E st s).2.ctr = s.ctr := by
  induction st generalizing s with
  | skip => simp [exec]
  | seq a b iha ihb =>
    simp [noCtrWrite] at h
    have ha := iha s h.1
    simp only [exec]
    generalize hx : exec E a s = x at ha
    obtain ⟨o, s'⟩ := x
    cases o <;> simp_all
  | assign v =>
    simp [noCtrWrite] at h
    simp [exec, h]
  | call f => simp only [exec]; split <;> simp [St.tick]
  | recCall => simp only [exec]; split <;> simp
  | guardCtr v =>
    simp only [exec]
    repeat' split
    all_goals simp [St.tick]
  | decCtr v =>
    simp [noCtrWrite] at h
    simp [exec, h]
  | ite nl t e iht ihe =>
    simp [noCtrWrite] at h
    simp only [exec]
    repeat' split
    all_goals first | (rw [iht _ h.1]; simp [St.tick]) | (rw [ihe _ h.2]; simp [St.tick])
  | tryExc b hd ihb ihh =>
    simp [noCtrWrite] at h
    have hb := ihb s h.1
    simp only [exec]
    generalize hx : exec E b s = x at hb
    obtain ⟨o, s'⟩ := x
    cases o <;> simp_all
  | cont => simp [exec]
  | raise => simp [exec]
  | ret => simp [exec]

/-- the counter never exceeds what the oracle hands out -/
theorem exec_ctr_le (E : Env) (B : Nat) (hci : ∀ k, E.ci k ≤ B) (st : Stmt) (s : St) (h : s.ctr ≤ B) :
    (exec E st s).2.ctr ≤ B := by
  induction st generalizing s with
  | skip => simpa [exec]
  | seq a b iha ihb =>
    have ha := iha s h
    simp only [exec]
    generalize hx : exec E a s = x at ha
    obtain ⟨o, s'⟩ := x
    cases o <;> simp_all
  | assign v => simp only [exec]; split <;> simp_all [St.tick]
  | call f => simp only [exec]; split <;> simpa [St.tick]
  | recCall => simp only [exec]; split <;> simpa
  | guardCtr v =>
    simp only [exec]
    repeat' split
    all_goals simpa [St.tick]
  | decCtr v => simp only [exec]; split <;> simp <;> omega
  | ite nl t e iht ihe =>
    simp only [exec]
    repeat' split
    all_goals first | exact iht _ (by simpa [St.tick]) | exact ihe _ (by simpa [St.tick])
  | tryExc b hd ihb ihh =>
    have hb := ihb s h
    simp only [exec]
    generalize hx : exec E b s = x at hb
    obtain ⟨o, s'⟩ := x
    cases o <;> simp_all
  | cont => simpa [exec]
  | raise => simpa [exec]
  | ret => simpa [exec]

theorem exec_parses (E : Env) (pn : String) (hpn : E.parseName = pn) (Rb : Nat)
    (hrec : ∀ p k, (E.recf p k).2.1 ≤ p + Rb) (st : Stmt) (s : St) :
    (exec E st s).2.parses ≤ s.parses + maxCalls pn st + maxRec st * Rb := by
  induction st generalizing s with
  | skip => simp [exec, maxCalls, maxRec]
  | seq a b iha ihb =>
    have ha := iha s
    simp only [exec, maxCalls, maxRec]
    generalize hx : exec E a s = x at ha
    obtain ⟨o, s'⟩ := x
    have hb := ihb s'
    simp at ha
    rw [Nat.add_mul]
    cases o <;> simp <;> omega
  | assign v => simp only [exec]; split <;> simp [St.tick, maxCalls, maxRec]
  | call f =>
    simp only [exec, maxCalls, maxRec, hpn]
    split <;> simp [St.tick] <;> split <;> simp_all
  | recCall =>
    have := hrec s.parses s.orc
    simp only [exec, maxCalls, maxRec]
    split <;> simp <;> omega
  | guardCtr v =>
    simp only [exec]
    repeat' split
    all_goals simp [St.tick, maxCalls, maxRec]
  | decCtr v => simp only [exec]; split <;> simp [maxCalls, maxRec]
  | ite nl t e iht ihe =>
    simp only [exec, maxCalls, maxRec]
    have h1 : maxRec t * Rb ≤ max (maxRec t) (maxRec e) * Rb := Nat.mul_le_mul_right _ (Nat.le_max_left _ _)
    have h2 : maxRec e * Rb ≤ max (maxRec t) (maxRec e) * Rb := Nat.mul_le_mul_right _ (Nat.le_max_right _ _)
    have h3 : maxCalls pn t ≤ max (maxCalls pn t) (maxCalls pn e) := Nat.le_max_left _ _
    have h4 : maxCalls pn e ≤ max (maxCalls pn t) (maxCalls pn e) := Nat.le_max_right _ _
    repeat' split
    all_goals first
      | (have := iht s.tick; simp [St.tick] at this ⊢; omega)
      | (have := ihe s.tick; simp [St.tick] at this ⊢; omega)
  | tryExc b hd ihb ihh =>
    have hb := ihb s
    simp only [exec, maxCalls, maxRec]
    generalize hx : exec E b s = x at hb
    obtain ⟨o, s'⟩ := x
    have hh := ihh s'
    simp at hb
    rw [Nat.add_mul]
    cases o <;> simp <;> omega
  | cont => simp [exec, maxCalls, maxRec]
  | raise => simp [exec, maxCalls, maxRec]
  | ret => simp [exec, maxCalls, maxRec]

theorem exec_no_fuel (E : Env) (hrec : ∀ p k, (E.recf p k).1 ≠ .fuel) (st : Stmt) (s : St) :
    (exec E st s).1 ≠ .fuel := by
  induction st generalizing s with
  | seq a b iha ihb =>
    have ha := iha s
    simp only [exec]
    generalize hx : exec E a s = x at ha
    obtain ⟨o, s'⟩ := x
    cases o <;> simp_all
  | recCall =>
    have := hrec s.parses s.orc
    simp only [exec]
    split <;> simp_all
  | ite nl t e iht ihe =>
    simp only [exec]
    repeat' split
    all_goals first | exact iht _ | exact ihe _
  | tryExc b hd ihb ihh =>
    have hb := ihb s
    simp only [exec]
    generalize hx : exec E b s = x at hb
    obtain ⟨o, s'⟩ := x
    cases o <;> simp_all
  | _ =>
    simp only [exec]
    repeat' split
    all_goals simp

/-- in the frame entered with `logical_input=True` a guarded recursive call is never reached -/
theorem exec_no_deeper_inner (E : Env) (hl : E.logical = true) (st : Stmt) (s : St)
    (h : recGuarded false st = true) : (exec E st s).1 ≠ .deeper := by
  induction st generalizing s with
  | seq a b iha ihb =>
    simp [recGuarded] at h
    have ha := iha s h.1
    simp only [exec]
    generalize hx : exec E a s = x at ha
    obtain ⟨o, s'⟩ := x
    have := ihb s' h.2
    cases o <;> simp_all
  | recCall => simp [recGuarded] at h
  | ite nl t e iht ihe =>
    simp [recGuarded] at h
    simp only [exec]
    cases nl with
    | true => simp [hl]; exact ihe _ h.2
    | false =>
      simp
      split
      · exact iht _ (by simpa using h.1)
      · exact ihe _ h.2
  | tryExc b hd ihb ihh =>
    simp [recGuarded] at h
    have hb := ihb s h.1
    simp only [exec]
    generalize hx : exec E b s = x at hb
    obtain ⟨o, s'⟩ := x
    have := ihh s' h.2
    cases o <;> simp_all
  | _ =>
    simp only [exec]
    repeat' split
    all_goals simp

theorem exec_no_deeper_outer (E : Env) (hrec : ∀ p k, (E.recf p k).1 ≠ .deeper) (st : Stmt) (s : St) :
    (exec E st s).1 ≠ .deeper := by
  induction st generalizing s with
  | seq a b iha ihb =>
    have ha := iha s
    simp only [exec]
    generalize hx : exec E a s = x at ha
    obtain ⟨o, s'⟩ := x
    cases o <;> simp_all
  | recCall =>
    have := hrec s.parses s.orc
    simp only [exec]
    split <;> simp_all
  | ite nl t e iht ihe =>
    simp only [exec]
    repeat' split
    all_goals first | exact iht _ | exact ihe _
  | tryExc b hd ihb ihh =>
    have hb := ihb s
    simp only [exec]
    generalize hx : exec E b s = x at hb
    obtain ⟨o, s'⟩ := x
    cases o <;> simp_all
  | _ =>
    simp only [exec]
    repeat' split
    all_goals simp

theorem noRec_maxRec (st : Stmt) (h : noRec st = true) : maxRec st = 0 := by
  induction st with
  | seq a b iha ihb => simp [noRec] at h; simp [maxRec, iha h.1, ihb h.2]
  | recCall => simp [noRec] at h
  | ite nl t e iht ihe => simp [noRec] at h; simp [maxRec, iht h.1, ihe h.2]
  | tryExc b hd ihb ihh => simp [noRec] at h; simp [maxRec, ihb h.1, ihh h.2]
  | _ => simp [maxRec]

theorem noRec_guarded (st : Stmt) (g : Bool) (h : noRec st = true) : recGuarded g st = true := by
  induction st generalizing g with
  | seq a b iha ihb => simp [noRec] at h; simp [recGuarded, iha _ h.1, ihb _ h.2]
  | recCall => simp [noRec] at h
  | ite nl t e iht ihe => simp [noRec] at h; simp [recGuarded, iht _ h.1, ihe _ h.2]
  | tryExc b hd ihb ihh => simp [noRec] at h; simp [recGuarded, ihb _ h.1, ihh _ h.2]
  | _ => simp [recGuarded]

theorem body_round (E : Env) (rest : Stmt) (s : St) :
    exec E (.seq (.guardCtr E.ctrName) (.seq (.decCtr E.ctrName) rest)) s
      = if s.ctr = 0 then (.raise, s) else exec E rest { s with ctr := s.ctr - 1 } := by
  by_cases h0 : s.ctr = 0 <;> simp [exec, h0]

/-- THE LOOP LEMMA -/
theorem loop_bound (E : Env) (pn : String) (hpn : E.parseName = pn) (Rb : Nat)
    (hrec : ∀ p k, (E.recf p k).2.1 ≤ p + Rb) (hfuel : ∀ p k, (E.recf p k).1 ≠ .fuel)
    (rest : Stmt) (hw : noCtrWrite E.ctrName rest = true) :
    ∀ (fuel : Nat) (s : St), s.ctr < fuel →
      (loop E (.seq (.guardCtr E.ctrName) (.seq (.decCtr E.ctrName) rest)) fuel s).1 ≠ .fuel ∧
      (loop E (.seq (.guardCtr E.ctrName) (.seq (.decCtr E.ctrName) rest)) fuel s).2.parses
        ≤ s.parses + s.ctr * (maxCalls pn rest + maxRec rest * Rb) := by
  intro fuel
  induction fuel with
  | zero => intro s h; omega
  | succ n ih =>
    intro s h
    simp only [loop, body_round]
    split
    · -- the loop test holds: one more round
      by_cases h0 : s.tick.ctr = 0
      · have h0' : s.ctr = 0 := by simpa [St.tick] using h0
        simp [h0, St.tick, h0']
      · simp only [h0, if_false]
        have hc := exec_ctr E rest { s.tick with ctr := s.tick.ctr - 1 } hw
        have hp := exec_parses E pn hpn Rb hrec rest { s.tick with ctr := s.tick.ctr - 1 }
        have hf := exec_no_fuel E hfuel rest { s.tick with ctr := s.tick.ctr - 1 }
        generalize exec E rest { s.tick with ctr := s.tick.ctr - 1 } = x at hc hp hf
        obtain ⟨o, s3⟩ := x
        have h0' : s.ctr ≠ 0 := by simpa [St.tick] using h0
        have hc' : s3.ctr = s.ctr - 1 := by simpa [St.tick] using hc
        have hK : s3.parses ≤ s.parses + (maxCalls pn rest + maxRec rest * Rb) := by
          have : s3.parses ≤ s.parses + maxCalls pn rest + maxRec rest * Rb := by simpa [St.tick] using hp
          omega
        have hf' : o ≠ Out.fuel := by simpa using hf
        have hlt : s3.ctr < n := by omega
        have hi := ih s3 hlt
        rw [hc'] at hi
        have hmul : s.ctr * (maxCalls pn rest + maxRec rest * Rb)
            = (s.ctr - 1) * (maxCalls pn rest + maxRec rest * Rb) + (maxCalls pn rest + maxRec rest * Rb) := by
          have h1 : s.ctr = (s.ctr - 1) + 1 := by omega
          conv => lhs; rw [h1, Nat.add_mul, Nat.one_mul]
        generalize maxCalls pn rest + maxRec rest * Rb = K at *
        cases o
        · exact ⟨hi.1, by simp only []; omega⟩
        · exact ⟨hi.1, by simp only []; omega⟩
        · exact ⟨by simp, by simp only []; omega⟩
        · exact ⟨by simp, by simp only []; omega⟩
        · exact absurd rfl hf'
        · exact ⟨by simp, by simp only []; omega⟩
    · simp [St.tick]

theorem loop_no_deeper (E : Env) (body : Stmt) (h : ∀ s, (exec E body s).1 ≠ .deeper) :
    ∀ (fuel : Nat) (s : St), (loop E body fuel s).1 ≠ .deeper := by
  intro fuel
  induction fuel with
  | zero => intro s; simp [loop]
  | succ n ih =>
    intro s
    simp only [loop]
    split
    · have hb := h s.tick
      generalize exec E body s.tick = x at hb
      obtain ⟨o, s'⟩ := x
      cases o <;> simp_all
    · simp

/-- one `_try_parse`: never out of fuel with fuel B+1, never a third level, at most B rounds' worth of parser calls -/
theorem runFn_bound (E : Env) (f : Fn) (pn : String) (hpn : E.parseName = pn) (hcn : E.ctrName = f.ctr)
    (B Rb : Nat) (hci : ∀ k, E.ci k ≤ B)
    (hrec : ∀ p k, (E.recf p k).2.1 ≤ p + Rb) (hfuel : ∀ p k, (E.recf p k).1 ≠ .fuel)
    (hdeep : ∀ (st : Stmt) (s : St), recGuarded false st = true → (exec E st s).1 ≠ .deeper)
    (hs : shapeOk f pn = true) (p k : Nat) :
    (runFn E f (B + 1) p k).1 ≠ .fuel ∧ (runFn E f (B + 1) p k).1 ≠ .deeper ∧
      (runFn E f (B + 1) p k).2.1 ≤ p + B * (maxCalls pn (bodyRest f) + maxRec (bodyRest f) * Rb) := by
  simp only [shapeOk, Bool.and_eq_true, beq_iff_eq] at hs
  obtain ⟨⟨⟨⟨⟨⟨hbody, hw⟩, hg⟩, hpre⟩, hpost⟩, hcpre⟩, hcpost⟩ := hs
  generalize hK : maxCalls pn (bodyRest f) + maxRec (bodyRest f) * Rb = K
  -- prologue
  have a1 := exec_ctr_le E B hci f.pre ⟨0, p, k⟩ (Nat.zero_le _)
  have a2 := exec_parses E pn hpn Rb hrec f.pre ⟨0, p, k⟩
  have a3 := exec_no_fuel E hfuel f.pre ⟨0, p, k⟩
  have a4 := hdeep f.pre ⟨0, p, k⟩ (noRec_guarded _ _ hpre)
  rw [noRec_maxRec _ hpre, hcpre] at a2
  simp only [runFn]
  generalize exec E f.pre ⟨0, p, k⟩ = x1 at a1 a2 a3 a4
  obtain ⟨o1, s1⟩ := x1
  simp at a1 a2 a3 a4
  have hBK : 0 ≤ B * K := Nat.zero_le _
  cases o1 with
  | normal =>
    simp only []
    -- the loop
    have hwb : noCtrWrite E.ctrName (bodyRest f) = true := by rw [hcn]; exact hw
    have b1 := loop_bound E pn hpn Rb hrec hfuel (bodyRest f) hwb (B + 1) s1 (by omega)
    have hgb : recGuarded false (.seq (.guardCtr E.ctrName) (.seq (.decCtr E.ctrName) (bodyRest f))) = true := by
      simp [recGuarded, hg]
    have b2 := loop_no_deeper E _ (fun s => hdeep _ s hgb) (B + 1) s1
    rw [hcn] at b1 b2
    have hmul : s1.ctr * K ≤ B * K := Nat.mul_le_mul_right _ a1
    rw [hK] at b1
    rw [hbody]
    generalize loop E (.seq (.guardCtr f.ctr) (.seq (.decCtr f.ctr) (bodyRest f))) (B + 1) s1 = x2 at b1 b2
    obtain ⟨o2, s2⟩ := x2
    simp at b1 b2
    cases o2 with
    | normal =>
      simp only []
      -- epilogue
      have c2 := exec_parses E pn hpn Rb hrec f.post s2
      have c3 := exec_no_fuel E hfuel f.post s2
      have c4 := hdeep f.post s2 (noRec_guarded _ _ hpost)
      rw [noRec_maxRec _ hpost, hcpost] at c2
      generalize exec E f.post s2 = x3 at c2 c3 c4
      obtain ⟨o3, s3⟩ := x3
      simp at c2 c3 c4
      cases o3 <;> simp_all <;> omega
    | _ => simp_all <;> omega
  | _ => simp_all <;> omega

/-- `_parse_ctx_free`: at most two `_try_parse` runs -/
theorem ctxFree_bound (E : Env) (f : Fn) (pn : String) (hpn : E.parseName = pn) (hcn : E.ctrName = f.ctr)
    (B Rb : Nat) (hci : ∀ k, E.ci k ≤ B)
    (hrec : ∀ p k, (E.recf p k).2.1 ≤ p + Rb) (hfuel : ∀ p k, (E.recf p k).1 ≠ .fuel)
    (hdeep : ∀ (st : Stmt) (s : St), recGuarded false st = true → (exec E st s).1 ≠ .deeper)
    (hs : shapeOk f pn = true) (p k : Nat) :
    (ctxFree E f (B + 1) p k).1 ≠ .fuel ∧ (ctxFree E f (B + 1) p k).1 ≠ .deeper ∧
      (ctxFree E f (B + 1) p k).2.1 ≤ p + 2 * (B * (maxCalls pn (bodyRest f) + maxRec (bodyRest f) * Rb)) := by
  have r1 := runFn_bound E f pn hpn hcn B Rb hci hrec hfuel hdeep hs p k
  simp only [ctxFree]
  generalize runFn E f (B + 1) p k = x at r1
  obtain ⟨o, p1, k1⟩ := x
  have r2 := runFn_bound E f pn hpn hcn B Rb hci hrec hfuel hdeep hs p1 (k1 + 1)
  generalize B * (maxCalls pn (bodyRest f) + maxRec (bodyRest f) * Rb) = K at *
  simp at r1
  cases o with
  | raise =>
    simp only []
    split
    · exact ⟨r2.1, r2.2.1, by omega⟩
    · exact ⟨by simp, by simp, by simp only []; omega⟩
  | _ => simp_all <;> omega

/-- THE GENERIC THEOREM: for every oracle, the whole context-free phase (outer call, recursion on logical lines)
stops within the counters' budget, never enters a third level, and calls the parser a bounded number of times -/
theorem parseOuter_bound (o : Nat → Bool) (ci : Nat → Nat) (f : Fn) (pn : String) (B : Nat)
    (hci : ∀ k, ci k ≤ B) (hs : shapeOk f pn = true) :
    (parseOuter o ci f pn (B + 1)).1 ≠ .fuel ∧ (parseOuter o ci f pn (B + 1)).1 ≠ .deeper ∧
      (parseOuter o ci f pn (B + 1)).2.1
        ≤ 2 * (B * (maxCalls pn (bodyRest f) + maxRec (bodyRest f) * (2 * (B * maxCalls pn (bodyRest f))))) := by
  -- the inner frame (logical_input=True)
  have hin : ∀ p k,
      (parseInner o ci f pn (B + 1) p k).1 ≠ .fuel ∧ (parseInner o ci f pn (B + 1) p k).1 ≠ .deeper ∧
        (parseInner o ci f pn (B + 1) p k).2.1 ≤ p + 2 * (B * maxCalls pn (bodyRest f)) := by
    intro p k
    have := ctxFree_bound (envInner o ci f pn) f pn rfl rfl B 0 hci (by intro p k; simp [envInner])
      (by intro p k; simp [envInner])
      (fun st s h => exec_no_deeper_inner (envInner o ci f pn) rfl st s h) hs p k
    simpa [parseInner] using this
  have := ctxFree_bound (envOuter o ci f pn (B + 1)) f pn rfl rfl B (2 * (B * maxCalls pn (bodyRest f))) hci
    (by intro p k; exact (hin p k).2.2) (by intro p k; exact (hin p k).1)
    (fun st s _ => exec_no_deeper_outer (envOuter o ci f pn (B + 1)) (by intro p k; exact (hin p k).2.1) st s) hs 0 0
  simpa [parseOuter] using this

end TrySkel
