/-
C07 helper lemmas: one slice of the exhaustive one-stage case analysis (generated layout: the analysis is cut by stage kind
and position class so that the slices build in parallel; see Lemmas/RedirQuirks.lean for the assembled statements).
-/
import XonshVerif.Lemmas.Redir
set_option linter.unusedSimpArgs false
set_option linter.unusedVariables false
namespace Redir

set_option maxRecDepth 4000 in
set_option maxHeartbeats 1000000 in
theorem core_current_proc_nl (cfg : Cfg) (cap : Cap) (idx : Nat) (b : Bool)
    (sin sout serr : Option Slot) (hin : UserIn sin) (hout : UserOut sout) (herr : UserErr serr)
    (hinv : sout = some .pipeAll → serr = some .toStdout) (hR : Outside cfg cap true (.proc b) sout) :
    Matches (modelStageP Quirks.current cfg cap ⟨false, true, idx⟩ (mkBuilt cfg (.proc b) sin sout serr))
      (specCoreB cfg cap false true idx (.proc b) (sout.toList.map claimOfOutSlot) (serr.toList.map claimOfErrSlot)
        (sin.toList.map slotTarget)) ∧
    (finalSpecP Quirks.current cfg cap ⟨false, true, idx⟩ (mkBuilt cfg (.proc b) sin sout serr)).all
      (noCrash Quirks.current cap true) = true := by
  obtain ⟨h1, h2, h3, h4⟩ := hR
  obtain ⟨thread, always, printErr⟩ := cfg
  rcases hin with _ | ⟨ti⟩ <;> rcases hout with _ | ⟨to, ao⟩ | _ | _ <;> rcases herr with _ | ⟨te, ae⟩ | _ | _ <;>
    (try cases ao) <;> (try cases ae) <;> cases b <;> cases thread <;> cases cap <;>
    first
      | exact absurd rfl h1
      | (have := h4 rfl rfl; simp [procThreadable] at this; done)
      | exact ⟨rfl, rfl⟩
      | exact ⟨trivial, rfl⟩
      | (exfalso; simp at hinv; done)
      | (cases always <;> first | exact ⟨rfl, rfl⟩ | exact ⟨trivial, rfl⟩)

end Redir
