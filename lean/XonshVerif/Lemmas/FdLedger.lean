import XonshVerif.Model.FdLedger
set_option linter.unusedSectionVars false
namespace FdLedger
variable {ρ κ : Type} [DecidableEq ρ]

def closes : List (Ev ρ κ) → List ρ
  | [] => []
  | .cls r :: rest => r :: closes rest
  | _ :: rest => closes rest

def opensOf : List (Ev ρ κ) → List ρ
  | [] => []
  | .opn r :: rest => r :: opensOf rest
  | _ :: rest => opensOf rest

@[simp] theorem runRes_nil (L : List ρ) : runRes (κ := κ) L [] = L := rfl
@[simp] theorem runRes_cons (L : List ρ) (e : Ev ρ κ) (evs) : runRes L (e :: evs) = runRes (stepRes L e) evs := rfl
theorem runRes_append (L : List ρ) (a b : List (Ev ρ κ)) : runRes L (a ++ b) = runRes (runRes L a) b := by
  simp [runRes, List.foldl_append]

theorem closes_append (a b : List (Ev ρ κ)) : closes (a ++ b) = closes a ++ closes b := by
  induction a with
  | nil => rfl
  | cons e a ih => cases e <;> simp [closes, ih]

theorem opensOf_append (a b : List (Ev ρ κ)) : opensOf (a ++ b) = opensOf a ++ opensOf b := by
  induction a with
  | nil => rfl
  | cons e a ih => cases e <;> simp [opensOf, ih]

/-- the characterisation: what a run leaves open = its own residue, plus whatever was open before and was not closed -/
theorem runRes_char (L : List ρ) (evs : List (Ev ρ κ)) :
    runRes L evs = runRes [] evs ++ L.filter (fun x => !decide (x ∈ closes evs)) := by
  induction evs generalizing L with
  | nil =>
    simp only [closes, runRes_nil, List.nil_append, List.not_mem_nil, decide_false, Bool.not_false]
    exact (List.filter_eq_self.2 (fun _ _ => rfl)).symm
  | cons e evs ih =>
    cases e with
    | opn r =>
      simp only [runRes_cons, stepRes, closes]
      rw [ih (r :: L), ih [r]]
      simp [List.filter_cons, List.append_assoc]
      split <;> rfl
    | cls r =>
      simp only [runRes_cons, stepRes, closes]
      rw [ih (L.filter _)]
      simp only [List.filter_nil, List.filter_filter]
      congr 1
      apply List.filter_congr
      intro x _
      simp [List.mem_cons, Bool.and_comm]
    | install k s =>
      simp only [runRes_cons, stepRes, closes]; exact ih L
    | restore k s =>
      simp only [runRes_cons, stepRes, closes]; exact ih L

theorem mem_runRes_append {x : ρ} {a b : List (Ev ρ κ)} :
    x ∈ runRes [] (a ++ b) ↔ x ∈ runRes [] b ∨ (x ∈ runRes [] a ∧ x ∉ closes b) := by
  rw [runRes_append, runRes_char]
  simp [List.mem_append, List.mem_filter]

theorem mem_runRes_nil {x : ρ} {evs : List (Ev ρ κ)} (h : x ∈ runRes [] evs) : x ∈ opensOf evs := by
  induction evs with
  | nil => simp at h
  | cons e evs ih =>
    have h' : x ∈ runRes [] ([e] ++ evs) := h
    rw [mem_runRes_append] at h'
    cases e with
    | opn r =>
      rcases h' with h' | ⟨h', _⟩
      · simp [opensOf, ih h']
      · simp [stepRes] at h'; simp [opensOf, h']
    | cls r =>
      rcases h' with h' | ⟨h', _⟩
      · simp [opensOf, ih h']
      · simp [stepRes] at h'
    | install k s =>
      rcases h' with h' | ⟨h', _⟩
      · simp [opensOf, ih h']
      · simp [stepRes] at h'
    | restore k s =>
      rcases h' with h' | ⟨h', _⟩
      · simp [opensOf, ih h']
      · simp [stepRes] at h'

/-- a list of events without opens leaves no residue -/
theorem runRes_nil_of_no_opens {evs : List (Ev ρ κ)} (h : opensOf evs = []) : runRes [] evs = [] := by
  cases hr : runRes [] evs with
  | nil => rfl
  | cons x xs =>
    have : x ∈ opensOf evs := mem_runRes_nil (by rw [hr]; simp)
    rw [h] at this; simp at this


-- ownership -----------------------------------------------------------------------------------------------

/-- the fields the redirect / wiring steps never touch -/
structure Frame (s s' : Spec) : Prop where
  idx : s'.idx = s.idx
  kind : s'.kind = s.kind
  found : s'.found = s.found
  capOut : s'.capOut = s.capOut
  capErr : s'.capErr = s.capErr
  popenThread : s'.popenThread = s.popenThread

theorem Frame.refl (s : Spec) : Frame s s := ⟨rfl, rfl, rfl, rfl, rfl, rfl⟩
theorem Frame.trans {a b c : Spec} (h1 : Frame a b) (h2 : Frame b c) : Frame a c :=
  ⟨h2.idx.trans h1.idx, h2.kind.trans h1.kind, h2.found.trans h1.found, h2.capOut.trans h1.capOut,
   h2.capErr.trans h1.capErr, h2.popenThread.trans h1.popenThread⟩

theorem Frame_iff (s s' : Spec) : Frame s s' ↔ (s'.idx = s.idx ∧ s'.kind = s.kind ∧ s'.found = s.found ∧ s'.capOut = s.capOut ∧
    s'.capErr = s.capErr ∧ s'.popenThread = s.popenThread) :=
  ⟨fun h => ⟨h.idx, h.kind, h.found, h.capOut, h.capErr, h.popenThread⟩, fun ⟨a, b, c, d, e, f⟩ => ⟨a, b, c, d, e, f⟩⟩

/-- what one redirect leaves open is held by the spec; nothing the spec held is dropped -/
theorem applyRedir_inv (k j : Nat) (s : Spec) (r : Redir) :
    runRes [] (applyRedir k j s r).evs ⊆ (applyRedir k j s r).spec.held ∧
    s.held ⊆ (applyRedir k j s r).spec.held ∧ Frame s (applyRedir k j s r).spec ∧
    (applyRedir k j s r).spec.chans = s.chans := by
  obtain ⟨idx, kind, found, sin, sout, serr, co, ce, ch, pt⟩ := s
  cases r with
  | file t o =>
    cases o <;> cases t <;> cases sin <;> cases sout <;> cases serr <;>
      simp [applyRedir, assign3, assign, Spec.held, valRes, stepRes, Frame_iff, List.subset_def] <;>
      (try (intro a h; simp_all)) <;> (try grind)
  | errToOut | outToErr | errToPipe | allToPipe =>
    cases sin <;> cases sout <;> cases serr <;>
      simp [applyRedir, assign3, assign, Spec.held, valRes, stepRes, Frame_iff, List.subset_def]


/-- residue of two consecutive pieces, in terms of who holds what -/
theorem residue_append_sub {a b : List CEv} {A B : List Res} (ha : runRes [] a ⊆ A) (hb : runRes [] b ⊆ B) (hAB : A ⊆ B) :
    runRes [] (a ++ b) ⊆ B := by
  intro x hx
  rcases mem_runRes_append.1 hx with h | ⟨h, _⟩
  · exact hb h
  · exact hAB (ha h)

theorem applyRedirs_inv (k : Nat) (rs : List Redir) : ∀ (j : Nat) (s : Spec),
    runRes [] (applyRedirs k j s rs).evs ⊆ (applyRedirs k j s rs).spec.held ∧
    s.held ⊆ (applyRedirs k j s rs).spec.held ∧ Frame s (applyRedirs k j s rs).spec ∧
    (applyRedirs k j s rs).spec.chans = s.chans := by
  induction rs with
  | nil => intro j s; simp [applyRedirs, Frame.refl]
  | cons r rs ih =>
    intro j s
    obtain ⟨h1, h2, h3, h4⟩ := applyRedir_inv k j s r
    simp only [applyRedirs]
    split
    · exact ⟨h1, h2, h3, h4⟩
    · obtain ⟨i1, i2, i3, i4⟩ := ih (j + 1) (applyRedir k j s r).spec
      exact ⟨residue_append_sub h1 i1 i2, fun x hx => i2 (h2 hx), h3.trans i3, i4.trans h4⟩

theorem Spec.new_held (k : Nat) (st : Stage) : (Spec.new k st).held = [] := rfl

theorem build_inv (k : Nat) (st : Stage) :
    runRes [] (build k st).evs ⊆ (build k st).spec.held ∧ (build k st).spec.idx = k ∧
    (build k st).spec.capOut = none ∧ (build k st).spec.capErr = none ∧ (build k st).spec.chans = [] := by
  obtain ⟨h1, _, h3, h4⟩ := applyRedirs_inv k st.redirs 0 (Spec.new k st)
  simp only [build]
  split
  · exact ⟨h1, h3.idx, h3.capOut, h3.capErr, h4⟩
  · exact ⟨h1, h3.idx, h3.capOut, h3.capErr, h4⟩

def heldAll (specs : List Spec) : List Res := specs.flatMap Spec.held

@[simp] theorem heldAll_nil : heldAll [] = [] := rfl
@[simp] theorem heldAll_cons (s : Spec) (rest : List Spec) : heldAll (s :: rest) = s.held ++ heldAll rest := by
  simp [heldAll]
theorem heldAll_append (a b : List Spec) : heldAll (a ++ b) = heldAll a ++ heldAll b := by
  simp [heldAll]

theorem closes_closeSpec (s : Spec) : closes (closeSpec s) = s.held := by
  unfold closeSpec
  induction s.held with
  | nil => rfl
  | cons x xs ih => simp [closes, ih]

theorem opensOf_closeSpec (s : Spec) : opensOf (closeSpec s) = [] := by
  unfold closeSpec
  induction s.held with
  | nil => rfl
  | cons x xs ih => simp [opensOf, ih]

theorem closes_closeAll (specs : List Spec) : closes (closeAll specs) = heldAll specs := by
  induction specs with
  | nil => rfl
  | cons s rest ih => simp [closeAll, closes_append, closes_closeSpec, ← ih]

theorem opensOf_closeAll (specs : List Spec) : opensOf (closeAll specs) = [] := by
  induction specs with
  | nil => rfl
  | cons s rest ih =>
    have : closeAll (s :: rest) = closeSpec s ++ closeAll rest := by simp [closeAll]
    rw [this, opensOf_append, opensOf_closeSpec, ih]; rfl

/-- a spec as `build` leaves it: nothing captured yet, no channel, its index is its position -/
structure Fresh (k : Nat) (s : Spec) : Prop where
  idx : s.idx = k
  capOut : s.capOut = none
  capErr : s.capErr = none

/-- positions k, k+1, ... -/
def Indexed : Nat → List Spec → Prop
  | _, [] => True
  | k, s :: rest => Fresh k s ∧ Indexed (k + 1) rest

theorem buildAll_inv (stages : List Stage) : ∀ k : Nat,
    (∀ x ∈ runRes [] (buildAll k stages).evs,
        x ∈ heldAll (buildAll k stages).specs ∨ ∃ f, (buildAll k stages).failed = some f ∧ x ∈ f.held) ∧
    Indexed k (buildAll k stages).specs ∧ (∀ s ∈ (buildAll k stages).specs, s.chans = []) := by
  induction stages with
  | nil => intro k; simp [buildAll, Indexed]
  | cons st rest ih =>
    intro k
    obtain ⟨h1, h2, h3, h4, h5⟩ := build_inv k st
    simp only [buildAll]
    split
    · refine ⟨fun x hx => Or.inr ⟨_, rfl, h1 hx⟩, by simp [Indexed], by simp⟩
    · obtain ⟨i1, i2, i3⟩ := ih (k + 1)
      refine ⟨?_, ⟨⟨h2, h3, h4⟩, i2⟩, ?_⟩
      · intro x hx
        rcases mem_runRes_append.1 hx with h | ⟨h, _⟩
        · rcases i1 x h with h | h
          · exact Or.inl (by simp [h])
          · exact Or.inr h
        · exact Or.inl (by simp [h1 h])
      · intro s hs
        rcases List.mem_cons.1 hs with rfl | hs
        · exact h5
        · exact i3 s hs


/-- two spec lists that differ, position by position, only in fields outside the frame -/
inductive Frames : List Spec → List Spec → Prop
  | nil : Frames [] []
  | cons {a b : Spec} {as bs : List Spec} : Frame a b → Frames as bs → Frames (a :: as) (b :: bs)

theorem Indexed_of_frames : ∀ {a b : List Spec} {k : Nat}, Frames a b → Indexed k a → Indexed k b
  | _, _, _, .nil, _ => trivial
  | _, _, _, .cons h t, ⟨f, i⟩ =>
    ⟨⟨h.idx.trans f.idx, h.capOut.trans f.capOut, h.capErr.trans f.capErr⟩, Indexed_of_frames t i⟩

theorem Frames.cons_inv {a : Spec} {as l : List Spec} (h : Frames (a :: as) l) :
    ∃ b bs, l = b :: bs ∧ Frame a b ∧ Frames as bs := by
  cases h with
  | cons hd tl => exact ⟨_, _, rfl, hd, tl⟩

theorem Frames.refl : ∀ l : List Spec, Frames l l
  | [] => .nil
  | s :: l => .cons (Frame.refl s) (Frames.refl l)

theorem chanRes_append (a b : List (Res × Res)) : chanRes (a ++ b) = chanRes a ++ chanRes b := by
  induction a with
  | nil => rfl
  | cons p a ih => obtain ⟨r, w⟩ := p; simp [chanRes, ih]

theorem wireUp_inv (up : Spec) :
    up.held ⊆ (wireUp up).1.held ∧ Frame up (wireUp up).1 ∧ (wireUp up).1.chans = up.chans := by
  obtain ⟨idx, kind, found, sin, sout, serr, co, ce, ch, pt⟩ := up
  rcases sout with _ | (_ | _ | _ | _ | _) <;> rcases serr with _ | (_ | _ | _ | _ | _) <;>
    simp [wireUp, Spec.held, valRes, Frame_iff, List.subset_def] <;> (try (intro a h; simp_all)) <;> (try grind)


theorem held_with_sin_fd (dn : Spec) (h : dn.sin.isSome = false) : ({ dn with sin := some Val.fd } : Spec).held = dn.held := by
  cases hs : dn.sin with
  | none => simp [Spec.held, valRes, hs]
  | some v => simp [hs] at h

theorem held_with_chan (u : Spec) (pr pw : Res) :
    ({ u with chans := u.chans ++ [(pr, pw)] } : Spec).held = u.held ++ [pw, pr] := by
  simp [Spec.held, chanRes_append, chanRes, List.append_assoc]

/-- the `|` loop: every pipe it opens is attached to its upstream spec (or is the orphan it raised with), it closes nothing,
and no spec loses anything it held -/
theorem wire_inv (rest : List Spec) : ∀ up : Spec,
    (∀ x ∈ runRes [] (wire up rest).evs, x ∈ heldAll (wire up rest).specs ∨ x ∈ (wire up rest).orphan) ∧
    heldAll (up :: rest) ⊆ heldAll (wire up rest).specs ∧
    Frames (up :: rest) (wire up rest).specs ∧
    closes (wire up rest).evs = [] ∧
    ((wire up rest).raised = false → (wire up rest).orphan = []) := by
  induction rest with
  | nil =>
    intro up
    exact ⟨by simp [wire], by simp [wire], by simpa [wire] using Frames.refl [up], by simp [wire, closes], by simp [wire]⟩
  | cons dn rest ih =>
    intro up
    obtain ⟨u1, u2, u3⟩ := wireUp_inv up
    have ev0 : ∀ x, x ∈ runRes (ρ := Res) (κ := Nat) [] [Ev.opn ⟨up.idx, .pipeR⟩, Ev.opn ⟨up.idx, .pipeW⟩] →
        x ∈ [(⟨up.idx, .pipeW⟩ : Res), ⟨up.idx, .pipeR⟩] := by
      intro x hx; simpa [stepRes] using hx
    have hsub : heldAll (up :: dn :: rest) ⊆ heldAll ((wireUp up).1 :: dn :: rest) := by
      simp only [heldAll_cons]
      intro x hx
      rcases List.mem_append.1 hx with h | h
      · exact List.mem_append_left _ (u1 h)
      · exact List.mem_append_right _ h
    have hfr : Frames (up :: dn :: rest) ((wireUp up).1 :: dn :: rest) := .cons u2 (Frames.refl _)
    simp only [wire]
    split
    · exact ⟨fun x hx => Or.inr (ev0 x hx), hsub, hfr, by simp [closes], by simp⟩
    · split
      · exact ⟨fun x hx => Or.inr (ev0 x hx), hsub, hfr, by simp [closes], by simp⟩
      · rename_i _ hsin
        have hsin' : dn.sin.isSome = false := by simpa using hsin
        obtain ⟨i1, i2, i3, i4, i5⟩ := ih { dn with sin := some Val.fd }
        refine ⟨?_, ?_, ?_, ?_, i5⟩
        · intro x hx
          rcases mem_runRes_append.1 hx with h | ⟨h, _⟩
          · rcases i1 x h with h | h
            · exact Or.inl (by simp [h])
            · exact Or.inr h
          · refine Or.inl ?_
            dsimp only
            rw [heldAll_cons, held_with_chan]
            exact List.mem_append_left _ (List.mem_append_right _ (ev0 x h))
        · dsimp only
          rw [heldAll_cons, heldAll_cons, heldAll_cons, held_with_chan]
          intro x hx
          rcases List.mem_append.1 hx with h | h
          · exact List.mem_append_left _ (List.mem_append_left _ (u1 h))
          · refine List.mem_append_right _ (i2 ?_)
            rw [heldAll_cons, held_with_sin_fd dn hsin']
            simpa using h
        · refine .cons ⟨u2.idx, u2.kind, u2.found, u2.capOut, u2.capErr, u2.popenThread⟩ ?_
          obtain ⟨b, bs, hb, hd, tl⟩ := i3.cons_inv
          rw [hb]
          exact .cons ⟨hd.idx, hd.kind, hd.found, hd.capOut, hd.capErr, hd.popenThread⟩ tl
        · simp [closes_append, closes, i4]

@[simp] theorem valRes_obj (r : Res) : valRes (some (.obj r)) = [r] := rfl
@[simp] theorem valRes_none : valRes none = [] := rfl
@[simp] theorem valRes_flag : valRes (some .stdoutFlag) = [] := rfl
@[simp] theorem valRes_two : valRes (some .two) = [] := rfl
@[simp] theorem valRes_sentinel : valRes (some .sentinel) = [] := rfl
@[simp] theorem valRes_fd : valRes (some .fd) = [] := rfl
@[simp] theorem optRes_some (r : Res) : optRes (some r) = [r] := rfl
@[simp] theorem optRes_none : optRes none = [] := rfl

/-- one step of `_make_last_spec_captured` / `_update_last_spec`: opens end up held, nothing held is dropped -/
structure Grow (evs : List CEv) (s s' : Spec) : Prop where
  owned : runRes [] evs ⊆ s'.held
  mono : s.held ⊆ s'.held
  idx : s'.idx = s.idx
  kind : s'.kind = s.kind
  found : s'.found = s.found
  noClose : closes evs = []

theorem capOutSide_inv (s : Spec) (hco : s.capOut = none) :
    Grow (capOutSide s).1 s (capOutSide s).2 ∧ (capOutSide s).2.capErr = s.capErr ∧
    ((capOutSide s).2.serr = s.serr) ∧ (capOutSide s).2.popenThread = s.popenThread := by
  obtain ⟨idx, kind, found, sin, sout, serr, co, ce, ch, pt⟩ := s
  simp only at hco; subst hco
  cases sout with
  | some v => exact ⟨⟨by simp [capOutSide], by simp [capOutSide], rfl, rfl, rfl, by simp [capOutSide, closes]⟩, rfl, rfl, rfl⟩
  | none =>
    refine ⟨⟨?_, ?_, rfl, rfl, rfl, by simp [capOutSide, capPipe, closes]⟩, rfl, rfl, rfl⟩
    · simp [capOutSide, capPipe, Spec.held, chanRes, chanRes_append, stepRes, List.subset_def]
    · simp [capOutSide, Spec.held, chanRes, chanRes_append, List.subset_def]
      grind

theorem capErrSide_inv (c : Capture) (s : Spec) (hce : s.capErr = none) :
    Grow (capErrSide c s).1 s (capErrSide c s).2 ∧ (capErrSide c s).2.popenThread = s.popenThread ∧
    ((capErrSide c s).2.serr = some .stdoutFlag → (capErrSide c s).2.capErr = none) := by
  obtain ⟨idx, kind, found, sin, sout, serr, co, ce, ch, pt⟩ := s
  simp only at hce; subst hce
  by_cases h : (serr.isSome || c == .stdout) = true
  · have e : capErrSide c ⟨idx, kind, found, sin, sout, serr, co, none, ch, pt⟩ = ([], ⟨idx, kind, found, sin, sout, serr, co, none, ch, pt⟩) := by
      simp [capErrSide, h]
    rw [e]
    exact ⟨⟨by simp, by simp, rfl, rfl, rfl, by simp [closes]⟩, rfl, fun _ => rfl⟩
  · have e : capErrSide c ⟨idx, kind, found, sin, sout, serr, co, none, ch, pt⟩ = (capPipe idx true,
        ⟨idx, kind, found, sin, sout, some (.obj ⟨idx, .wrapW true⟩), co, some ⟨idx, .wrapR true⟩,
          ch ++ [(⟨idx, .capR true⟩, ⟨idx, .capW true⟩)], pt⟩) := by
      simp [capErrSide, h]
    rw [e]
    refine ⟨⟨?_, ?_, rfl, rfl, rfl, by simp [capPipe, closes]⟩, rfl, by simp⟩
    · simp [capPipe, Spec.held, chanRes, chanRes_append, stepRes, List.subset_def]
    · have : serr = none := by cases serr <;> simp_all
      subst this
      simp [Spec.held, chanRes, chanRes_append, List.subset_def]
      grind


theorem Grow.refl (s : Spec) : Grow [] s s := ⟨by simp, by simp, rfl, rfl, rfl, rfl⟩

theorem Grow.comp {e1 e2 : List CEv} {s s1 s2 : Spec} (h1 : Grow e1 s s1) (h2 : Grow e2 s1 s2) : Grow (e1 ++ e2) s s2 :=
  ⟨residue_append_sub h1.owned h2.owned h2.mono, fun _ hx => h2.mono (h1.mono hx), h2.idx.trans h1.idx,
   h2.kind.trans h1.kind, h2.found.trans h1.found, by rw [closes_append, h1.noClose, h2.noClose]; rfl⟩

theorem held_sub {s s' : Spec} (h1 : valRes s.sin ⊆ valRes s'.sin) (h2 : valRes s.sout ⊆ valRes s'.sout)
    (h3 : valRes s.serr ⊆ valRes s'.serr) (h4 : optRes s.capOut ⊆ optRes s'.capOut) (h5 : optRes s.capErr ⊆ optRes s'.capErr)
    (h6 : chanRes s.chans ⊆ chanRes s'.chans) : s.held ⊆ s'.held := by
  intro x hx
  simp only [Spec.held, List.mem_append] at hx ⊢
  rcases hx with ((((h | h) | h) | h) | h) | h
  · exact Or.inl (Or.inl (Or.inl (Or.inl (Or.inl (h1 h)))))
  · exact Or.inl (Or.inl (Or.inl (Or.inl (Or.inr (h2 h)))))
  · exact Or.inl (Or.inl (Or.inl (Or.inr (h3 h))))
  · exact Or.inl (Or.inl (Or.inr (h4 h)))
  · exact Or.inl (Or.inr (h5 h))
  · exact Or.inr (h6 h)


theorem setThreading_inv (c : Capture) (ca : Bool) (s : Spec) :
    Grow [] s (setThreading c ca s) ∧ (setThreading c ca s).capOut = s.capOut ∧ (setThreading c ca s).capErr = s.capErr := by
  unfold setThreading
  split
  · exact ⟨⟨by simp, by simp [Spec.held], rfl, rfl, rfl, rfl⟩, rfl, rfl⟩
  · exact ⟨Grow.refl s, rfl, rfl⟩

theorem fixOutToErr_inv (s : Spec) :
    Grow [] s (fixOutToErr s) ∧ (fixOutToErr s).serr = s.serr ∧ (fixOutToErr s).capErr = s.capErr := by
  unfold fixOutToErr
  split
  · rename_i h2
    have h2' : s.sout = some Val.two := by simpa using h2
    exact ⟨⟨by simp, held_sub (by simp) (by simp [h2']) (by simp) (by simp) (by simp) (by simp), rfl, rfl, rfl, rfl⟩, rfl, rfl⟩
  · exact ⟨Grow.refl s, rfl, rfl⟩

theorem fixErrToOut_inv (s : Spec) (h : s.serr = some .stdoutFlag → s.capErr = none) : Grow [] s (fixErrToOut s) := by
  unfold fixErrToOut
  split
  · rename_i h4
    have h4' : s.serr = some Val.stdoutFlag := by
      simp only [Bool.and_eq_true, beq_iff_eq] at h4; exact h4.2
    exact ⟨by simp, held_sub (by simp) (by simp) (by simp [h4']) (by simp) (by simp [h h4']) (by simp), rfl, rfl, rfl, rfl⟩
  · exact Grow.refl s

theorem makeCaptured_inv (c : Capture) (s : Spec) (hco : s.capOut = none) (hce : s.capErr = none) :
    Grow (makeCaptured c s).1 s (makeCaptured c s).2 := by
  obtain ⟨ga, a1, _, _⟩ := capOutSide_inv s hco
  obtain ⟨gb, _, b2⟩ := capErrSide_inv c (capOutSide s).2 (a1.trans hce)
  obtain ⟨g3, e1, e2⟩ := fixOutToErr_inv (capErrSide c (capOutSide s).2).2
  have g4 := fixErrToOut_inv (fixOutToErr (capErrSide c (capOutSide s).2).2) (by rw [e1, e2]; exact b2)
  have := Grow.comp (Grow.comp ga gb) (Grow.comp g3 g4)
  simpa [makeCaptured] using this

theorem updateLast_inv (c : Capture) (ca : Bool) (s : Spec) (hco : s.capOut = none) (hce : s.capErr = none) :
    Grow (updateLast c ca s).1 s (updateLast c ca s).2 := by
  obtain ⟨g0, c1, c2⟩ := setThreading_inv c ca s
  unfold updateLast
  split
  · exact Grow.refl s
  · split
    · exact g0
    · have := Grow.comp g0 (makeCaptured_inv c (setThreading c ca s) (c1.trans hco) (c2.trans hce))
      simpa using this


theorem mapLast_inv (c : Capture) (ca : Bool) (specs : List Spec) : ∀ k, Indexed k specs →
    runRes [] (mapLast (updateLast c ca) specs).1 ⊆ heldAll (mapLast (updateLast c ca) specs).2 ∧
    heldAll specs ⊆ heldAll (mapLast (updateLast c ca) specs).2 ∧
    closes (mapLast (updateLast c ca) specs).1 = [] ∧
    (mapLast (updateLast c ca) specs).2.map (·.idx) = specs.map (·.idx) := by
  induction specs with
  | nil => intro k _; simp [mapLast, closes]
  | cons s rest ih =>
    intro k hk
    cases rest with
    | nil =>
      have g := updateLast_inv c ca s hk.1.capOut hk.1.capErr
      simp only [mapLast, heldAll_cons, heldAll_nil, List.append_nil, List.map_cons, List.map_nil]
      exact ⟨g.owned, g.mono, g.noClose, by rw [g.idx]⟩
    | cons s2 rest2 =>
      obtain ⟨i1, i2, i3, i4⟩ := ih (k + 1) hk.2
      simp only [mapLast, heldAll_cons] at i1 i2 i3 i4 ⊢
      refine ⟨fun x hx => List.mem_append_right _ (i1 hx), ?_, i3, by simp [i4]⟩
      intro x hx
      rcases List.mem_append.1 hx with h | h
      · exact List.mem_append_left _ h
      · exact List.mem_append_right _ (i2 h)

theorem Indexed_idx_ge : ∀ {k : Nat} {specs : List Spec}, Indexed k specs → ∀ s ∈ specs, k ≤ s.idx
  | _, [], _, _, h => by simp at h
  | k, s :: rest, ⟨f, i⟩, t, h => by
    rcases List.mem_cons.1 h with rfl | h
    · exact Nat.le_of_eq f.idx.symm
    · exact Nat.le_of_succ_le (Indexed_idx_ge i t h)

/-- the indices of consecutively numbered specs are pairwise distinct -/
theorem Indexed_nodup : ∀ {k : Nat} {specs : List Spec}, Indexed k specs → (specs.map (·.idx)).Nodup
  | _, [], _ => by simp
  | k, s :: rest, ⟨f, i⟩ => by
    simp only [List.map_cons, List.nodup_cons, List.mem_map, not_exists, not_and]
    refine ⟨fun t ht e => ?_, Indexed_nodup i⟩
    have := Indexed_idx_ge i t ht
    rw [e, f.idx] at this
    exact Nat.not_succ_le_self k this


/-- a piece followed by closes of everything it left open leaves nothing -/
theorem residue_nil_of_closed {a cl : List CEv} (hopen : opensOf cl = []) (h : ∀ x ∈ runRes [] a, x ∈ closes cl) :
    runRes [] (a ++ cl) = [] := by
  apply List.eq_nil_iff_forall_not_mem.2
  intro x hx
  rcases mem_runRes_append.1 hx with h1 | ⟨h1, h2⟩
  · rw [runRes_nil_of_no_opens hopen] at h1; simp at h1
  · exact h2 (h x h1)

theorem opensOf_map_cls (l : List Res) : opensOf (l.map (Ev.cls (κ := Nat))) = [] := by
  induction l with
  | nil => rfl
  | cons x xs ih => simp [opensOf, ih]

theorem closes_map_cls (l : List Res) : closes (l.map (Ev.cls (κ := Nat))) = l := by
  induction l with
  | nil => rfl
  | cons x xs ih => simp [closes, ih]

/-- `cmds_to_specs`: when it succeeds every resource it left open is held by one of the specs it returns; when it raises,
everything is closed again by the time the exception has been dropped -/
theorem cmdsToSpecs_inv (v : Variant) (c : Cmd) :
    ((cmdsToSpecs v c).why = .ok →
        runRes [] (cmdsToSpecs v c).evs ⊆ heldAll (cmdsToSpecs v c).specs ∧ (cmdsToSpecs v c).onRelease = [] ∧
        ((cmdsToSpecs v c).specs.map (·.idx)).Nodup) ∧
    ((cmdsToSpecs v c).why ≠ .ok → runRes [] ((cmdsToSpecs v c).evs ++ (cmdsToSpecs v c).onRelease) = []) := by
  obtain ⟨b1, b2, b3⟩ := buildAll_inv c.stages 0
  unfold cmdsToSpecs
  dsimp only
  split
  · -- a build raised
    rename_i f hf
    have hb : ∀ x ∈ runRes [] (buildAll 0 c.stages).evs, x ∈ heldAll (buildAll 0 c.stages).specs ∨ x ∈ f.held := by
      intro x hx
      rcases b1 x hx with h | ⟨f', hf', h⟩
      · exact Or.inl h
      · rw [hf] at hf'; cases hf'; exact Or.inr h
    split
    · refine ⟨by simp, fun _ => ?_⟩
      rw [List.append_nil, List.append_assoc]
      apply residue_nil_of_closed
      · rw [opensOf_append, opensOf_closeSpec, opensOf_closeAll]; rfl
      · intro x hx
        rw [closes_append, closes_closeSpec, closes_closeAll]
        rcases hb x hx with h | h
        · exact List.mem_append_right _ h
        · exact List.mem_append_left _ h
    · refine ⟨by simp, fun _ => ?_⟩
      rw [List.append_assoc]
      apply residue_nil_of_closed
      · rw [opensOf_append, opensOf_closeSpec, opensOf_closeAll]; rfl
      · intro x hx
        rw [closes_append, closes_closeSpec, closes_closeAll]
        rcases hb x hx with h | h
        · exact List.mem_append_left _ h
        · exact List.mem_append_right _ h
  · rename_i hf
    have hb : runRes [] (buildAll 0 c.stages).evs ⊆ heldAll (buildAll 0 c.stages).specs := by
      intro x hx
      rcases b1 x hx with h | ⟨f', hf', _⟩
      · exact h
      · rw [hf] at hf'; cases hf'
    split
    · -- no stage at all
      rename_i hs
      refine ⟨by simp, fun _ => ?_⟩
      rw [List.append_nil]
      apply List.eq_nil_iff_forall_not_mem.2
      intro x hx
      have := hb hx
      rw [hs] at this; simp at this
    · rename_i s0 rest hs
      rw [hs] at hb b2
      obtain ⟨w1, w2, w3, w4, w5⟩ := wire_inv rest s0
      have hidx : Indexed 0 (wire s0 rest).specs := Indexed_of_frames w3 b2
      -- what build and wiring together leave open
      have hbw : ∀ x ∈ runRes [] ((buildAll 0 c.stages).evs ++ (wire s0 rest).evs),
          x ∈ heldAll (wire s0 rest).specs ∨ x ∈ (wire s0 rest).orphan := by
        intro x hx
        rcases mem_runRes_append.1 hx with h | ⟨h, _⟩
        · exact w1 x h
        · exact Or.inl (w2 (hb h))
      have closeAllNil : runRes [] ((buildAll 0 c.stages).evs ++ (wire s0 rest).evs ++ closeAll (wire s0 rest).specs) = [] ∨
          (wire s0 rest).raised = true := by
        by_cases hr : (wire s0 rest).raised = true
        · exact Or.inr hr
        · left
          have ho := w5 (by simpa using hr)
          apply residue_nil_of_closed (opensOf_closeAll _)
          intro x hx
          rw [closes_closeAll]
          rcases hbw x hx with h | h
          · exact h
          · rw [ho] at h; simp at h
      split
      · -- a stream setter raised in the `|` loop
        split
        · refine ⟨by simp, fun _ => ?_⟩
          rw [List.append_nil, List.append_assoc ((buildAll 0 c.stages).evs ++ (wire s0 rest).evs)]
          apply residue_nil_of_closed
          · rw [opensOf_append, opensOf_map_cls, opensOf_closeAll]; rfl
          · intro x hx
            rw [closes_append, closes_map_cls, closes_closeAll]
            rcases hbw x hx with h | h
            · exact List.mem_append_right _ h
            · exact List.mem_append_left _ h
        · refine ⟨by simp, fun _ => ?_⟩
          rw [List.append_assoc ((buildAll 0 c.stages).evs ++ (wire s0 rest).evs)]
          apply residue_nil_of_closed
          · rw [opensOf_append, opensOf_map_cls, opensOf_closeAll]; rfl
          · intro x hx
            rw [closes_append, closes_map_cls, closes_closeAll]
            rcases hbw x hx with h | h
            · exact List.mem_append_left _ h
            · exact List.mem_append_right _ h
      · rename_i hr
        have hnil := closeAllNil.resolve_right hr
        split
        · exact ⟨by simp, fun _ => by rw [List.append_nil]; exact hnil⟩
        · split
          · exact ⟨by simp, fun _ => by rw [List.append_nil]; exact hnil⟩
          · obtain ⟨m1, m2, m3, m4⟩ := mapLast_inv c.capture c.captureAlways (wire s0 rest).specs 0 hidx
            refine ⟨fun _ => ⟨?_, rfl, ?_⟩, by simp⟩
            · intro x hx
              rcases mem_runRes_append.1 hx with h | ⟨h, _⟩
              · exact m1 h
              · rcases hbw x h with h | h
                · exact m2 h
                · rw [w5 (by simpa using hr)] at h; simp at h
            · rw [m4]; exact Indexed_nodup hidx


-- starting and ending -----------------------------------------------------------------------------------------

/-- what starting a stage acquires -/
def procRes1 (s : Spec) : List Res := opensOf (spawn s)
def procRes (procs : List Spec) : List Res := procs.flatMap procRes1

theorem closes_installs (k : Nat) (ss : List Sig) : closes (installs k ss) = ([] : List Res) := by
  induction ss with
  | nil => rfl
  | cons s ss ih => simpa [installs, closes] using ih
theorem closes_restores (k : Nat) (ss : List Sig) : closes (restores k ss) = ([] : List Res) := by
  induction ss with
  | nil => rfl
  | cons s ss ih => simpa [restores, closes] using ih
theorem opensOf_installs (k : Nat) (ss : List Sig) : opensOf (installs k ss) = ([] : List Res) := by
  induction ss with
  | nil => rfl
  | cons s ss ih => simpa [installs, opensOf] using ih
theorem opensOf_restores (k : Nat) (ss : List Sig) : opensOf (restores k ss) = ([] : List Res) := by
  induction ss with
  | nil => rfl
  | cons s ss ih => simpa [restores, opensOf] using ih
theorem closes_spawn (s : Spec) : closes (spawn s) = [] := by
  unfold spawn; split <;> (try split) <;> simp [closes]
theorem opensOf_reap (s : Spec) : opensOf (reap s) = [] := by
  unfold reap; split <;> (try split) <;> simp [opensOf]
theorem closes_reap (s : Spec) : closes (reap s) = procRes1 s := by
  unfold reap procRes1 spawn; split <;> (try split) <;> simp [closes, opensOf]
theorem opensOf_joinOnly (s : Spec) : opensOf (joinOnly s) = [] := by
  unfold joinOnly; split <;> (try split) <;> simp [opensOf]

/-- `CommandPipeline.__init__`: the started stages are a prefix of the specs; what starting left open are the started
children / threads; on a start failure the specs from the failing one on are closed -/
theorem start_inv (onMain : Bool) (specs : List Spec) :
    runRes [] (start onMain specs).evs ⊆ procRes (start onMain specs).procs ∧
    ∃ suf, specs = (start onMain specs).procs ++ suf ∧ closes (start onMain specs).evs = heldAll suf ∧
      ((start onMain specs).failed = false → suf = []) := by
  induction specs with
  | nil => exact ⟨by simp [start], [], by simp [start], by simp [start, closes], fun _ => rfl⟩
  | cons s rest ih =>
    simp only [start]
    split
    · refine ⟨?_, s :: rest, by simp, ?_, by simp⟩
      · rw [runRes_nil_of_no_opens]
        · simp
        · rw [opensOf_append, opensOf_append, opensOf_installs, opensOf_restores, opensOf_closeAll]; rfl
      · rw [closes_append, closes_append, closes_installs, closes_restores, closes_closeAll]; rfl
    · obtain ⟨i1, suf, i2, i3, i4⟩ := ih
      refine ⟨?_, suf, by simp [← i2], ?_, i4⟩
      · intro x hx
        simp only [procRes, List.flatMap_cons, List.mem_append]
        rcases mem_runRes_append.1 hx with h | ⟨h, _⟩
        · exact Or.inr (i1 h)
        · left
          have := mem_runRes_nil h
          rw [opensOf_append, opensOf_installs] at this
          exact this
      · rw [closes_append, closes_append, closes_installs, closes_spawn, i3]; rfl

theorem closes_flatMap {α : Type} (l : List α) (f : α → List CEv) : closes (l.flatMap f) = l.flatMap (fun a => closes (f a)) := by
  induction l with
  | nil => rfl
  | cons a l ih => simp [closes_append, ih]

theorem opensOf_flatMap {α : Type} (l : List α) (f : α → List CEv) (h : ∀ a ∈ l, opensOf (f a) = []) :
    opensOf (l.flatMap f) = [] := by
  induction l with
  | nil => rfl
  | cons a l ih =>
    rw [List.flatMap_cons, opensOf_append, h a (by simp), ih (fun b hb => h b (by simp [hb]))]; rfl

theorem closes_closePrev (s : Spec) : closes (closePrev s) = s.held ++ procRes1 s := by
  rw [closePrev, closes_append, closes_closeSpec, closes_reap]

theorem opensOf_closePrev (s : Spec) : opensOf (closePrev s) = [] := by
  rw [closePrev, opensOf_append, opensOf_closeSpec, opensOf_reap]; rfl

theorem opensOf_restoreAll (procs : List Spec) : opensOf (restoreAll procs) = ([] : List Res) :=
  opensOf_flatMap _ _ (fun _ _ => opensOf_restores _ _)

theorem closes_restoreAll (procs : List Spec) : closes (restoreAll procs) = ([] : List Res) := by
  rw [restoreAll, closes_flatMap]
  induction procs.reverse with
  | nil => rfl
  | cons a l ih => simp [closes_restores, ih]

theorem opensOf_lastClose (specs : List Spec) : opensOf (lastClose specs) = [] := by
  unfold lastClose; split
  · exact opensOf_closeSpec _
  · rfl

/-- `end()` opens nothing -/
theorem opensOf_finish (v : Variant) (aborts : Bool) (specs : List Spec) (st : Started) :
    opensOf (finish v aborts specs st) = [] := by
  unfold finish
  split
  · rw [opensOf_append, opensOf_append, opensOf_flatMap _ _ (fun _ _ => opensOf_closePrev _), opensOf_lastClose]
    split
    · rw [opensOf_restoreAll]; rfl
    · rfl
  · split
    · rfl
    · rename_i l _
      rw [opensOf_append, opensOf_append, opensOf_append, opensOf_flatMap _ _ (fun _ _ => opensOf_closePrev _), opensOf_closeSpec]
      have h1 : opensOf (if aborts = true then joinOnly l else reap l ++ restores l.idx l.sigs) = ([] : List Res) := by
        split
        · exact opensOf_joinOnly _
        · rw [opensOf_append, opensOf_reap, opensOf_restores]; rfl
      rw [h1]
      split
      · rw [opensOf_restoreAll]; rfl
      · rfl


theorem dropLast_append_of_getLast? : ∀ {l : List Spec} {a : Spec}, l.getLast? = some a → l.dropLast ++ [a] = l
  | [], _, h => by simp at h
  | [b], a, h => by simp at h; simp [h]
  | b :: c :: l, a, h => by
    have h' : (c :: l).getLast? = some a := by simpa [List.getLast?_cons_cons] using h
    have := dropLast_append_of_getLast? h'
    simp only [List.dropLast_cons_cons, List.cons_append, this]

theorem mem_closes_flatMap_closePrev {l : List Spec} {s : Spec} (hs : s ∈ l) {x : Res} (hx : x ∈ s.held ++ procRes1 s) :
    x ∈ closes (l.flatMap closePrev) := by
  rw [closes_flatMap]
  exact List.mem_flatMap.2 ⟨s, hs, by rw [closes_closePrev]; exact hx⟩

theorem joinOnly_covers (l : Spec) {x : Res} (hx : x ∈ procRes1 l) : x ∈ closes (joinOnly l) ∨ x.what = .child := by
  unfold procRes1 spawn at hx
  unfold joinOnly
  split at hx <;> rename_i hk <;> simp only [hk]
  · split at hx <;> rename_i hp
    · simp only [hp, if_true]; left; simpa [opensOf, closes] using hx
    · right; simp [opensOf] at hx; rw [hx]
  · left; simpa [opensOf, closes] using hx
  · simp [opensOf] at hx

/-- `end()` closes everything every started stage holds and waits for every started stage — except that, when the body of
`_end` was left early, a plain `Popen` last stage is not waited for -/
theorem finish_closes (v : Variant) (aborts : Bool) (specs : List Spec) (st : Started)
    (hcase : st.failed = false ∨ v.teardown = true ∨ st.procs = []) :
    ∀ s ∈ st.procs, ∀ x ∈ s.held ++ procRes1 s,
      x ∈ closes (finish v aborts specs st) ∨ (aborts = true ∧ x.what = .child) := by
  intro s hs x hx
  unfold finish
  by_cases hf : st.failed = true
  · simp only [hf, if_true]
    rcases hcase with h | h | h
    · rw [hf] at h; cases h
    · simp only [h, if_true]
      left
      rw [closes_append, closes_append]
      exact List.mem_append_left _ (List.mem_append_left _ (mem_closes_flatMap_closePrev hs hx))
    · rw [h] at hs; simp at hs
  · simp only [hf]
    cases hl : st.procs.getLast? with
    | none =>
      have : st.procs = [] := by simpa using hl
      rw [this] at hs; simp at hs
    | some l =>
      have hsplit : st.procs.dropLast ++ [l] = st.procs := dropLast_append_of_getLast? hl
      simp only [Bool.false_eq_true, if_false]
      rw [← hsplit] at hs
      rcases List.mem_append.1 hs with h | h
      · left
        rw [closes_append, closes_append, closes_append]
        exact List.mem_append_left _ (List.mem_append_left _ (List.mem_append_left _ (mem_closes_flatMap_closePrev h hx)))
      · have : s = l := by simpa using h
        subst this
        rcases List.mem_append.1 hx with hx | hx
        · left
          rw [closes_append, closes_append, closes_closeSpec]
          exact List.mem_append_left _ (List.mem_append_right _ hx)
        · cases aborts with
          | true =>
            simp only [if_true]
            rcases joinOnly_covers s hx with h | h
            · left
              rw [closes_append, closes_append, closes_append]
              exact List.mem_append_left _ (List.mem_append_left _ (List.mem_append_right _ h))
            · exact Or.inr ⟨trivial, h⟩
          | false =>
            left
            simp only [Bool.false_eq_true, if_false]
            rw [closes_append, closes_append, closes_append, closes_append, closes_reap]
            exact List.mem_append_left _ (List.mem_append_left _ (List.mem_append_right _ (List.mem_append_left _ hx)))

end FdLedger
