import XonshVerif.Model.FdLedger
set_option linter.unusedSectionVars false
namespace FdLedger
variable {ρ κ : Type} [DecidableEq ρ]

def closes : List (Ev ρ κ) → List ρ
  | [] => []
  | .cls r :: rest => r :: closes rest
  | _ :: rest => closes rest

def opensOf : List (Ev ρ κ) → List ρ
  | [] => []
  | .opn r :: rest => r :: opensOf rest
  | _ :: rest => opensOf rest

@[simp] theorem runRes_nil (L : List ρ) : runRes (κ := κ) L [] = L := rfl
@[simp] theorem runRes_cons (L : List ρ) (e : Ev ρ κ) (evs) : runRes L (e :: evs) = runRes (stepRes L e) evs := rfl
theorem runRes_append (L : List ρ) (a b : List (Ev ρ κ)) : runRes L (a ++ b) = runRes (runRes L a) b := by
  simp [runRes, List.foldl_append]

theorem closes_append (a b : List (Ev ρ κ)) : closes (a ++ b) = closes a ++ closes b := by
  induction a with
  | nil => rfl
  | cons e a ih => cases e <;> simp [closes, ih]

theorem opensOf_append (a b : List (Ev ρ κ)) : opensOf (a ++ b) = opensOf a ++ opensOf b := by
  induction a with
  | nil => rfl
  | cons e a ih => cases e <;> simp [opensOf, ih]

/-- the characterisation: what a run leaves open = its own residue, plus whatever was open before and was not closed -/
theorem runRes_char (L : List ρ) (evs : List (Ev ρ κ)) :
    runRes L evs = runRes [] evs ++ L.filter (fun x => !decide (x ∈ closes evs)) := by
  induction evs generalizing L with
  | nil =>
    simp only [closes, runRes_nil, List.nil_append, List.not_mem_nil, decide_false, Bool.not_false]
    exact (List.filter_eq_self.2 (fun _ _ => rfl)).symm
  | cons e evs ih =>
    cases e with
    | opn r =>
      simp only [runRes_cons, stepRes, closes]
      rw [ih (r :: L), ih [r]]
      simp [List.filter_cons, List.append_assoc]
      split <;> rfl
    | cls r =>
      simp only [runRes_cons, stepRes, closes]
      rw [ih (L.filter _)]
      simp only [List.filter_nil, List.filter_filter]
      congr 1
      apply List.filter_congr
      intro x _
      simp [List.mem_cons, Bool.and_comm]
    | install k s =>
      simp only [runRes_cons, stepRes, closes]; exact ih L
    | restore k s =>
      simp only [runRes_cons, stepRes, closes]; exact ih L

theorem mem_runRes_append {x : ρ} {a b : List (Ev ρ κ)} :
    x ∈ runRes [] (a ++ b) ↔ x ∈ runRes [] b ∨ (x ∈ runRes [] a ∧ x ∉ closes b) := by
  rw [runRes_append, runRes_char]
  simp [List.mem_append, List.mem_filter]

theorem mem_runRes_nil {x : ρ} {evs : List (Ev ρ κ)} (h : x ∈ runRes [] evs) : x ∈ opensOf evs := by
  induction evs with
  | nil => simp at h
  | cons e evs ih =>
    have h' : x ∈ runRes [] ([e] ++ evs) := h
    rw [mem_runRes_append] at h'
    cases e with
    | opn r =>
      rcases h' with h' | ⟨h', _⟩
      · simp [opensOf, ih h']
      · simp [stepRes] at h'; simp [opensOf, h']
    | cls r =>
      rcases h' with h' | ⟨h', _⟩
      · simp [opensOf, ih h']
      · simp [stepRes] at h'
    | install k s =>
      rcases h' with h' | ⟨h', _⟩
      · simp [opensOf, ih h']
      · simp [stepRes] at h'
    | restore k s =>
      rcases h' with h' | ⟨h', _⟩
      · simp [opensOf, ih h']
      · simp [stepRes] at h'

/-- a list of events without opens leaves no residue -/
theorem runRes_nil_of_no_opens {evs : List (Ev ρ κ)} (h : opensOf evs = []) : runRes [] evs = [] := by
  cases hr : runRes [] evs with
  | nil => rfl
  | cons x xs =>
    have : x ∈ opensOf evs := mem_runRes_nil (by rw [hr]; simp)
    rw [h] at this; simp at this


-- ownership -----------------------------------------------------------------------------------------------

/-- the fields the redirect / wiring steps never touch -/
structure Frame (s s' : Spec) : Prop where
  idx : s'.idx = s.idx
  kind : s'.kind = s.kind
  found : s'.found = s.found
  capOut : s'.capOut = s.capOut
  capErr : s'.capErr = s.capErr
  popenThread : s'.popenThread = s.popenThread

theorem Frame.refl (s : Spec) : Frame s s := ⟨rfl, rfl, rfl, rfl, rfl, rfl⟩
theorem Frame.trans {a b c : Spec} (h1 : Frame a b) (h2 : Frame b c) : Frame a c :=
  ⟨h2.idx.trans h1.idx, h2.kind.trans h1.kind, h2.found.trans h1.found, h2.capOut.trans h1.capOut,
   h2.capErr.trans h1.capErr, h2.popenThread.trans h1.popenThread⟩

theorem Frame_iff (s s' : Spec) : Frame s s' ↔ (s'.idx = s.idx ∧ s'.kind = s.kind ∧ s'.found = s.found ∧ s'.capOut = s.capOut ∧
    s'.capErr = s.capErr ∧ s'.popenThread = s.popenThread) :=
  ⟨fun h => ⟨h.idx, h.kind, h.found, h.capOut, h.capErr, h.popenThread⟩, fun ⟨a, b, c, d, e, f⟩ => ⟨a, b, c, d, e, f⟩⟩

/-- what one redirect leaves open is held by the spec; nothing the spec held is dropped -/
theorem applyRedir_inv (k j : Nat) (s : Spec) (r : Redir) :
    runRes [] (applyRedir k j s r).evs ⊆ (applyRedir k j s r).spec.held ∧
    s.held ⊆ (applyRedir k j s r).spec.held ∧ Frame s (applyRedir k j s r).spec ∧
    (applyRedir k j s r).spec.chans = s.chans := by
  obtain ⟨idx, kind, found, sin, sout, serr, co, ce, ch, pt⟩ := s
  cases r with
  | file t o =>
    cases o <;> cases t <;> cases sin <;> cases sout <;> cases serr <;>
      simp [applyRedir, assign3, assign, Spec.held, valRes, stepRes, Frame_iff, List.subset_def] <;>
      (try (intro a h; simp_all)) <;> (try grind)
  | errToOut | outToErr | errToPipe | allToPipe =>
    cases sin <;> cases sout <;> cases serr <;>
      simp [applyRedir, assign3, assign, Spec.held, valRes, stepRes, Frame_iff, List.subset_def]


/-- residue of two consecutive pieces, in terms of who holds what -/
theorem residue_append_sub {a b : List CEv} {A B : List Res} (ha : runRes [] a ⊆ A) (hb : runRes [] b ⊆ B) (hAB : A ⊆ B) :
    runRes [] (a ++ b) ⊆ B := by
  intro x hx
  rcases mem_runRes_append.1 hx with h | ⟨h, _⟩
  · exact hb h
  · exact hAB (ha h)

theorem applyRedirs_inv (k : Nat) (rs : List Redir) : ∀ (j : Nat) (s : Spec),
    runRes [] (applyRedirs k j s rs).evs ⊆ (applyRedirs k j s rs).spec.held ∧
    s.held ⊆ (applyRedirs k j s rs).spec.held ∧ Frame s (applyRedirs k j s rs).spec ∧
    (applyRedirs k j s rs).spec.chans = s.chans := by
  induction rs with
  | nil => intro j s; simp [applyRedirs, Frame.refl]
  | cons r rs ih =>
    intro j s
    obtain ⟨h1, h2, h3, h4⟩ := applyRedir_inv k j s r
    simp only [applyRedirs]
    split
    · exact ⟨h1, h2, h3, h4⟩
    · obtain ⟨i1, i2, i3, i4⟩ := ih (j + 1) (applyRedir k j s r).spec
      exact ⟨residue_append_sub h1 i1 i2, fun x hx => i2 (h2 hx), h3.trans i3, i4.trans h4⟩

theorem Spec.new_held (k : Nat) (st : Stage) : (Spec.new k st).held = [] := rfl

theorem build_inv (k : Nat) (st : Stage) :
    runRes [] (build k st).evs ⊆ (build k st).spec.held ∧ (build k st).spec.idx = k ∧
    (build k st).spec.capOut = none ∧ (build k st).spec.capErr = none ∧ (build k st).spec.chans = [] := by
  obtain ⟨h1, _, h3, h4⟩ := applyRedirs_inv k st.redirs 0 (Spec.new k st)
  simp only [build]
  split
  · exact ⟨h1, h3.idx, h3.capOut, h3.capErr, h4⟩
  · exact ⟨h1, h3.idx, h3.capOut, h3.capErr, h4⟩

def heldAll (specs : List Spec) : List Res := specs.flatMap Spec.held

@[simp] theorem heldAll_nil : heldAll [] = [] := rfl
@[simp] theorem heldAll_cons (s : Spec) (rest : List Spec) : heldAll (s :: rest) = s.held ++ heldAll rest := by
  simp [heldAll]
theorem heldAll_append (a b : List Spec) : heldAll (a ++ b) = heldAll a ++ heldAll b := by
  simp [heldAll]

theorem closes_closeSpec (s : Spec) : closes (closeSpec s) = s.held := by
  unfold closeSpec
  induction s.held with
  | nil => rfl
  | cons x xs ih => simp [closes, ih]

theorem opensOf_closeSpec (s : Spec) : opensOf (closeSpec s) = [] := by
  unfold closeSpec
  induction s.held with
  | nil => rfl
  | cons x xs ih => simp [opensOf, ih]

theorem closes_closeAll (specs : List Spec) : closes (closeAll specs) = heldAll specs := by
  induction specs with
  | nil => rfl
  | cons s rest ih => simp [closeAll, closes_append, closes_closeSpec, ← ih]

theorem opensOf_closeAll (specs : List Spec) : opensOf (closeAll specs) = [] := by
  induction specs with
  | nil => rfl
  | cons s rest ih =>
    have : closeAll (s :: rest) = closeSpec s ++ closeAll rest := by simp [closeAll]
    rw [this, opensOf_append, opensOf_closeSpec, ih]; rfl

/-- a spec as `build` leaves it: nothing captured yet, no channel, its index is its position -/
structure Fresh (k : Nat) (s : Spec) : Prop where
  idx : s.idx = k
  capOut : s.capOut = none
  capErr : s.capErr = none

/-- positions k, k+1, ... -/
def Indexed : Nat → List Spec → Prop
  | _, [] => True
  | k, s :: rest => Fresh k s ∧ Indexed (k + 1) rest

theorem buildAll_inv (stages : List Stage) : ∀ k : Nat,
    (∀ x ∈ runRes [] (buildAll k stages).evs,
        x ∈ heldAll (buildAll k stages).specs ∨ ∃ f, (buildAll k stages).failed = some f ∧ x ∈ f.held) ∧
    Indexed k (buildAll k stages).specs ∧ (∀ s ∈ (buildAll k stages).specs, s.chans = []) := by
  induction stages with
  | nil => intro k; simp [buildAll, Indexed]
  | cons st rest ih =>
    intro k
    obtain ⟨h1, h2, h3, h4, h5⟩ := build_inv k st
    simp only [buildAll]
    split
    · refine ⟨fun x hx => Or.inr ⟨_, rfl, h1 hx⟩, by simp [Indexed], by simp⟩
    · obtain ⟨i1, i2, i3⟩ := ih (k + 1)
      refine ⟨?_, ⟨⟨h2, h3, h4⟩, i2⟩, ?_⟩
      · intro x hx
        rcases mem_runRes_append.1 hx with h | ⟨h, _⟩
        · rcases i1 x h with h | h
          · exact Or.inl (by simp [h])
          · exact Or.inr h
        · exact Or.inl (by simp [h1 h])
      · intro s hs
        rcases List.mem_cons.1 hs with rfl | hs
        · exact h5
        · exact i3 s hs


/-- two spec lists that differ, position by position, only in fields outside the frame -/
inductive Frames : List Spec → List Spec → Prop
  | nil : Frames [] []
  | cons {a b : Spec} {as bs : List Spec} : Frame a b → Frames as bs → Frames (a :: as) (b :: bs)

theorem Indexed_of_frames : ∀ {a b : List Spec} {k : Nat}, Frames a b → Indexed k a → Indexed k b
  | _, _, _, .nil, _ => trivial
  | _, _, _, .cons h t, ⟨f, i⟩ =>
    ⟨⟨h.idx.trans f.idx, h.capOut.trans f.capOut, h.capErr.trans f.capErr⟩, Indexed_of_frames t i⟩

theorem Frames.cons_inv {a : Spec} {as l : List Spec} (h : Frames (a :: as) l) :
    ∃ b bs, l = b :: bs ∧ Frame a b ∧ Frames as bs := by
  cases h with
  | cons hd tl => exact ⟨_, _, rfl, hd, tl⟩

theorem Frames.refl : ∀ l : List Spec, Frames l l
  | [] => .nil
  | s :: l => .cons (Frame.refl s) (Frames.refl l)

theorem chanRes_append (a b : List (Res × Res)) : chanRes (a ++ b) = chanRes a ++ chanRes b := by
  induction a with
  | nil => rfl
  | cons p a ih => obtain ⟨r, w⟩ := p; simp [chanRes, ih]

theorem wireUp_inv (up : Spec) :
    up.held ⊆ (wireUp up).1.held ∧ Frame up (wireUp up).1 ∧ (wireUp up).1.chans = up.chans := by
  obtain ⟨idx, kind, found, sin, sout, serr, co, ce, ch, pt⟩ := up
  rcases sout with _ | (_ | _ | _ | _ | _) <;> rcases serr with _ | (_ | _ | _ | _ | _) <;>
    simp [wireUp, Spec.held, valRes, Frame_iff, List.subset_def] <;> (try (intro a h; simp_all)) <;> (try grind)


theorem held_with_sin_fd (dn : Spec) (h : dn.sin.isSome = false) : ({ dn with sin := some Val.fd } : Spec).held = dn.held := by
  cases hs : dn.sin with
  | none => simp [Spec.held, valRes, hs]
  | some v => simp [hs] at h

theorem held_with_chan (u : Spec) (pr pw : Res) :
    ({ u with chans := u.chans ++ [(pr, pw)] } : Spec).held = u.held ++ [pw, pr] := by
  simp [Spec.held, chanRes_append, chanRes, List.append_assoc]

/-- the `|` loop: every pipe it opens is attached to its upstream spec (or is the orphan it raised with), it closes nothing,
and no spec loses anything it held -/
theorem wire_inv (rest : List Spec) : ∀ up : Spec,
    (∀ x ∈ runRes [] (wire up rest).evs, x ∈ heldAll (wire up rest).specs ∨ x ∈ (wire up rest).orphan) ∧
    heldAll (up :: rest) ⊆ heldAll (wire up rest).specs ∧
    Frames (up :: rest) (wire up rest).specs ∧
    closes (wire up rest).evs = [] ∧
    ((wire up rest).raised = false → (wire up rest).orphan = []) := by
  induction rest with
  | nil =>
    intro up
    exact ⟨by simp [wire], by simp [wire], by simpa [wire] using Frames.refl [up], by simp [wire, closes], by simp [wire]⟩
  | cons dn rest ih =>
    intro up
    obtain ⟨u1, u2, u3⟩ := wireUp_inv up
    have ev0 : ∀ x, x ∈ runRes (ρ := Res) (κ := Nat) [] [Ev.opn ⟨up.idx, .pipeR⟩, Ev.opn ⟨up.idx, .pipeW⟩] →
        x ∈ [(⟨up.idx, .pipeW⟩ : Res), ⟨up.idx, .pipeR⟩] := by
      intro x hx; simpa [stepRes] using hx
    have hsub : heldAll (up :: dn :: rest) ⊆ heldAll ((wireUp up).1 :: dn :: rest) := by
      simp only [heldAll_cons]
      intro x hx
      rcases List.mem_append.1 hx with h | h
      · exact List.mem_append_left _ (u1 h)
      · exact List.mem_append_right _ h
    have hfr : Frames (up :: dn :: rest) ((wireUp up).1 :: dn :: rest) := .cons u2 (Frames.refl _)
    simp only [wire]
    split
    · exact ⟨fun x hx => Or.inr (ev0 x hx), hsub, hfr, by simp [closes], by simp⟩
    · split
      · exact ⟨fun x hx => Or.inr (ev0 x hx), hsub, hfr, by simp [closes], by simp⟩
      · rename_i _ hsin
        have hsin' : dn.sin.isSome = false := by simpa using hsin
        obtain ⟨i1, i2, i3, i4, i5⟩ := ih { dn with sin := some Val.fd }
        refine ⟨?_, ?_, ?_, ?_, i5⟩
        · intro x hx
          rcases mem_runRes_append.1 hx with h | ⟨h, _⟩
          · rcases i1 x h with h | h
            · exact Or.inl (by simp [h])
            · exact Or.inr h
          · refine Or.inl ?_
            dsimp only
            rw [heldAll_cons, held_with_chan]
            exact List.mem_append_left _ (List.mem_append_right _ (ev0 x h))
        · dsimp only
          rw [heldAll_cons, heldAll_cons, heldAll_cons, held_with_chan]
          intro x hx
          rcases List.mem_append.1 hx with h | h
          · exact List.mem_append_left _ (List.mem_append_left _ (u1 h))
          · refine List.mem_append_right _ (i2 ?_)
            rw [heldAll_cons, held_with_sin_fd dn hsin']
            simpa using h
        · refine .cons ⟨u2.idx, u2.kind, u2.found, u2.capOut, u2.capErr, u2.popenThread⟩ ?_
          obtain ⟨b, bs, hb, hd, tl⟩ := i3.cons_inv
          rw [hb]
          exact .cons ⟨hd.idx, hd.kind, hd.found, hd.capOut, hd.capErr, hd.popenThread⟩ tl
        · simp [closes_append, closes, i4]

@[simp] theorem valRes_obj (r : Res) : valRes (some (.obj r)) = [r] := rfl
@[simp] theorem valRes_none : valRes none = [] := rfl
@[simp] theorem valRes_flag : valRes (some .stdoutFlag) = [] := rfl
@[simp] theorem valRes_two : valRes (some .two) = [] := rfl
@[simp] theorem valRes_sentinel : valRes (some .sentinel) = [] := rfl
@[simp] theorem valRes_fd : valRes (some .fd) = [] := rfl
@[simp] theorem optRes_some (r : Res) : optRes (some r) = [r] := rfl
@[simp] theorem optRes_none : optRes none = [] := rfl

/-- one step of `_make_last_spec_captured` / `_update_last_spec`: opens end up held, nothing held is dropped -/
structure Grow (evs : List CEv) (s s' : Spec) : Prop where
  owned : runRes [] evs ⊆ s'.held
  mono : s.held ⊆ s'.held
  idx : s'.idx = s.idx
  kind : s'.kind = s.kind
  found : s'.found = s.found
  noClose : closes evs = []

theorem capOutSide_inv (s : Spec) (hco : s.capOut = none) :
    Grow (capOutSide s).1 s (capOutSide s).2 ∧ (capOutSide s).2.capErr = s.capErr ∧
    ((capOutSide s).2.serr = s.serr) ∧ (capOutSide s).2.popenThread = s.popenThread := by
  obtain ⟨idx, kind, found, sin, sout, serr, co, ce, ch, pt⟩ := s
  simp only at hco; subst hco
  cases sout with
  | some v => exact ⟨⟨by simp [capOutSide], by simp [capOutSide], rfl, rfl, rfl, by simp [capOutSide, closes]⟩, rfl, rfl, rfl⟩
  | none =>
    refine ⟨⟨?_, ?_, rfl, rfl, rfl, by simp [capOutSide, capPipe, closes]⟩, rfl, rfl, rfl⟩
    · simp [capOutSide, capPipe, Spec.held, chanRes, chanRes_append, stepRes, List.subset_def]
    · simp [capOutSide, Spec.held, chanRes, chanRes_append, List.subset_def]
      grind

theorem capErrSide_inv (c : Capture) (s : Spec) (hce : s.capErr = none) :
    Grow (capErrSide c s).1 s (capErrSide c s).2 ∧ (capErrSide c s).2.popenThread = s.popenThread ∧
    ((capErrSide c s).2.serr = some .stdoutFlag → (capErrSide c s).2.capErr = none) := by
  obtain ⟨idx, kind, found, sin, sout, serr, co, ce, ch, pt⟩ := s
  simp only at hce; subst hce
  by_cases h : (serr.isSome || c == .stdout) = true
  · have e : capErrSide c ⟨idx, kind, found, sin, sout, serr, co, none, ch, pt⟩ = ([], ⟨idx, kind, found, sin, sout, serr, co, none, ch, pt⟩) := by
      simp [capErrSide, h]
    rw [e]
    exact ⟨⟨by simp, by simp, rfl, rfl, rfl, by simp [closes]⟩, rfl, fun _ => rfl⟩
  · have e : capErrSide c ⟨idx, kind, found, sin, sout, serr, co, none, ch, pt⟩ = (capPipe idx true,
        ⟨idx, kind, found, sin, sout, some (.obj ⟨idx, .wrapW true⟩), co, some ⟨idx, .wrapR true⟩,
          ch ++ [(⟨idx, .capR true⟩, ⟨idx, .capW true⟩)], pt⟩) := by
      simp [capErrSide, h]
    rw [e]
    refine ⟨⟨?_, ?_, rfl, rfl, rfl, by simp [capPipe, closes]⟩, rfl, by simp⟩
    · simp [capPipe, Spec.held, chanRes, chanRes_append, stepRes, List.subset_def]
    · have : serr = none := by cases serr <;> simp_all
      subst this
      simp [Spec.held, chanRes, chanRes_append, List.subset_def]
      grind


theorem Grow.refl (s : Spec) : Grow [] s s := ⟨by simp, by simp, rfl, rfl, rfl, rfl⟩

theorem Grow.comp {e1 e2 : List CEv} {s s1 s2 : Spec} (h1 : Grow e1 s s1) (h2 : Grow e2 s1 s2) : Grow (e1 ++ e2) s s2 :=
  ⟨residue_append_sub h1.owned h2.owned h2.mono, fun _ hx => h2.mono (h1.mono hx), h2.idx.trans h1.idx,
   h2.kind.trans h1.kind, h2.found.trans h1.found, by rw [closes_append, h1.noClose, h2.noClose]; rfl⟩

theorem held_sub {s s' : Spec} (h1 : valRes s.sin ⊆ valRes s'.sin) (h2 : valRes s.sout ⊆ valRes s'.sout)
    (h3 : valRes s.serr ⊆ valRes s'.serr) (h4 : optRes s.capOut ⊆ optRes s'.capOut) (h5 : optRes s.capErr ⊆ optRes s'.capErr)
    (h6 : chanRes s.chans ⊆ chanRes s'.chans) : s.held ⊆ s'.held := by
  intro x hx
  simp only [Spec.held, List.mem_append] at hx ⊢
  rcases hx with ((((h | h) | h) | h) | h) | h
  · exact Or.inl (Or.inl (Or.inl (Or.inl (Or.inl (h1 h)))))
  · exact Or.inl (Or.inl (Or.inl (Or.inl (Or.inr (h2 h)))))
  · exact Or.inl (Or.inl (Or.inl (Or.inr (h3 h))))
  · exact Or.inl (Or.inl (Or.inr (h4 h)))
  · exact Or.inl (Or.inr (h5 h))
  · exact Or.inr (h6 h)


theorem setThreading_inv (c : Capture) (ca : Bool) (s : Spec) :
    Grow [] s (setThreading c ca s) ∧ (setThreading c ca s).capOut = s.capOut ∧ (setThreading c ca s).capErr = s.capErr := by
  unfold setThreading
  split
  · exact ⟨⟨by simp, by simp [Spec.held], rfl, rfl, rfl, rfl⟩, rfl, rfl⟩
  · exact ⟨Grow.refl s, rfl, rfl⟩

theorem fixOutToErr_inv (s : Spec) :
    Grow [] s (fixOutToErr s) ∧ (fixOutToErr s).serr = s.serr ∧ (fixOutToErr s).capErr = s.capErr := by
  unfold fixOutToErr
  split
  · rename_i h2
    have h2' : s.sout = some Val.two := by simpa using h2
    exact ⟨⟨by simp, held_sub (by simp) (by simp [h2']) (by simp) (by simp) (by simp) (by simp), rfl, rfl, rfl, rfl⟩, rfl, rfl⟩
  · exact ⟨Grow.refl s, rfl, rfl⟩

theorem fixErrToOut_inv (s : Spec) (h : s.serr = some .stdoutFlag → s.capErr = none) : Grow [] s (fixErrToOut s) := by
  unfold fixErrToOut
  split
  · rename_i h4
    have h4' : s.serr = some Val.stdoutFlag := by
      simp only [Bool.and_eq_true, beq_iff_eq] at h4; exact h4.2
    exact ⟨by simp, held_sub (by simp) (by simp) (by simp [h4']) (by simp) (by simp [h h4']) (by simp), rfl, rfl, rfl, rfl⟩
  · exact Grow.refl s

theorem makeCaptured_inv (c : Capture) (s : Spec) (hco : s.capOut = none) (hce : s.capErr = none) :
    Grow (makeCaptured c s).1 s (makeCaptured c s).2 := by
  obtain ⟨ga, a1, _, _⟩ := capOutSide_inv s hco
  obtain ⟨gb, _, b2⟩ := capErrSide_inv c (capOutSide s).2 (a1.trans hce)
  obtain ⟨g3, e1, e2⟩ := fixOutToErr_inv (capErrSide c (capOutSide s).2).2
  have g4 := fixErrToOut_inv (fixOutToErr (capErrSide c (capOutSide s).2).2) (by rw [e1, e2]; exact b2)
  have := Grow.comp (Grow.comp ga gb) (Grow.comp g3 g4)
  simpa [makeCaptured] using this

theorem updateLast_inv (c : Capture) (ca : Bool) (s : Spec) (hco : s.capOut = none) (hce : s.capErr = none) :
    Grow (updateLast c ca s).1 s (updateLast c ca s).2 := by
  obtain ⟨g0, c1, c2⟩ := setThreading_inv c ca s
  unfold updateLast
  split
  · exact Grow.refl s
  · split
    · exact g0
    · have := Grow.comp g0 (makeCaptured_inv c (setThreading c ca s) (c1.trans hco) (c2.trans hce))
      simpa using this


theorem mapLast_inv (c : Capture) (ca : Bool) (specs : List Spec) : ∀ k, Indexed k specs →
    runRes [] (mapLast (updateLast c ca) specs).1 ⊆ heldAll (mapLast (updateLast c ca) specs).2 ∧
    heldAll specs ⊆ heldAll (mapLast (updateLast c ca) specs).2 ∧
    closes (mapLast (updateLast c ca) specs).1 = [] ∧
    (mapLast (updateLast c ca) specs).2.map (·.idx) = specs.map (·.idx) := by
  induction specs with
  | nil => intro k _; simp [mapLast, closes]
  | cons s rest ih =>
    intro k hk
    cases rest with
    | nil =>
      have g := updateLast_inv c ca s hk.1.capOut hk.1.capErr
      simp only [mapLast, heldAll_cons, heldAll_nil, List.append_nil, List.map_cons, List.map_nil]
      exact ⟨g.owned, g.mono, g.noClose, by rw [g.idx]⟩
    | cons s2 rest2 =>
      obtain ⟨i1, i2, i3, i4⟩ := ih (k + 1) hk.2
      simp only [mapLast, heldAll_cons] at i1 i2 i3 i4 ⊢
      refine ⟨fun x hx => List.mem_append_right _ (i1 hx), ?_, i3, by simp [i4]⟩
      intro x hx
      rcases List.mem_append.1 hx with h | h
      · exact List.mem_append_left _ h
      · exact List.mem_append_right _ (i2 h)

theorem Indexed_idx_ge : ∀ {k : Nat} {specs : List Spec}, Indexed k specs → ∀ s ∈ specs, k ≤ s.idx
  | _, [], _, _, h => by simp at h
  | k, s :: rest, ⟨f, i⟩, t, h => by
    rcases List.mem_cons.1 h with rfl | h
    · exact Nat.le_of_eq f.idx.symm
    · exact Nat.le_of_succ_le (Indexed_idx_ge i t h)

/-- the indices of consecutively numbered specs are pairwise distinct -/
theorem Indexed_nodup : ∀ {k : Nat} {specs : List Spec}, Indexed k specs → (specs.map (·.idx)).Nodup
  | _, [], _ => by simp
  | k, s :: rest, ⟨f, i⟩ => by
    simp only [List.map_cons, List.nodup_cons, List.mem_map, not_exists, not_and]
    refine ⟨fun t ht e => ?_, Indexed_nodup i⟩
    have := Indexed_idx_ge i t ht
    rw [e, f.idx] at this
    exact Nat.not_succ_le_self k this


/-- a piece followed by closes of everything it left open leaves nothing -/
theorem residue_nil_of_closed {a cl : List CEv} (hopen : opensOf cl = []) (h : ∀ x ∈ runRes [] a, x ∈ closes cl) :
    runRes [] (a ++ cl) = [] := by
  apply List.eq_nil_iff_forall_not_mem.2
  intro x hx
  rcases mem_runRes_append.1 hx with h1 | ⟨h1, h2⟩
  · rw [runRes_nil_of_no_opens hopen] at h1; simp at h1
  · exact h2 (h x h1)

theorem opensOf_map_cls (l : List Res) : opensOf (l.map (Ev.cls (κ := Nat))) = [] := by
  induction l with
  | nil => rfl
  | cons x xs ih => simp [opensOf, ih]

theorem closes_map_cls (l : List Res) : closes (l.map (Ev.cls (κ := Nat))) = l := by
  induction l with
  | nil => rfl
  | cons x xs ih => simp [closes, ih]

/-- `cmds_to_specs`: when it succeeds every resource it left open is held by one of the specs it returns; when it raises,
everything is closed again by the time the exception has been dropped -/
theorem cmdsToSpecs_inv (v : Variant) (c : Cmd) :
    ((cmdsToSpecs v c).why = .ok →
        runRes [] (cmdsToSpecs v c).evs ⊆ heldAll (cmdsToSpecs v c).specs ∧ (cmdsToSpecs v c).onRelease = [] ∧
        ((cmdsToSpecs v c).specs.map (·.idx)).Nodup) ∧
    ((cmdsToSpecs v c).why ≠ .ok → runRes [] ((cmdsToSpecs v c).evs ++ (cmdsToSpecs v c).onRelease) = []) := by
  obtain ⟨b1, b2, b3⟩ := buildAll_inv c.stages 0
  unfold cmdsToSpecs
  dsimp only
  split
  · -- a build raised
    rename_i f hf
    have hb : ∀ x ∈ runRes [] (buildAll 0 c.stages).evs, x ∈ heldAll (buildAll 0 c.stages).specs ∨ x ∈ f.held := by
      intro x hx
      rcases b1 x hx with h | ⟨f', hf', h⟩
      · exact Or.inl h
      · rw [hf] at hf'; cases hf'; exact Or.inr h
    split
    · refine ⟨by simp, fun _ => ?_⟩
      rw [List.append_nil, List.append_assoc]
      apply residue_nil_of_closed
      · rw [opensOf_append, opensOf_closeSpec, opensOf_closeAll]; rfl
      · intro x hx
        rw [closes_append, closes_closeSpec, closes_closeAll]
        rcases hb x hx with h | h
        · exact List.mem_append_right _ h
        · exact List.mem_append_left _ h
    · refine ⟨by simp, fun _ => ?_⟩
      rw [List.append_assoc]
      apply residue_nil_of_closed
      · rw [opensOf_append, opensOf_closeSpec, opensOf_closeAll]; rfl
      · intro x hx
        rw [closes_append, closes_closeSpec, closes_closeAll]
        rcases hb x hx with h | h
        · exact List.mem_append_left _ h
        · exact List.mem_append_right _ h
  · rename_i hf
    have hb : runRes [] (buildAll 0 c.stages).evs ⊆ heldAll (buildAll 0 c.stages).specs := by
      intro x hx
      rcases b1 x hx with h | ⟨f', hf', _⟩
      · exact h
      · rw [hf] at hf'; cases hf'
    split
    · -- no stage at all
      rename_i hs
      refine ⟨by simp, fun _ => ?_⟩
      rw [List.append_nil]
      apply List.eq_nil_iff_forall_not_mem.2
      intro x hx
      have := hb hx
      rw [hs] at this; simp at this
    · rename_i s0 rest hs
      rw [hs] at hb b2
      obtain ⟨w1, w2, w3, w4, w5⟩ := wire_inv rest s0
      have hidx : Indexed 0 (wire s0 rest).specs := Indexed_of_frames w3 b2
      -- what build and wiring together leave open
      have hbw : ∀ x ∈ runRes [] ((buildAll 0 c.stages).evs ++ (wire s0 rest).evs),
          x ∈ heldAll (wire s0 rest).specs ∨ x ∈ (wire s0 rest).orphan := by
        intro x hx
        rcases mem_runRes_append.1 hx with h | ⟨h, _⟩
        · exact w1 x h
        · exact Or.inl (w2 (hb h))
      have closeAllNil : runRes [] ((buildAll 0 c.stages).evs ++ (wire s0 rest).evs ++ closeAll (wire s0 rest).specs) = [] ∨
          (wire s0 rest).raised = true := by
        by_cases hr : (wire s0 rest).raised = true
        · exact Or.inr hr
        · left
          have ho := w5 (by simpa using hr)
          apply residue_nil_of_closed (opensOf_closeAll _)
          intro x hx
          rw [closes_closeAll]
          rcases hbw x hx with h | h
          · exact h
          · rw [ho] at h; simp at h
      split
      · -- a stream setter raised in the `|` loop
        split
        · refine ⟨by simp, fun _ => ?_⟩
          rw [List.append_nil, List.append_assoc ((buildAll 0 c.stages).evs ++ (wire s0 rest).evs)]
          apply residue_nil_of_closed
          · rw [opensOf_append, opensOf_map_cls, opensOf_closeAll]; rfl
          · intro x hx
            rw [closes_append, closes_map_cls, closes_closeAll]
            rcases hbw x hx with h | h
            · exact List.mem_append_right _ h
            · exact List.mem_append_left _ h
        · refine ⟨by simp, fun _ => ?_⟩
          rw [List.append_assoc ((buildAll 0 c.stages).evs ++ (wire s0 rest).evs)]
          apply residue_nil_of_closed
          · rw [opensOf_append, opensOf_map_cls, opensOf_closeAll]; rfl
          · intro x hx
            rw [closes_append, closes_map_cls, closes_closeAll]
            rcases hbw x hx with h | h
            · exact List.mem_append_left _ h
            · exact List.mem_append_right _ h
      · rename_i hr
        have hnil := closeAllNil.resolve_right hr
        split
        · exact ⟨by simp, fun _ => by rw [List.append_nil]; exact hnil⟩
        · split
          · exact ⟨by simp, fun _ => by rw [List.append_nil]; exact hnil⟩
          · obtain ⟨m1, m2, m3, m4⟩ := mapLast_inv c.capture c.captureAlways (wire s0 rest).specs 0 hidx
            refine ⟨fun _ => ⟨?_, rfl, ?_⟩, by simp⟩
            · intro x hx
              rcases mem_runRes_append.1 hx with h | ⟨h, _⟩
              · exact m1 h
              · rcases hbw x h with h | h
                · exact m2 h
                · rw [w5 (by simpa using hr)] at h; simp at h
            · rw [m4]; exact Indexed_nodup hidx


-- starting and ending -----------------------------------------------------------------------------------------

/-- what starting a stage acquires -/
def procRes1 (s : Spec) : List Res := opensOf (spawn s)
def procRes (procs : List Spec) : List Res := procs.flatMap procRes1

theorem closes_installs (k : Nat) (ss : List Sig) : closes (installs (ρ := Res) k ss) = ([] : List Res) := by
  induction ss with
  | nil => rfl
  | cons s ss ih => simpa [installs, closes] using ih
theorem closes_restores (k : Nat) (ss : List Sig) : closes (restores (ρ := Res) k ss) = ([] : List Res) := by
  induction ss with
  | nil => rfl
  | cons s ss ih => simpa [restores, closes] using ih
theorem opensOf_installs (k : Nat) (ss : List Sig) : opensOf (installs (ρ := Res) k ss) = ([] : List Res) := by
  induction ss with
  | nil => rfl
  | cons s ss ih => simpa [installs, opensOf] using ih
theorem opensOf_restores (k : Nat) (ss : List Sig) : opensOf (restores (ρ := Res) k ss) = ([] : List Res) := by
  induction ss with
  | nil => rfl
  | cons s ss ih => simpa [restores, opensOf] using ih
theorem closes_spawn (s : Spec) : closes (spawn s) = [] := by
  unfold spawn; split <;> (try split) <;> simp [closes]
theorem opensOf_reap (s : Spec) : opensOf (reap s) = [] := by
  unfold reap; split <;> (try split) <;> simp [opensOf]
theorem closes_reap (s : Spec) : closes (reap s) = procRes1 s := by
  unfold reap procRes1 spawn; split <;> (try split) <;> simp [closes, opensOf]
theorem opensOf_joinOnly (s : Spec) : opensOf (joinOnly s) = [] := by
  unfold joinOnly; split <;> (try split) <;> simp [opensOf]

/-- `CommandPipeline.__init__`: the started stages are a prefix of the specs; what starting left open are the started
children / threads; on a start failure the specs from the failing one on are closed -/
theorem start_inv (onMain : Bool) (specs : List Spec) :
    runRes [] (start onMain specs).evs ⊆ procRes (start onMain specs).procs ∧
    ∃ suf, specs = (start onMain specs).procs ++ suf ∧ closes (start onMain specs).evs = heldAll suf ∧
      ((start onMain specs).failed = false → suf = []) := by
  induction specs with
  | nil => exact ⟨by simp [start], [], by simp [start], by simp [start, closes], fun _ => rfl⟩
  | cons s rest ih =>
    simp only [start]
    split
    · refine ⟨?_, s :: rest, by simp, ?_, by simp⟩
      · rw [runRes_nil_of_no_opens]
        · simp
        · rw [opensOf_append, opensOf_append, opensOf_installs, opensOf_restores, opensOf_closeAll]; rfl
      · rw [closes_append, closes_append, closes_installs, closes_restores, closes_closeAll]; rfl
    · obtain ⟨i1, suf, i2, i3, i4⟩ := ih
      refine ⟨?_, suf, by simp [← i2], ?_, i4⟩
      · intro x hx
        simp only [procRes, List.flatMap_cons, List.mem_append]
        rcases mem_runRes_append.1 hx with h | ⟨h, _⟩
        · exact Or.inr (i1 h)
        · left
          have := mem_runRes_nil h
          rw [opensOf_append, opensOf_installs] at this
          exact this
      · rw [closes_append, closes_append, closes_installs, closes_spawn, i3]; rfl

theorem closes_flatMap {α : Type} (l : List α) (f : α → List CEv) : closes (l.flatMap f) = l.flatMap (fun a => closes (f a)) := by
  induction l with
  | nil => rfl
  | cons a l ih => simp [closes_append, ih]

theorem opensOf_flatMap {α : Type} (l : List α) (f : α → List CEv) (h : ∀ a ∈ l, opensOf (f a) = []) :
    opensOf (l.flatMap f) = [] := by
  induction l with
  | nil => rfl
  | cons a l ih =>
    rw [List.flatMap_cons, opensOf_append, h a (by simp), ih (fun b hb => h b (by simp [hb]))]; rfl

theorem closes_closePrev (s : Spec) : closes (closePrev s) = s.held ++ procRes1 s := by
  rw [closePrev, closes_append, closes_closeSpec, closes_reap]

theorem opensOf_closePrev (s : Spec) : opensOf (closePrev s) = [] := by
  rw [closePrev, opensOf_append, opensOf_closeSpec, opensOf_reap]; rfl

theorem opensOf_restoreAll (onMain : Bool) (procs : List Spec) : opensOf (restoreAll onMain procs) = ([] : List Res) :=
  opensOf_flatMap _ _ (fun _ _ => opensOf_restores _ _)

theorem closes_restoreAll (onMain : Bool) (procs : List Spec) : closes (restoreAll onMain procs) = ([] : List Res) := by
  rw [restoreAll, closes_flatMap]
  induction procs.reverse with
  | nil => rfl
  | cons a l ih => simp [closes_restores, ih]

theorem opensOf_lastClose (specs : List Spec) : opensOf (lastClose specs) = [] := by
  unfold lastClose; split
  · exact opensOf_closeSpec _
  · rfl

/-- `end()` opens nothing -/
theorem opensOf_finish (v : Variant) (aborts onMain : Bool) (specs : List Spec) (st : Started) :
    opensOf (finish v aborts onMain specs st) = [] := by
  unfold finish
  split
  · rw [opensOf_append, opensOf_append, opensOf_flatMap _ _ (fun _ _ => opensOf_closePrev _), opensOf_lastClose]
    split
    · rw [opensOf_restoreAll]; rfl
    · rfl
  · split
    · rfl
    · rename_i l _
      rw [opensOf_append, opensOf_append, opensOf_append, opensOf_flatMap _ _ (fun _ _ => opensOf_closePrev _), opensOf_closeSpec]
      have h1 : opensOf (if aborts = true then joinOnly l else reap l ++ restores l.idx (l.hs onMain)) = ([] : List Res) := by
        split
        · exact opensOf_joinOnly _
        · rw [opensOf_append, opensOf_reap, opensOf_restores]; rfl
      rw [h1]
      split
      · rw [opensOf_restoreAll]; rfl
      · rfl


theorem dropLast_append_of_getLast? : ∀ {l : List Spec} {a : Spec}, l.getLast? = some a → l.dropLast ++ [a] = l
  | [], _, h => by simp at h
  | [b], a, h => by simp at h; simp [h]
  | b :: c :: l, a, h => by
    have h' : (c :: l).getLast? = some a := by simpa [List.getLast?_cons_cons] using h
    have := dropLast_append_of_getLast? h'
    simp only [List.dropLast_cons_cons, List.cons_append, this]

theorem mem_closes_flatMap_closePrev {l : List Spec} {s : Spec} (hs : s ∈ l) {x : Res} (hx : x ∈ s.held ++ procRes1 s) :
    x ∈ closes (l.flatMap closePrev) := by
  rw [closes_flatMap]
  exact List.mem_flatMap.2 ⟨s, hs, by rw [closes_closePrev]; exact hx⟩

theorem joinOnly_covers (l : Spec) {x : Res} (hx : x ∈ procRes1 l) : x ∈ closes (joinOnly l) ∨ x.what = .child := by
  unfold procRes1 spawn at hx
  unfold joinOnly
  split at hx <;> rename_i hk <;> simp only [hk]
  · split at hx <;> rename_i hp
    · simp only [hp, if_true]; left; simpa [opensOf, closes] using hx
    · right; simp [opensOf] at hx; rw [hx]
  · left; simpa [opensOf, closes] using hx
  · simp [opensOf] at hx

/-- `end()` closes everything every started stage holds and waits for every started stage — except that, when the body of
`_end` was left early, a plain `Popen` last stage is not waited for -/
theorem finish_closes (v : Variant) (aborts onMain : Bool) (specs : List Spec) (st : Started)
    (hcase : st.failed = false ∨ v.teardown = true ∨ st.procs = []) :
    ∀ s ∈ st.procs, ∀ x ∈ s.held ++ procRes1 s,
      x ∈ closes (finish v aborts onMain specs st) ∨ (aborts = true ∧ x.what = .child) := by
  intro s hs x hx
  unfold finish
  by_cases hf : st.failed = true
  · simp only [hf, if_true]
    rcases hcase with h | h | h
    · rw [hf] at h; cases h
    · simp only [h, if_true]
      left
      rw [closes_append, closes_append]
      exact List.mem_append_left _ (List.mem_append_left _ (mem_closes_flatMap_closePrev hs hx))
    · rw [h] at hs; simp at hs
  · simp only [hf]
    cases hl : st.procs.getLast? with
    | none =>
      have : st.procs = [] := by simpa using hl
      rw [this] at hs; simp at hs
    | some l =>
      have hsplit : st.procs.dropLast ++ [l] = st.procs := dropLast_append_of_getLast? hl
      simp only [Bool.false_eq_true, if_false]
      rw [← hsplit] at hs
      rcases List.mem_append.1 hs with h | h
      · left
        rw [closes_append, closes_append, closes_append]
        exact List.mem_append_left _ (List.mem_append_left _ (List.mem_append_left _ (mem_closes_flatMap_closePrev h hx)))
      · have : s = l := by simpa using h
        subst this
        rcases List.mem_append.1 hx with hx | hx
        · left
          rw [closes_append, closes_append, closes_closeSpec]
          exact List.mem_append_left _ (List.mem_append_right _ hx)
        · cases aborts with
          | true =>
            simp only [if_true]
            rcases joinOnly_covers s hx with h | h
            · left
              rw [closes_append, closes_append, closes_append]
              exact List.mem_append_left _ (List.mem_append_left _ (List.mem_append_right _ h))
            · exact Or.inr ⟨trivial, h⟩
          | false =>
            left
            simp only [Bool.false_eq_true, if_false]
            rw [closes_append, closes_append, closes_append, closes_append, closes_reap]
            exact List.mem_append_left _ (List.mem_append_left _ (List.mem_append_right _ (List.mem_append_left _ hx)))


theorem command_of_ok {v : Variant} {c : Cmd} (h : (cmdsToSpecs v c).why = .ok) :
    command v c = ⟨(cmdsToSpecs v c).evs ++ (start c.onMain (cmdsToSpecs v c).specs).evs ++
        (if endCalled c then finish v c.endAborts c.onMain (cmdsToSpecs v c).specs (start c.onMain (cmdsToSpecs v c).specs) else []),
      [], .ok, (start c.onMain (cmdsToSpecs v c).specs).failed, (start c.onMain (cmdsToSpecs v c).specs).procs⟩ := by
  simp [command, h]

theorem command_of_not_ok {v : Variant} {c : Cmd} (h : (cmdsToSpecs v c).why ≠ .ok) :
    command v c = ⟨(cmdsToSpecs v c).evs, (cmdsToSpecs v c).onRelease, (cmdsToSpecs v c).why, false, []⟩ := by
  simp [command, h]

theorem mem_heldAll {specs : List Spec} {x : Res} : x ∈ heldAll specs ↔ ∃ s ∈ specs, x ∈ s.held := by
  simp [heldAll, List.mem_flatMap]

/-- THE LEDGER OF ONE COMMAND: if the pipeline is ended, and (in the code as it is) no stage other than the first fails
to start, nothing the command acquired is left — except the un-waited child of a plain-`Popen` last stage when the body
of `_end` was left early -/
theorem command_residue (v : Variant) (c : Cmd) (hend : endCalled c = true)
    (hg : v.teardown = true ∨ ((command v c).startFailed = true → (command v c).procs = [])) :
    ∀ x ∈ runRes [] (command v c).all, c.endAborts = true ∧ x.what = .child := by
  intro x hx
  by_cases hw : (cmdsToSpecs v c).why = .ok
  · obtain ⟨p1, _, _⟩ := (cmdsToSpecs_inv v c).1 hw
    rw [command_of_ok hw] at hx hg
    simp only [Run.all, hend, if_true, List.append_nil] at hx hg
    obtain ⟨s1, suf, s2, s3, _⟩ := start_inv c.onMain (cmdsToSpecs v c).specs
    have hcase : (start c.onMain (cmdsToSpecs v c).specs).failed = false ∨ v.teardown = true ∨
        (start c.onMain (cmdsToSpecs v c).specs).procs = [] := by
      rcases hg with h | h
      · exact Or.inr (Or.inl h)
      · cases hf : (start c.onMain (cmdsToSpecs v c).specs).failed with
        | false => exact Or.inl rfl
        | true => exact Or.inr (Or.inr (h hf))
    have fc := finish_closes v c.endAborts c.onMain (cmdsToSpecs v c).specs _ hcase
    rcases mem_runRes_append.1 hx with h | ⟨h, hnc⟩
    · rw [runRes_nil_of_no_opens (opensOf_finish _ _ _ _ _)] at h; simp at h
    · have key : ∀ s ∈ (start c.onMain (cmdsToSpecs v c).specs).procs, x ∈ s.held ++ procRes1 s →
          c.endAborts = true ∧ x.what = .child := by
        intro s hs hxs
        rcases fc s hs x hxs with h' | h'
        · exact absurd h' hnc
        · exact h'
      rcases mem_runRes_append.1 h with h | ⟨h, hns⟩
      · obtain ⟨s, hs, hxs⟩ := List.mem_flatMap.1 (s1 h)
        exact key s hs (List.mem_append_right _ hxs)
      · have := p1 h
        rw [s2, heldAll_append] at this
        rcases List.mem_append.1 this with h' | h'
        · obtain ⟨s, hs, hxs⟩ := mem_heldAll.1 h'
          exact key s hs (List.mem_append_left _ hxs)
        · rw [← s3] at h'; exact absurd h' hns
  · have := (cmdsToSpecs_inv v c).2 hw
    rw [command_of_not_ok hw] at hx
    simp only [Run.all] at hx
    rw [this] at hx; simp at hx


-- sessions: generations ------------------------------------------------------------------------------------------

section Gen
variable {ρ' κ' : Type} [DecidableEq ρ']

theorem closes_map (f : ρ → ρ') (h : κ → κ') (evs : List (Ev ρ κ)) :
    closes (evs.map (Ev.map f h)) = (closes evs).map f := by
  induction evs with
  | nil => rfl
  | cons e evs ih => cases e <;> simp [closes, Ev.map, ih]

theorem runRes_map (f : ρ → ρ') (hf : Function.Injective f) (h : κ → κ') (evs : List (Ev ρ κ)) :
    ∀ L : List ρ, runRes (L.map f) (evs.map (Ev.map f h)) = (runRes L evs).map f := by
  induction evs with
  | nil => intro L; rfl
  | cons e evs ih =>
    intro L
    cases e with
    | opn r => simpa [Ev.map, stepRes] using ih (r :: L)
    | cls r =>
      simp only [List.map_cons, Ev.map, runRes_cons, stepRes]
      rw [← ih (L.filter _)]
      congr 1
      rw [List.filter_map]
      congr 1
      apply List.filter_congr
      intro x _
      simp [Function.comp, hf.eq_iff]
    | install k s => simpa [Ev.map, stepRes] using ih L
    | restore k s => simpa [Ev.map, stepRes] using ih L

end Gen

theorem pair_injective (g : Nat) : Function.Injective (fun r : Res => (g, r)) := by
  intro a b h; simpa using h

/-- a command run as generation g on top of a ledger that holds nothing of generation g: its own residue is added, nothing
that was there is touched -/
theorem runRes_atGen (g : Nat) (evs : List CEv) (L0 : List (Nat × Res)) (hf : ∀ r ∈ L0, r.1 ≠ g) :
    runRes L0 (atGen g evs) = (runRes [] evs).map (fun r => (g, r)) ++ L0 := by
  rw [runRes_char]
  congr 1
  · have := runRes_map (fun r : Res => (g, r)) (pair_injective g) (fun k : Nat => (g, k)) evs []
    simpa [atGen] using this
  · apply List.filter_eq_self.2
    intro r hr
    simp only [atGen, closes_map, List.mem_map, not_exists, not_and, Bool.not_eq_true', decide_eq_false_iff_not]
    intro x _ hx
    exact hf r hr (by rw [← hx])


-- signal handlers ------------------------------------------------------------------------------------------------

/-- an event list that swaps no handler -/
def noSig : List (Ev ρ κ) → Bool
  | [] => true
  | .opn _ :: rest => noSig rest
  | .cls _ :: rest => noSig rest
  | _ :: _ => false

@[simp] theorem noSig_nil : noSig ([] : List (Ev ρ κ)) = true := rfl
@[simp] theorem noSig_opn (r : ρ) (l : List (Ev ρ κ)) : noSig (.opn r :: l) = noSig l := rfl
@[simp] theorem noSig_cls (r : ρ) (l : List (Ev ρ κ)) : noSig (.cls r :: l) = noSig l := rfl
@[simp] theorem noSig_append (a b : List (Ev ρ κ)) : noSig (a ++ b) = (noSig a && noSig b) := by
  induction a with
  | nil => simp
  | cons e a ih => cases e <;> simp [noSig, ih]
@[simp] theorem noSig_map_cls (l : List ρ) : noSig (l.map (Ev.cls (κ := κ))) = true := by
  induction l with
  | nil => rfl
  | cons x xs ih => simpa using ih

section
variable [DecidableEq κ]
@[simp] theorem runSig_nil (S : SigSt κ) : runSig (ρ := ρ) S [] = S := rfl
@[simp] theorem runSig_cons (S : SigSt κ) (e : Ev ρ κ) (evs) : runSig S (e :: evs) = runSig (stepSig S e) evs := rfl
theorem runSig_append (S : SigSt κ) (a b : List (Ev ρ κ)) : runSig S (a ++ b) = runSig (runSig S a) b := by
  simp [runSig, List.foldl_append]

theorem runSig_noSig {evs : List (Ev ρ κ)} (h : noSig evs = true) (S : SigSt κ) : runSig S evs = S := by
  induction evs with
  | nil => rfl
  | cons e evs ih =>
    cases e with
    | opn r => simpa [stepSig] using ih (by simpa using h)
    | cls r => simpa [stepSig] using ih (by simpa using h)
    | install k s => simp [noSig] at h
    | restore k s => simp [noSig] at h
end

@[simp] theorem noSig_closeSpec (s : Spec) : noSig (closeSpec s) = true := by simp [closeSpec]
@[simp] theorem noSig_closeAll (specs : List Spec) : noSig (closeAll specs) = true := by
  induction specs with
  | nil => rfl
  | cons s rest ih =>
    have : closeAll (s :: rest) = closeSpec s ++ closeAll rest := by simp [closeAll]
    simp [this, ih]

theorem noSig_assign (cur v : Option Val) : noSig (assign cur v).evs = true := by
  unfold assign; split <;> (try split) <;> simp

theorem noSig_assign3 (s : Spec) (a b c : Option Val) : noSig (assign3 s a b c).evs = true := by
  unfold assign3; dsimp only
  split
  · exact noSig_assign _ _
  · split
    · simp [noSig_assign]
    · simp [noSig_assign]

theorem noSig_applyRedir (k j : Nat) (s : Spec) (r : Redir) : noSig (applyRedir k j s r).evs = true := by
  unfold applyRedir
  split <;> (try split) <;> simp [noSig_assign3]

theorem noSig_applyRedirs (k : Nat) (rs : List Redir) : ∀ j s, noSig (applyRedirs k j s rs).evs = true := by
  induction rs with
  | nil => intro j s; rfl
  | cons r rs ih =>
    intro j s
    simp only [applyRedirs]
    split
    · exact noSig_applyRedir _ _ _ _
    · simp [noSig_applyRedir, ih]

theorem noSig_build (k : Nat) (st : Stage) : noSig (build k st).evs = true := by
  unfold build; dsimp only; split <;> exact noSig_applyRedirs _ _ _ _

theorem noSig_buildAll (stages : List Stage) : ∀ k, noSig (buildAll k stages).evs = true := by
  induction stages with
  | nil => intro k; rfl
  | cons st rest ih =>
    intro k
    simp only [buildAll]
    split
    · exact noSig_build _ _
    · simp [noSig_build, ih]

theorem noSig_wire (rest : List Spec) : ∀ up, noSig (wire up rest).evs = true := by
  induction rest with
  | nil => intro up; rfl
  | cons dn rest ih =>
    intro up
    simp only [wire]
    split
    · rfl
    · split
      · rfl
      · simp [ih]

theorem noSig_capPipe (k : Nat) (e : Bool) : noSig (capPipe k e) = true := rfl

theorem noSig_updateLast (c : Capture) (ca : Bool) (s : Spec) : noSig (updateLast c ca s).1 = true := by
  unfold updateLast
  split
  · rfl
  · split
    · rfl
    · simp only [makeCaptured, noSig_append, Bool.and_eq_true]
      constructor
      · unfold capOutSide; split <;> simp [noSig_capPipe]
      · unfold capErrSide; split <;> simp [noSig_capPipe]

theorem noSig_mapLast (c : Capture) (ca : Bool) (specs : List Spec) : noSig (mapLast (updateLast c ca) specs).1 = true := by
  induction specs with
  | nil => rfl
  | cons s rest ih =>
    cases rest with
    | nil => simpa [mapLast] using noSig_updateLast c ca s
    | cons s2 rest2 => simpa [mapLast] using ih

theorem noSig_cmdsToSpecs (v : Variant) (c : Cmd) :
    noSig (cmdsToSpecs v c).evs = true ∧ noSig (cmdsToSpecs v c).onRelease = true := by
  unfold cmdsToSpecs
  dsimp only
  split
  · split <;> simp [noSig_buildAll]
  · split
    · simp [noSig_buildAll]
    · split
      · split <;> simp [noSig_buildAll, noSig_wire]
      · split
        · simp [noSig_buildAll, noSig_wire]
        · split
          · simp [noSig_buildAll, noSig_wire]
          · simp [noSig_buildAll, noSig_wire, noSig_mapLast]


section Handlers
variable [DecidableEq κ]

/-- proc k remembers no old handler -/
def FreshKey (S : SigSt κ) (k : κ) : Prop := ∀ s, lookupKey (k, s) S.saved = none

/-- the signal lists a proc object swaps: none, SIGINT, or all four -/
def Allowed (ss : List Sig) : Prop := ss = [] ∨ ss = [.int] ∨ ss = [.int, .tstp, .quit, .winch]

theorem set_get_self (h : Handlers κ) (s : Sig) : h.set s (h.get s) = h := by
  cases s <;> rfl

/-- a proc's swap followed by its own restore changes nothing -/
theorem ins_res_cancel (S : SigSt κ) (k : κ) (ss : List Sig) (ha : Allowed ss) (hf : FreshKey S k) :
    runSig (ρ := ρ) S (installs k ss ++ restores k ss) = S := by
  obtain ⟨cur, saved⟩ := S
  obtain ⟨a, b, c, d⟩ := cur
  rcases ha with rfl | rfl | rfl
  · rfl
  · simp [installs, restores, stepSig, lookupKey, eraseKey, Handlers.set, Handlers.get]
  · simp [installs, restores, stepSig, lookupKey, eraseKey, Handlers.set, Handlers.get]

/-- restoring a proc that remembers nothing is a no-op -/
theorem res_fresh (S : SigSt κ) (k : κ) (ss : List Sig) (hf : FreshKey S k) : runSig (ρ := ρ) S (restores k ss) = S := by
  induction ss with
  | nil => rfl
  | cons s ss ih => simp only [restores, List.map_cons, runSig_cons, stepSig, hf s]; exact ih

theorem lookupKey_ins_other (S : SigSt κ) (k k' : κ) (hne : k' ≠ k) (ss : List Sig) (s : Sig) :
    lookupKey (k', s) (runSig (ρ := ρ) S (installs k ss)).saved = lookupKey (k', s) S.saved := by
  induction ss generalizing S with
  | nil => rfl
  | cons a ss ih =>
    simp only [installs, List.map_cons, runSig_cons] at ih ⊢
    rw [ih]
    simp [stepSig, lookupKey, hne.symm]

theorem fresh_ins_other {S : SigSt κ} {k k' : κ} (hne : k' ≠ k) (ss : List Sig) (hf : FreshKey S k') :
    FreshKey (runSig (ρ := ρ) S (installs k ss)) k' := by
  intro s; rw [lookupKey_ins_other S k k' hne]; exact hf s

/-- WELL-NESTED SWAPS: procs swap in order, something that leaves the handlers alone happens, they restore last first —
the signal table and every proc's memory are as before.  `P` is whatever `mid` needs to be a no-op. -/
theorem nest_id (mid : List (Ev ρ κ)) (P : SigSt κ → Prop) (hmid : ∀ T, P T → runSig T mid = T)
    (ps : List (κ × List Sig)) (hP : ∀ T, P T → ∀ p ∈ ps, P (runSig (ρ := ρ) T (installs p.1 p.2))) :
    ∀ S, P S → (∀ p ∈ ps, FreshKey S p.1 ∧ Allowed p.2) → (ps.map (·.1)).Nodup →
      runSig S (ps.flatMap (fun p => installs p.1 p.2) ++ mid ++ ps.reverse.flatMap (fun p => restores p.1 p.2)) = S := by
  induction ps with
  | nil => intro S hS _ _; simpa using hmid S hS
  | cons p rest ih =>
    intro S hS hfresh hnd
    obtain ⟨k, ss⟩ := p
    have hk := hfresh (k, ss) (by simp)
    have hnd' : (rest.map (·.1)).Nodup := (List.nodup_cons.1 hnd).2
    have hknot : ∀ q ∈ rest, q.1 ≠ k := by
      intro q hq e
      exact (List.nodup_cons.1 hnd).1 (List.mem_map.2 ⟨q, hq, e⟩)
    simp only [List.flatMap_cons, List.reverse_cons, List.flatMap_append, List.flatMap_nil, List.append_nil, List.append_assoc]
    rw [runSig_append]
    have inner := ih (fun T hT q hq => hP T hT q (by simp [hq])) (runSig S (installs k ss)) (hP S hS (k, ss) (by simp))
      (fun q hq => ⟨fresh_ins_other (hknot q hq) ss (hfresh q (by simp [hq])).1, (hfresh q (by simp [hq])).2⟩) hnd'
    have e : rest.flatMap (fun p => installs (ρ := ρ) p.1 p.2) ++ (mid ++ (rest.reverse.flatMap (fun p => restores p.1 p.2) ++ restores k ss))
        = (rest.flatMap (fun p => installs p.1 p.2) ++ mid ++ rest.reverse.flatMap (fun p => restores p.1 p.2)) ++ restores k ss := by
      simp [List.append_assoc]
    rw [e, runSig_append, inner, ← runSig_append]
    exact ins_res_cancel S k ss hk.2 hk.1

end Handlers


section Tagged
variable {ρ' κ' : Type} [DecidableEq ρ'] [DecidableEq κ'] (f : Res → ρ') (h : Nat → κ')

theorem map_installs (k : Nat) (ss : List Sig) : (installs (ρ := Res) k ss).map (Ev.map f h) = installs (h k) ss := by
  simp [installs, Ev.map]
theorem map_restores (k : Nat) (ss : List Sig) : (restores (ρ := Res) k ss).map (Ev.map f h) = restores (h k) ss := by
  simp [restores, Ev.map]
theorem noSig_map (evs : List CEv) : noSig (evs.map (Ev.map f h)) = noSig evs := by
  induction evs with
  | nil => rfl
  | cons e evs ih => cases e <;> simp [Ev.map, noSig, ih]

theorem allowed_hs (onMain : Bool) (s : Spec) : Allowed (s.hs onMain) := by
  unfold Spec.hs Spec.sigs Allowed
  cases onMain <;> simp
  split <;> (try split) <;> simp

/-- the handler part of a failed start: the failing proc object's swap and immediate restore -/
def failTail (onMain : Bool) : List Spec → List CEv
  | [] => []
  | s :: rest =>
    if s.kind == .ext && !s.found then installs s.idx (s.hs onMain) ++ restores s.idx (s.hs onMain)
    else failTail onMain rest

theorem noSig_spawn (s : Spec) : noSig (spawn s) = true := by
  unfold spawn; split <;> (try split) <;> rfl
theorem noSig_reap (s : Spec) : noSig (reap s) = true := by
  unfold reap; split <;> (try split) <;> rfl
theorem noSig_joinOnly (s : Spec) : noSig (joinOnly s) = true := by
  unfold joinOnly; split <;> (try split) <;> rfl
theorem noSig_closePrev (s : Spec) : noSig (closePrev s) = true := by
  simp [closePrev, noSig_reap]
theorem noSig_flatMap_closePrev (l : List Spec) : noSig (l.flatMap closePrev) = true := by
  induction l with
  | nil => rfl
  | cons s l ih => simp [noSig_closePrev, ih]
theorem noSig_lastClose (specs : List Spec) : noSig (lastClose specs) = true := by
  unfold lastClose; split <;> simp

theorem runSig_congr_prefix (S : SigSt κ') (a b b' : List (Ev ρ' κ')) (hb : ∀ T, runSig T b = runSig T b') :
    runSig S (a ++ b) = runSig S (a ++ b') := by
  rw [runSig_append, runSig_append, hb]

theorem runSig_skip (S : SigSt κ') (a X : List (Ev ρ' κ')) (ha : noSig a = true) : runSig S (a ++ X) = runSig S X := by
  rw [runSig_append, runSig_noSig ha]

/-- as far as the handlers go, starting is: the started procs swap in order, then (on a failure) the failing one swaps and restores -/
theorem start_sig (onMain : Bool) (specs : List Spec) : ∀ (S : SigSt κ') (X : List (Ev ρ' κ')),
    runSig S ((start onMain specs).evs.map (Ev.map f h) ++ X) =
    runSig S ((start onMain specs).procs.flatMap (fun s => installs (h s.idx) (s.hs onMain)) ++
      ((failTail onMain specs).map (Ev.map f h) ++ X)) := by
  induction specs with
  | nil => intro S X; simp [start, failTail]
  | cons s rest ih =>
    intro S X
    simp only [start, failTail]
    split
    · simp only [List.map_append, map_installs, map_restores, List.flatMap_nil, List.nil_append, List.append_assoc]
      apply runSig_congr_prefix; intro T
      apply runSig_congr_prefix; intro T'
      exact runSig_skip _ _ _ (by rw [noSig_map]; exact noSig_closeAll _)
    · simp only [List.map_append, map_installs, List.flatMap_cons, List.append_assoc]
      apply runSig_congr_prefix; intro T
      rw [runSig_skip _ _ _ (by rw [noSig_map]; exact noSig_spawn s)]
      exact ih T X

theorem failTail_id (onMain : Bool) (specs : List Spec) : ∀ T : SigSt κ', (∀ s ∈ specs, FreshKey T (h s.idx)) →
    runSig T ((failTail onMain specs).map (Ev.map f h)) = T := by
  induction specs with
  | nil => intro T _; rfl
  | cons s rest ih =>
    intro T hT
    simp only [failTail]
    split
    · rw [List.map_append, map_installs, map_restores]
      exact ins_res_cancel T (h s.idx) _ (allowed_hs onMain s) (hT s (by simp))
    · exact ih T (fun t ht => hT t (by simp [ht]))

end Tagged


/-- `spec.run` raises for this stage (command not found) -/
def failsToStart (s : Spec) : Bool := s.kind == .ext && !s.found

theorem start_procs_ok (onMain : Bool) (specs : List Spec) : ∀ s ∈ (start onMain specs).procs, failsToStart s = false := by
  induction specs with
  | nil => intro s hs; simp [start] at hs
  | cons t rest ih =>
    intro s hs
    simp only [start] at hs
    split at hs
    · simp at hs
    · rename_i hne
      rcases List.mem_cons.1 hs with rfl | hs
      · simpa [failsToStart] using hne
      · exact ih s hs

theorem failTail_nil_of_ok (onMain : Bool) (specs : List Spec) (hok : (start onMain specs).failed = false) :
    failTail onMain specs = [] := by
  induction specs with
  | nil => rfl
  | cons t rest ih =>
    simp only [start] at hok
    simp only [failTail]
    split at hok
    · simp at hok
    · rename_i hne
      simp only [hne]
      exact ih hok

section Tagged2
variable {ρ' κ' : Type} [DecidableEq ρ'] [DecidableEq κ'] (f : Res → ρ') (h : Nat → κ')

theorem failTail_id' (onMain : Bool) (specs : List Spec) : ∀ T : SigSt κ',
    (∀ s ∈ specs, failsToStart s = true → FreshKey T (h s.idx)) →
    runSig T ((failTail onMain specs).map (Ev.map f h)) = T := by
  induction specs with
  | nil => intro T _; rfl
  | cons s rest ih =>
    intro T hT
    simp only [failTail]
    split
    · rename_i hs
      rw [List.map_append, map_installs, map_restores]
      exact ins_res_cancel T (h s.idx) _ (allowed_hs onMain s) (hT s (by simp) (by simpa [failsToStart] using hs))
    · exact ih T (fun t ht => hT t (by simp [ht]))

theorem map_restoreAll (onMain : Bool) (procs : List Spec) :
    (restoreAll onMain procs).map (Ev.map f h) = procs.reverse.flatMap (fun s => restores (ρ := ρ') (h s.idx) (s.hs onMain)) := by
  simp [restoreAll, List.map_flatMap, map_restores]

/-- the handler part of `end()` -/
def finishSig (v : Variant) (aborts onMain : Bool) (st : Started) : List (Ev ρ' κ') :=
  if st.failed then (if v.lifo then st.procs.reverse.flatMap (fun s => restores (h s.idx) (s.hs onMain)) else [])
  else match st.procs.getLast? with
    | none => []
    | some l => (if aborts then [] else restores (h l.idx) (l.hs onMain)) ++
        (if v.lifo then st.procs.reverse.flatMap (fun s => restores (h s.idx) (s.hs onMain)) else [])

theorem finish_sig (v : Variant) (aborts onMain : Bool) (specs : List Spec) (st : Started) (T : SigSt κ') :
    runSig T ((finish v aborts onMain specs st).map (Ev.map f h)) = runSig T (finishSig (ρ' := ρ') h v aborts onMain st) := by
  unfold finish finishSig
  by_cases hf : st.failed = true
  · simp only [hf, if_true, List.map_append]
    rw [runSig_skip _ _ _ (by simp [noSig_map, noSig_flatMap_closePrev, noSig_lastClose])]
    split
    · rw [map_restoreAll]
    · rfl
  · have hf' : st.failed = false := by simpa using hf
    simp only [hf', Bool.false_eq_true, if_false]
    cases hl : st.procs.getLast? with
    | none => rfl
    | some l =>
      simp only [List.map_append, List.append_assoc]
      rw [runSig_skip _ _ _ (by simp [noSig_map, noSig_flatMap_closePrev])]
      cases aborts with
      | true =>
        simp only [if_true, List.nil_append]
        rw [runSig_skip _ _ _ (by simp [noSig_map, noSig_joinOnly]), runSig_skip _ _ _ (by simp [noSig_map])]
        split
        · rw [map_restoreAll]
        · rfl
      | false =>
        simp only [Bool.false_eq_true, if_false, List.map_append, List.append_assoc]
        rw [runSig_skip _ _ _ (by simp [noSig_map, noSig_reap]), map_restores]
        apply runSig_congr_prefix; intro T'
        rw [runSig_skip _ _ _ (by simp [noSig_map])]
        split
        · rw [map_restoreAll]
        · rfl

end Tagged2


theorem eq_of_idx_eq {l : List Spec} (hnd : (l.map (·.idx)).Nodup) {a b : Spec} (ha : a ∈ l) (hb : b ∈ l)
    (e : a.idx = b.idx) : a = b := by
  induction l with
  | nil => simp at ha
  | cons x xs ih =>
    simp only [List.map_cons, List.nodup_cons, List.mem_map, not_exists, not_and] at hnd
    rcases List.mem_cons.1 ha with rfl | ha' <;> rcases List.mem_cons.1 hb with rfl | hb'
    · rfl
    · exact absurd e.symm (hnd.1 b hb')
    · exact absurd e (hnd.1 a ha')
    · exact ih hnd.2 ha' hb'

theorem flatMap_map_reverse {α β γ : Type} (g : α → β) (F : β → List γ) (l : List α) :
    (l.map g).reverse.flatMap F = l.reverse.flatMap (fun a => F (g a)) := by
  induction l with
  | nil => rfl
  | cons a l ih => simp [List.flatMap_append, ih]

theorem nodup_map_inj {α β : Type} {g : α → β} (hg : Function.Injective g) : ∀ {l : List α}, l.Nodup → (l.map g).Nodup
  | [], _ => by simp
  | a :: l, hnd => by
    simp only [List.nodup_cons] at hnd
    simp only [List.map_cons, List.nodup_cons, List.mem_map, not_exists, not_and]
    exact ⟨fun x hx e => hnd.1 (by rw [← hg e]; exact hx), nodup_map_inj hg hnd.2⟩

section Tagged3
variable {ρ' κ' : Type} [DecidableEq ρ'] [DecidableEq κ'] (f : Res → ρ') (h : Nat → κ')

/-- HANDLERS, with the `lifo` repair: whatever the pipeline, whichever stage fails to start, and whether or not the body of
`_end` is left early — once the pipeline has been ended the signal table and every proc's memory are as before -/
theorem command_sig_lifo (hinj : Function.Injective h) (v : Variant) (c : Cmd) (hl : v.lifo = true) (hend : endCalled c = true) :
    ∀ S : SigSt κ', (∀ k, FreshKey S (h k)) → runSig S ((command v c).all.map (Ev.map f h)) = S := by
  intro S hS
  by_cases hw : (cmdsToSpecs v c).why = .ok
  · obtain ⟨_, _, hnd⟩ := (cmdsToSpecs_inv v c).1 hw
    rw [command_of_ok hw]
    simp only [Run.all, hend, if_true, List.append_nil, List.map_append, List.append_assoc]
    rw [runSig_skip _ _ _ (by rw [noSig_map]; exact (noSig_cmdsToSpecs v c).1)]
    rw [start_sig]
    generalize hspecs : (cmdsToSpecs v c).specs = specs at hnd ⊢
    obtain ⟨_, suf, hsplit, _, _⟩ := start_inv c.onMain specs
    have hsub : ∀ s ∈ (start c.onMain specs).procs, s ∈ specs := by
      intro s hs; rw [hsplit]; exact List.mem_append_left _ hs
    have hndp : ((start c.onMain specs).procs.map (·.idx)).Nodup := by
      have := hnd; rw [hsplit, List.map_append] at this
      exact (List.nodup_append.1 this).1
    -- replace the end of the pipeline by its handler part
    rw [runSig_congr_prefix _ _ _ _ (fun T => runSig_congr_prefix T _ _ _ (fun T' => finish_sig f h v c.endAborts c.onMain specs _ T'))]
    unfold finishSig
    by_cases hf : (start c.onMain specs).failed = true
    · -- a stage failed to start
      simp only [hf, hl, if_true]
      have key := nest_id (ρ := ρ') ((failTail c.onMain specs).map (Ev.map f h))
        (fun T => ∀ s ∈ specs, failsToStart s = true → FreshKey T (h s.idx))
        (fun T hT => failTail_id' f h c.onMain specs T hT)
        ((start c.onMain specs).procs.map (fun s => (h s.idx, s.hs c.onMain)))
        (by
          intro T hT p hp s hs hfail
          obtain ⟨t, ht, rfl⟩ := List.mem_map.1 hp
          apply fresh_ins_other _ _ (hT s hs hfail)
          intro e
          have : s = t := eq_of_idx_eq hnd hs (hsub t ht) (hinj e)
          subst this
          rw [start_procs_ok c.onMain specs s ht] at hfail; cases hfail)
        S (fun s _ _ => hS _)
        (by
          intro p hp
          obtain ⟨t, _, rfl⟩ := List.mem_map.1 hp
          exact ⟨hS _, allowed_hs _ _⟩)
        (by
          rw [List.map_map]
          have : ((fun x : κ' × List Sig => x.1) ∘ fun s : Spec => (h s.idx, s.hs c.onMain)) = h ∘ (·.idx) := rfl
          rw [this, ← List.map_map]
          exact nodup_map_inj hinj hndp)
      rw [flatMap_map_reverse] at key
      simpa [List.flatMap_map, Function.comp, List.append_assoc] using key
    · have hf' : (start c.onMain specs).failed = false := by simpa using hf
      simp only [hf', Bool.false_eq_true, if_false, hl, if_true]
      rw [failTail_nil_of_ok c.onMain specs hf']
      cases hlast : (start c.onMain specs).procs.getLast? with
      | none =>
        have : (start c.onMain specs).procs = [] := by simpa using hlast
        simp [this]
      | some l =>
        have hsplit2 := dropLast_append_of_getLast? hlast
        generalize (start c.onMain specs).procs.dropLast = init at hsplit2
        rw [← hsplit2] at hndp hsub ⊢
        have hl_ne : ∀ t ∈ init, h t.idx ≠ h l.idx := by
          intro t ht e
          rw [List.map_append, List.nodup_append] at hndp
          exact hndp.2.2 t.idx (List.mem_map.2 ⟨t, ht, rfl⟩) l.idx (by simp) (hinj e)
        have key := nest_id (ρ := ρ')
          (installs (h l.idx) (l.hs c.onMain) ++ (if c.endAborts then [] else restores (h l.idx) (l.hs c.onMain)) ++
            restores (h l.idx) (l.hs c.onMain))
          (fun T => FreshKey T (h l.idx))
          (by
            intro T hT
            cases c.endAborts with
            | true => simpa using ins_res_cancel T (h l.idx) _ (allowed_hs _ l) hT
            | false =>
              simp only [Bool.false_eq_true, if_false]
              rw [runSig_append, ins_res_cancel T (h l.idx) _ (allowed_hs _ l) hT]
              exact res_fresh T _ _ hT)
          (init.map (fun s => (h s.idx, s.hs c.onMain)))
          (by
            intro T hT p hp
            obtain ⟨t, ht, rfl⟩ := List.mem_map.1 hp
            exact fresh_ins_other (hl_ne t ht).symm _ hT)
          S (hS _)
          (by
            intro p hp
            obtain ⟨t, _, rfl⟩ := List.mem_map.1 hp
            exact ⟨hS _, allowed_hs _ _⟩)
          (by
            rw [List.map_map]
            have : ((fun x : κ' × List Sig => x.1) ∘ fun s : Spec => (h s.idx, s.hs c.onMain)) = h ∘ (·.idx) := rfl
            rw [this, ← List.map_map]
            rw [List.map_append, List.nodup_append] at hndp
            exact nodup_map_inj hinj hndp.1)
        rw [flatMap_map_reverse] at key
        simpa [List.flatMap_map, Function.comp, List.append_assoc, List.flatMap_append] using key
  · rw [command_of_not_ok hw]
    simp only [Run.all, List.map_append]
    rw [runSig_append, runSig_noSig (by rw [noSig_map]; exact (noSig_cmdsToSpecs v c).2),
      runSig_noSig (by rw [noSig_map]; exact (noSig_cmdsToSpecs v c).1)]

end Tagged3


-- extra closes ---------------------------------------------------------------------------------------------------

theorem opensOf_map_cls' (l : List ρ) : opensOf (l.map (Ev.cls (κ := κ))) = [] := by
  induction l with
  | nil => rfl
  | cons x xs ih => simpa [opensOf] using ih

theorem mem_residue_extra {a b : List (Ev ρ κ)} {xs : List ρ} {x : ρ}
    (hx : x ∈ runRes [] (a ++ xs.map Ev.cls ++ b)) : x ∈ runRes [] (a ++ b) := by
  rcases mem_runRes_append.1 hx with h | ⟨h, hb⟩
  · exact mem_runRes_append.2 (Or.inl h)
  · rcases mem_runRes_append.1 h with h' | ⟨h', _⟩
    · rw [runRes_nil_of_no_opens (opensOf_map_cls' xs)] at h'; simp at h'
    · exact mem_runRes_append.2 (Or.inr ⟨h', hb⟩)

/-- closing more, anywhere, cannot leave more open -/
theorem residue_extra_nil {a b : List (Ev ρ κ)} (xs : List ρ) (h : runRes [] (a ++ b) = []) :
    runRes [] (a ++ xs.map Ev.cls ++ b) = [] := by
  apply List.eq_nil_iff_forall_not_mem.2
  intro x hx
  have := mem_residue_extra hx
  rw [h] at this; simp at this

-- handlers, the code as it is ------------------------------------------------------------------------------------

theorem flatMap_installs_nil {κ' ρ' : Type} (h : Nat → κ') (onMain : Bool) (l : List Spec) (hq : ∀ s ∈ l, s.hs onMain = []) :
    l.flatMap (fun s => installs (ρ := ρ') (h s.idx) (s.hs onMain)) = [] := by
  induction l with
  | nil => rfl
  | cons s l ih =>
    rw [List.flatMap_cons, hq s (by simp), ih (fun t ht => hq t (by simp [ht]))]; rfl

section Tagged4
variable {ρ' κ' : Type} [DecidableEq ρ'] [DecidableEq κ'] (f : Res → ρ') (h : Nat → κ')

/-- HANDLERS, the code as it is: restored provided no started stage other than the last one swaps a handler (a callable
alias before the last stage does), and the body of `_end` is not left early while the last one has swapped -/
theorem command_sig_partial (v : Variant) (hl' : v.lifo = false) (c : Cmd) (hend : endCalled c = true)
    (hq : ∀ s ∈ (if (command v c).startFailed then (command v c).procs else (command v c).procs.dropLast), s.hs c.onMain = [])
    (hab : c.endAborts = true → ∀ s ∈ (command v c).procs, s.hs c.onMain = []) :
    ∀ S : SigSt κ', (∀ k, FreshKey S (h k)) → runSig S ((command v c).all.map (Ev.map f h)) = S := by
  intro S hS
  by_cases hw : (cmdsToSpecs v c).why = .ok
  · rw [command_of_ok hw] at hq hab ⊢
    simp only [Run.all, hend, if_true, List.append_nil, List.map_append, List.append_assoc] at hq hab ⊢
    rw [runSig_skip _ _ _ (by rw [noSig_map]; exact (noSig_cmdsToSpecs v c).1)]
    rw [start_sig]
    generalize (cmdsToSpecs v c).specs = specs at hq hab ⊢
    · rw [runSig_congr_prefix _ _ _ _ (fun T => runSig_congr_prefix T _ _ _ (fun T' => finish_sig f h v c.endAborts c.onMain specs _ T'))]
      unfold finishSig
      by_cases hf : (start c.onMain specs).failed = true
      · simp only [hf, hl', if_true, Bool.false_eq_true, if_false, List.append_nil] at hq ⊢
        rw [flatMap_installs_nil h c.onMain _ hq, List.nil_append]
        exact failTail_id' f h c.onMain specs S (fun s _ _ => hS _)
      · have hf' : (start c.onMain specs).failed = false := by simpa using hf
        simp only [hf', Bool.false_eq_true, if_false, hl', List.append_nil] at hq ⊢
        rw [failTail_nil_of_ok c.onMain specs hf']
        cases hlast : (start c.onMain specs).procs.getLast? with
        | none =>
          have : (start c.onMain specs).procs = [] := by simpa using hlast
          simp [this]
        | some l =>
          have hsplit2 := dropLast_append_of_getLast? hlast
          rw [← hsplit2, List.flatMap_append, flatMap_installs_nil h c.onMain _ hq]
          simp only [List.flatMap_cons, List.flatMap_nil, List.append_nil, List.nil_append, List.map_nil]
          cases hab' : c.endAborts with
          | true =>
            have : l.hs c.onMain = [] := hab hab' l (by rw [← hsplit2]; simp)
            simp [this, installs]
          | false =>
            simp only [Bool.false_eq_true, if_false]
            exact ins_res_cancel S (h l.idx) _ (allowed_hs _ l) (hS _)
  · rw [command_of_not_ok hw]
    simp only [Run.all, List.map_append]
    rw [runSig_append, runSig_noSig (by rw [noSig_map]; exact (noSig_cmdsToSpecs v c).2),
      runSig_noSig (by rw [noSig_map]; exact (noSig_cmdsToSpecs v c).1)]

end Tagged4


-- what is open while the raised exception is still referenced -----------------------------------------------------

/-- a redirect file of stage k -/
def IsFileOf (k : Nat) (x : Res) : Prop := x.stage = k ∧ ∃ j, x.what = .file j

theorem applyRedir_files (k j : Nat) (s : Spec) (r : Redir) :
    ∀ x ∈ (applyRedir k j s r).spec.held, x ∈ s.held ∨ IsFileOf k x := by
  obtain ⟨idx, kind, found, sin, sout, serr, co, ce, ch, pt⟩ := s
  cases r with
  | file t o =>
    cases o <;> cases t <;> cases sin <;> cases sout <;> cases serr <;>
      simp [applyRedir, assign3, assign, Spec.held, IsFileOf] <;> (try grind)
  | errToOut | outToErr | errToPipe | allToPipe =>
    cases sin <;> cases sout <;> cases serr <;>
      simp [applyRedir, assign3, assign, Spec.held, IsFileOf] <;> (try grind)

theorem applyRedirs_files (k : Nat) (rs : List Redir) : ∀ (j : Nat) (s : Spec),
    ∀ x ∈ (applyRedirs k j s rs).spec.held, x ∈ s.held ∨ IsFileOf k x := by
  induction rs with
  | nil => intro j s x hx; exact Or.inl hx
  | cons r rs ih =>
    intro j s x hx
    simp only [applyRedirs] at hx
    split at hx
    · exact applyRedir_files k j s r x hx
    · rcases ih (j + 1) _ x hx with h | h
      · exact applyRedir_files k j s r x h
      · exact Or.inr h

theorem build_files (k : Nat) (st : Stage) : ∀ x ∈ (build k st).spec.held, IsFileOf k x := by
  intro x hx
  have key : ∀ x ∈ (applyRedirs k 0 (Spec.new k st) st.redirs).spec.held, IsFileOf k x := by
    intro x hx
    rcases applyRedirs_files k st.redirs 0 (Spec.new k st) x hx with h | h
    · rw [Spec.new_held] at h; simp at h
    · exact h
  simp only [build] at hx
  split at hx <;> exact key x hx

theorem buildAll_failed_files (stages : List Stage) : ∀ k f, (buildAll k stages).failed = some f →
    ∃ k', ∀ x ∈ f.held, IsFileOf k' x := by
  induction stages with
  | nil => intro k f h; simp [buildAll] at h
  | cons st rest ih =>
    intro k f h
    simp only [buildAll] at h
    split at h
    · simp only [Option.some.injEq] at h
      exact ⟨k, fun x hx => build_files k st x (by rw [h]; exact hx)⟩
    · exact ih (k + 1) f h

theorem wire_orphan (rest : List Spec) : ∀ up, (wire up rest).orphan = [] ∨
    ∃ k, (wire up rest).orphan = [⟨k, .pipeW⟩, ⟨k, .pipeR⟩] := by
  induction rest with
  | nil => intro up; left; rfl
  | cons dn rest ih =>
    intro up
    simp only [wire]
    split
    · exact Or.inr ⟨up.idx, rfl⟩
    · split
      · exact Or.inr ⟨up.idx, rfl⟩
      · exact ih _

/-- what can stay open while the exception is held: redirect files of ONE stage (the one whose build raised), or the
one pipe that was not yet attached -/
def HeldShape (k : Nat) (x : Res) : Prop := x.stage = k ∧ ((∃ j, x.what = .file j) ∨ x.what = .pipeR ∨ x.what = .pipeW)

theorem onRelease_shape (v : Variant) (c : Cmd) : ∃ k, ∀ x ∈ closes (cmdsToSpecs v c).onRelease, HeldShape k x := by
  unfold cmdsToSpecs
  dsimp only
  split
  · rename_i fsp hf
    obtain ⟨k', hk'⟩ := buildAll_failed_files c.stages 0 fsp hf
    split
    · exact ⟨0, by simp [closes]⟩
    · refine ⟨k', fun x hx => ?_⟩
      rw [closes_closeSpec] at hx
      exact ⟨(hk' x hx).1, Or.inl (hk' x hx).2⟩
  · split
    · exact ⟨0, by simp [closes]⟩
    · rename_i s0 rest _
      split
      · split
        · exact ⟨0, by simp [closes]⟩
        · rcases wire_orphan rest s0 with h | ⟨k, h⟩
          · exact ⟨0, by simp [h, closes]⟩
          · refine ⟨k, fun x hx => ?_⟩
            rw [closes_map_cls, h] at hx
            simp only [List.mem_cons, List.not_mem_nil, or_false] at hx
            rcases hx with rfl | rfl
            · exact ⟨rfl, Or.inr (Or.inr rfl)⟩
            · exact ⟨rfl, Or.inr (Or.inl rfl)⟩
      · split
        · exact ⟨0, by simp [closes]⟩
        · split
          · exact ⟨0, by simp [closes]⟩
          · exact ⟨0, by simp [closes]⟩

/-- while the exception raised by `cmds_to_specs` is still referenced, only that is open -/
theorem held_bounded (v : Variant) (c : Cmd) (hw : (command v c).why ≠ .ok) :
    ∃ k, ∀ x ∈ runRes [] (command v c).main, HeldShape k x := by
  have hw' : (cmdsToSpecs v c).why ≠ .ok := by
    intro h; rw [command_of_ok h] at hw; exact hw rfl
  obtain ⟨k, hk⟩ := onRelease_shape v c
  refine ⟨k, fun x hx => hk x ?_⟩
  rw [command_of_not_ok hw'] at hx
  have hnil := (cmdsToSpecs_inv v c).2 hw'
  apply Classical.byContradiction
  intro hnc
  have : x ∈ runRes [] ((cmdsToSpecs v c).evs ++ (cmdsToSpecs v c).onRelease) :=
    mem_runRes_append.2 (Or.inr ⟨hx, hnc⟩)
  rw [hnil] at this; simp at this


-- the converse: what exactly stays open after a late start failure ------------------------------------------------

/-- everything a spec holds carries the spec's own index -/
def StageOwn (s : Spec) : Prop := ∀ y ∈ s.held, y.stage = s.idx

theorem build_stageOwn (k : Nat) (st : Stage) : StageOwn (build k st).spec := by
  intro y hy
  rw [(build_inv k st).2.1]
  exact (build_files k st y hy).1

theorem buildAll_stageOwn (stages : List Stage) : ∀ k, ∀ s ∈ (buildAll k stages).specs, StageOwn s := by
  induction stages with
  | nil => intro k s hs; simp [buildAll] at hs
  | cons st rest ih =>
    intro k s hs
    simp only [buildAll] at hs
    split at hs
    · simp at hs
    · rcases List.mem_cons.1 hs with rfl | hs
      · exact build_stageOwn k st
      · exact ih (k + 1) s hs

theorem wireUp_stageOwn (up : Spec) (h : StageOwn up) : StageOwn (wireUp up).1 := by
  obtain ⟨idx, kind, found, sin, sout, serr, co, ce, ch, pt⟩ := up
  unfold StageOwn at h ⊢
  rcases sout with _ | (_ | _ | _ | _ | _) <;> rcases serr with _ | (_ | _ | _ | _ | _) <;>
    simp_all [wireUp, Spec.held]

theorem wire_stageOwn (rest : List Spec) : ∀ up, StageOwn up → (∀ s ∈ rest, StageOwn s) →
    ∀ s ∈ (wire up rest).specs, StageOwn s := by
  induction rest with
  | nil => intro up hu _ s hs; simp [wire] at hs; rw [hs]; exact hu
  | cons dn rest ih =>
    intro up hu hr s hs
    have hu' := wireUp_stageOwn up hu
    have hidx := (wireUp_inv up).2.1.idx
    simp only [wire] at hs
    split at hs
    · rcases List.mem_cons.1 hs with rfl | hs
      · exact hu'
      · exact hr s hs
    · split at hs
      · rcases List.mem_cons.1 hs with rfl | hs
        · exact hu'
        · exact hr s hs
      · rename_i _ hsin
        have hsin' : dn.sin.isSome = false := by simpa using hsin
        rcases List.mem_cons.1 hs with rfl | hs
        · intro y hy
          rw [held_with_chan] at hy
          rcases List.mem_append.1 hy with h | h
          · exact hu' y h
          · simp only [List.mem_cons, List.not_mem_nil, or_false] at h
            rcases h with rfl | rfl <;> exact hidx.symm
        · refine ih { dn with sin := some Val.fd } ?_ (fun t ht => hr t (by simp [ht])) s hs
          intro y hy
          rw [held_with_sin_fd dn hsin'] at hy
          exact hr dn (by simp) y hy

theorem stageOwn_iff (s : Spec) : StageOwn s ↔
    (∀ y ∈ valRes s.sin, y.stage = s.idx) ∧ (∀ y ∈ valRes s.sout, y.stage = s.idx) ∧ (∀ y ∈ valRes s.serr, y.stage = s.idx) ∧
    (∀ y ∈ optRes s.capOut, y.stage = s.idx) ∧ (∀ y ∈ optRes s.capErr, y.stage = s.idx) ∧ (∀ y ∈ chanRes s.chans, y.stage = s.idx) := by
  simp only [StageOwn, Spec.held, List.mem_append, or_imp, forall_and]
  constructor
  · rintro ⟨⟨⟨⟨⟨a, b⟩, c⟩, d⟩, e⟩, f⟩; exact ⟨a, b, c, d, e, f⟩
  · rintro ⟨a, b, c, d, e, f⟩; exact ⟨⟨⟨⟨⟨a, b⟩, c⟩, d⟩, e⟩, f⟩

theorem chanRes_snoc_own {ch : List (Res × Res)} {k : Nat} {a b : What} (h : ∀ y ∈ chanRes ch, y.stage = k) :
    ∀ y ∈ chanRes (ch ++ [(⟨k, a⟩, ⟨k, b⟩)]), y.stage = k := by
  intro y hy
  rw [chanRes_append] at hy
  rcases List.mem_append.1 hy with h' | h'
  · exact h y h'
  · simp only [chanRes, List.mem_cons, List.not_mem_nil, or_false] at h'
    rcases h' with rfl | rfl <;> rfl

theorem capOutSide_stageOwn (s : Spec) (h : StageOwn s) : StageOwn (capOutSide s).2 := by
  unfold capOutSide
  split
  · exact h
  · obtain ⟨a, b, c, d, e, f⟩ := (stageOwn_iff s).1 h
    refine (stageOwn_iff _).2 ⟨a, ?_, c, ?_, e, chanRes_snoc_own f⟩
    · intro y hy; simp only [valRes_obj, List.mem_singleton] at hy; subst hy; rfl
    · intro y hy; simp only [optRes_some, List.mem_singleton] at hy; subst hy; rfl

theorem capErrSide_stageOwn (c : Capture) (s : Spec) (h : StageOwn s) : StageOwn (capErrSide c s).2 := by
  unfold capErrSide
  split
  · exact h
  · obtain ⟨a, b, c', d, e, f⟩ := (stageOwn_iff s).1 h
    refine (stageOwn_iff _).2 ⟨a, b, ?_, d, ?_, chanRes_snoc_own f⟩
    · intro y hy; simp only [valRes_obj, List.mem_singleton] at hy; subst hy; rfl
    · intro y hy; simp only [optRes_some, List.mem_singleton] at hy; subst hy; rfl

theorem fixOutToErr_stageOwn (s : Spec) (h : StageOwn s) : StageOwn (fixOutToErr s) := by
  unfold fixOutToErr
  split
  · obtain ⟨a, b, c, d, e, f⟩ := (stageOwn_iff s).1 h
    exact (stageOwn_iff _).2 ⟨a, c, c, d, e, f⟩
  · exact h

theorem fixErrToOut_stageOwn (s : Spec) (h : StageOwn s) : StageOwn (fixErrToOut s) := by
  unfold fixErrToOut
  split
  · obtain ⟨a, b, c, d, e, f⟩ := (stageOwn_iff s).1 h
    exact (stageOwn_iff _).2 ⟨a, b, b, d, by simp, f⟩
  · exact h

theorem setThreading_stageOwn (c : Capture) (ca : Bool) (s : Spec) (h : StageOwn s) : StageOwn (setThreading c ca s) := by
  unfold setThreading
  split
  · exact h
  · exact h

theorem updateLast_stageOwn (c : Capture) (ca : Bool) (s : Spec) (h : StageOwn s) : StageOwn (updateLast c ca s).2 := by
  unfold updateLast
  split
  · exact h
  · split
    · exact setThreading_stageOwn c ca s h
    · exact fixErrToOut_stageOwn _ (fixOutToErr_stageOwn _ (capErrSide_stageOwn c _ (capOutSide_stageOwn _ (setThreading_stageOwn c ca s h))))

theorem mapLast_stageOwn (c : Capture) (ca : Bool) (specs : List Spec) (h : ∀ s ∈ specs, StageOwn s) :
    ∀ s ∈ (mapLast (updateLast c ca) specs).2, StageOwn s := by
  induction specs with
  | nil => intro s hs; simp [mapLast] at hs
  | cons t rest ih =>
    cases rest with
    | nil =>
      intro s hs
      simp only [mapLast, List.mem_singleton] at hs
      rw [hs]; exact updateLast_stageOwn c ca t (h t (by simp))
    | cons t2 rest2 =>
      intro s hs
      simp only [mapLast] at hs ih
      rcases List.mem_cons.1 hs with rfl | hs
      · exact h _ (by simp)
      · exact ih (fun u hu => h u (by simp [hu])) s hs


theorem mem_runRes_of_open_noclose {x : ρ} {evs : List (Ev ρ κ)} (ho : x ∈ opensOf evs) (hc : closes evs = []) :
    x ∈ runRes [] evs := by
  induction evs with
  | nil => simp [opensOf] at ho
  | cons e evs ih =>
    have split : e :: evs = [e] ++ evs := rfl
    rw [split, mem_runRes_append]
    cases e with
    | opn r =>
      simp only [opensOf, List.mem_cons] at ho
      simp only [closes] at hc
      rcases ho with rfl | ho
      · exact Or.inr ⟨by simp [stepRes], by rw [hc]; simp⟩
      · exact Or.inl (ih ho hc)
    | cls r => simp [closes] at hc
    | install k s => exact Or.inl (ih (by simpa [opensOf] using ho) (by simpa [closes] using hc))
    | restore k s => exact Or.inl (ih (by simpa [opensOf] using ho) (by simpa [closes] using hc))

theorem wire_cons_ok (up dn : Spec) (rest : List Spec) (h1 : (wireUp up).2 = false) (h2 : dn.sin.isSome = false) :
    wire up (dn :: rest) =
      ⟨[Ev.opn ⟨up.idx, .pipeR⟩, Ev.opn ⟨up.idx, .pipeW⟩] ++ (wire { dn with sin := some Val.fd } rest).evs,
       { (wireUp up).1 with chans := (wireUp up).1.chans ++ [(⟨up.idx, .pipeR⟩, ⟨up.idx, .pipeW⟩)] } ::
         (wire { dn with sin := some Val.fd } rest).specs,
       (wire { dn with sin := some Val.fd } rest).orphan, (wire { dn with sin := some Val.fd } rest).raised⟩ := by
  simp [wire, h1, h2]

/-- the `|` loop opens the pipe of every spec but the last -/
theorem wire_opens (rest : List Spec) : ∀ up, (wire up rest).raised = false →
    ∀ i ∈ ((wire up rest).specs.dropLast).map (·.idx), (⟨i, .pipeR⟩ : Res) ∈ opensOf (wire up rest).evs := by
  induction rest with
  | nil => intro up _ i hi; simp [wire] at hi
  | cons dn rest ih =>
    intro up hr i hi
    have hidx := (wireUp_inv up).2.1.idx
    by_cases h1 : (wireUp up).2 = true
    · simp [wire, h1] at hr
    · by_cases h2 : dn.sin.isSome = true
      · simp [wire, h1, h2] at hr
      · have h1' : (wireUp up).2 = false := by simpa using h1
        have h2' : dn.sin.isSome = false := by simpa using h2
        rw [wire_cons_ok up dn rest h1' h2'] at hr hi ⊢
        dsimp only at hr hi ⊢
        have hne : (wire { dn with sin := some Val.fd } rest).specs ≠ [] := by
          obtain ⟨b, bs, hb, _, _⟩ := (wire_inv rest { dn with sin := some Val.fd }).2.2.1.cons_inv
          rw [hb]; simp
        rw [List.dropLast_cons_of_ne_nil hne] at hi
        simp only [List.map_cons, List.mem_cons] at hi
        rw [opensOf_append]
        rcases hi with rfl | hi
        · refine List.mem_append_left _ ?_
          simp [opensOf, hidx]
        · exact List.mem_append_right _ (ih _ hr i hi)

theorem start_failed_lt (onMain : Bool) (specs : List Spec) (hf : (start onMain specs).failed = true) :
    (start onMain specs).procs.length < specs.length := by
  induction specs with
  | nil => simp [start] at hf
  | cons s rest ih =>
    simp only [start] at hf ⊢
    split
    · simp
    · rename_i hne
      simp only [hne] at hf
      simpa using ih hf

theorem map_dropLast {α β : Type} (g : α → β) : ∀ l : List α, (l.dropLast).map g = (l.map g).dropLast
  | [] => rfl
  | [_] => rfl
  | a :: b :: l => by
    simp only [List.dropLast_cons_cons, List.map_cons]
    rw [map_dropLast g (b :: l)]; rfl

theorem cmdsToSpecs_ok_shape (v : Variant) (c : Cmd) (hw : (cmdsToSpecs v c).why = .ok) :
    (∀ s ∈ (cmdsToSpecs v c).specs, StageOwn s) ∧
    ∀ i ∈ ((cmdsToSpecs v c).specs.dropLast).map (·.idx), (⟨i, .pipeR⟩ : Res) ∈ runRes [] (cmdsToSpecs v c).evs := by
  obtain ⟨b1, b2, b3⟩ := buildAll_inv c.stages 0
  have bso := buildAll_stageOwn c.stages 0
  unfold cmdsToSpecs at hw ⊢
  dsimp only at hw ⊢
  split at hw
  · split at hw <;> simp at hw
  · split at hw
    · simp at hw
    · rename_i s0 rest hs
      rw [hs] at bso b2
      split at hw
      · split at hw <;> simp at hw
      · rename_i hr
        split at hw
        · simp at hw
        · split at hw
          · simp at hw
          · rename_i hse hun
            simp only [hs, hr, hse, hun, if_false]
            have hr' : (wire s0 rest).raised = false := by simpa using hr
            obtain ⟨_, _, w3, w4, _⟩ := wire_inv rest s0
            have hidx : Indexed 0 (wire s0 rest).specs := Indexed_of_frames w3 b2
            obtain ⟨_, _, m3, m4⟩ := mapLast_inv c.capture c.captureAlways (wire s0 rest).specs 0 hidx
            refine ⟨mapLast_stageOwn _ _ _ (wire_stageOwn rest s0 (bso s0 (by simp)) (fun t ht => bso t (by simp [ht]))), ?_⟩
            intro i hi
            have hi' : i ∈ ((wire s0 rest).specs.dropLast).map (·.idx) := by
              rw [map_dropLast, ← m4, ← map_dropLast]; exact hi
            have hopen := wire_opens rest s0 hr' i hi'
            have hw1 : (⟨i, .pipeR⟩ : Res) ∈ runRes [] (wire s0 rest).evs := mem_runRes_of_open_noclose hopen w4
            apply mem_runRes_append.2
            right
            refine ⟨mem_runRes_append.2 (Or.inl hw1), ?_⟩
            rw [m3]; simp


theorem procRes1_stage (s : Spec) : ∀ y ∈ procRes1 s, y.stage = s.idx := by
  intro y hy
  unfold procRes1 spawn at hy
  split at hy
  · split at hy
    · simp only [opensOf, List.mem_cons, List.not_mem_nil, or_false] at hy
      rcases hy with rfl | rfl <;> rfl
    · simp only [opensOf, List.mem_cons, List.not_mem_nil, or_false] at hy
      subst hy; rfl
  · simp only [opensOf, List.mem_cons, List.not_mem_nil, or_false] at hy
    subst hy; rfl
  · simp [opensOf] at hy

theorem getLast?_cons_of_ne_nil' {α : Type} {x : α} : ∀ {l : List α}, l ≠ [] → (x :: l).getLast? = l.getLast?
  | [], h => absurd rfl h
  | _ :: _, _ => by simp [List.getLast?_cons_cons]

theorem getLast?_append_of_ne_nil {α : Type} (a : List α) {b : List α} (hb : b ≠ []) : (a ++ b).getLast? = b.getLast? := by
  induction a with
  | nil => rfl
  | cons x xs ih =>
    have : xs ++ b ≠ [] := by simp [hb]
    rw [List.cons_append, getLast?_cons_of_ne_nil' this]
    exact ih

/-- THE CONVERSE of the guard of `command_residue`: without the `teardown` repair, when a stage other than the first fails
to start, the read end of the pipe of the stage just before it is still open after the command -/
theorem late_failure_leaks (v : Variant) (ht : v.teardown = false) (c : Cmd) (hend : endCalled c = true)
    (hf : (command v c).startFailed = true) (l : Spec) (hl : (command v c).procs.getLast? = some l) :
    (⟨l.idx, .pipeR⟩ : Res) ∈ runRes [] (command v c).all := by
  have hw : (cmdsToSpecs v c).why = .ok := by
    apply Classical.byContradiction
    intro h
    rw [command_of_not_ok h] at hf; simp at hf
  obtain ⟨_, _, hnd⟩ := (cmdsToSpecs_inv v c).1 hw
  obtain ⟨hso, hopen⟩ := cmdsToSpecs_ok_shape v c hw
  rw [command_of_ok hw] at hf hl ⊢
  simp only [Run.all, hend, if_true, List.append_nil] at hf hl ⊢
  generalize (cmdsToSpecs v c).specs = specs at hnd hso hopen hf hl ⊢
  obtain ⟨_, suf, hsplit, hcl, _⟩ := start_inv c.onMain specs
  have hlt := start_failed_lt c.onMain specs hf
  have hsuf : suf ≠ [] := by
    intro h
    rw [h, List.append_nil] at hsplit
    rw [← hsplit] at hlt
    exact Nat.lt_irrefl _ hlt
  generalize hprocs : (start c.onMain specs).procs = procs at hsplit hl hlt ⊢
  have hpl := dropLast_append_of_getLast? hl
  have hlmem : l ∈ procs := by rw [← hpl]; simp
  -- indices: procs and suf are disjoint, and so are procs.dropLast and l
  have hnd' := hnd
  rw [hsplit, List.map_append, List.nodup_append] at hnd'
  have hdisj : ∀ s ∈ suf, s.idx ≠ l.idx := fun s hs e =>
    hnd'.2.2 l.idx (List.mem_map.2 ⟨l, hlmem, rfl⟩) s.idx (List.mem_map.2 ⟨s, hs, rfl⟩) e.symm
  have hndp : (procs.map (·.idx)).Nodup := hnd'.1
  rw [← hpl, List.map_append, List.nodup_append] at hndp
  have hdisj2 : ∀ s ∈ procs.dropLast, s.idx ≠ l.idx := fun s hs e =>
    hndp.2.2 s.idx (List.mem_map.2 ⟨s, hs, rfl⟩) l.idx (by simp) e
  have hsub : ∀ s ∈ specs, StageOwn s := hso
  -- (a) opened while the specs were prepared
  have ha : (⟨l.idx, .pipeR⟩ : Res) ∈ runRes [] (cmdsToSpecs v c).evs := by
    apply hopen
    rw [hsplit, List.dropLast_append_of_ne_nil hsuf, List.map_append]
    exact List.mem_append_left _ (List.mem_map.2 ⟨l, hlmem, rfl⟩)
  -- (b) not closed by the failure branch of the constructor
  have hb : (⟨l.idx, .pipeR⟩ : Res) ∉ closes (start c.onMain specs).evs := by
    rw [hcl]
    intro h
    obtain ⟨s, hs, hx⟩ := mem_heldAll.1 h
    exact hdisj s hs (hsub s (by rw [hsplit]; exact List.mem_append_right _ hs) _ hx).symm
  -- (c) not closed by end()
  have hc : (⟨l.idx, .pipeR⟩ : Res) ∉ closes (finish v c.endAborts c.onMain specs (start c.onMain specs)) := by
    unfold finish
    rw [hf, hprocs]
    simp only [if_true, ht, Bool.false_eq_true, if_false]
    rw [closes_append, closes_append]
    intro h
    rcases List.mem_append.1 h with h | h
    · rcases List.mem_append.1 h with h | h
      · rw [closes_flatMap] at h
        obtain ⟨s, hs, hx⟩ := List.mem_flatMap.1 h
        rw [closes_closePrev] at hx
        have hs' : s ∈ specs := by
          rw [hsplit]; exact List.mem_append_left _ (by rw [← hpl]; exact List.mem_append_left _ hs)
        rcases List.mem_append.1 hx with hx | hx
        · exact hdisj2 s hs (hsub s hs' _ hx).symm
        · exact hdisj2 s hs (procRes1_stage s _ hx).symm
      · unfold lastClose at h
        rw [hsplit, getLast?_append_of_ne_nil procs hsuf] at h
        cases hz : suf.getLast? with
        | none => rw [hz] at h; simp [closes] at h
        | some z =>
          rw [hz] at h
          simp only at h
          rw [closes_closeSpec] at h
          have hzmem : z ∈ suf := List.mem_of_getLast? hz
          exact hdisj z hzmem (hsub z (by rw [hsplit]; exact List.mem_append_right _ hzmem) _ h).symm
    · split at h
      · rw [closes_restoreAll] at h; simp at h
      · simp [closes] at h
  apply mem_runRes_append.2
  right
  exact ⟨mem_runRes_append.2 (Or.inr ⟨ha, hb⟩), hc⟩

end FdLedger
