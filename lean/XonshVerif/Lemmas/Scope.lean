/-
Helper lemmas for C02 (Props/C02.lean): the expression level.
-/
import XonshVerif.Model.Scope
namespace Scope

theorem contains_iff {xs : List Name} {x : Name} : xs.contains x = true ↔ x ∈ xs := List.contains_iff_mem

theorem addTop_addTop (c : Ctxs) (xs ys : List Name) : (c.addTop xs).addTop ys = c.addTop (ys ++ xs) := by
  unfold Ctxs.addTop
  cases h : c.inner <;> simp

theorem addTop_nil (c : Ctxs) : c.addTop [] = c := by
  obtain ⟨b, g, i⟩ := c
  cases i <;> simp [Ctxs.addTop]

theorem vis_iff (c : Ctxs) (x : Name) :
    c.vis x = true ↔ (∃ l ∈ c.inner, x ∈ l) ∨ x ∈ c.glob ∨ x ∈ c.base := by
  simp [Ctxs.vis, or_assoc]

theorem vis_addTop (c : Ctxs) (xs : List Name) (x : Name) :
    (c.addTop xs).vis x = true ↔ x ∈ xs ∨ c.vis x = true := by
  obtain ⟨b, g, i⟩ := c
  cases i with
  | nil => simp [Ctxs.addTop, Ctxs.vis, or_assoc]
  | cons t r => simp [Ctxs.addTop, Ctxs.vis, or_assoc]

/-! ### the contexts after a generic visit -/
mutual
theorem xE_ctx (env : Env) : ∀ (e : Expr) (loc : List Name) (c : Ctxs),
    (xE env loc c e).2 = c.addTop (vW env.fx.lam env.fx.comp loc e)
  | .name _, _, _ => by simp [xE, vW, addTop_nil]
  | .const _, _, _ => by simp [xE, vW, addTop_nil]
  | .node _ cs, loc, c => by simp only [xE, vW]; exact xEs_ctx env cs loc c
  | .boolop _, _, _ => by simp [xE, vW, addTop_nil]
  | .unary _, _, _ => by simp [xE, vW, addTop_nil]
  | .lam _ b, loc, c => by simp only [xE, vW]; exact xE_ctx env b _ c
  | .comp elt _ _ _, loc, c => by simp only [xE, vW]; exact xE_ctx env elt _ c
  | .walrus x v, loc, c => by
    simp only [xE, vW]
    rw [xE_ctx env v loc _]
    split
    · simp
    · rw [addTop_addTop]
theorem xEs_ctx (env : Env) : ∀ (es : Exprs) (loc : List Name) (c : Ctxs),
    (xEs env loc c es).2 = c.addTop (vWL env.fx.lam env.fx.comp loc es)
  | .nil, _, _ => by simp [xEs, vWL, addTop_nil]
  | .cons e es, loc, c => by
    simp only [xEs, vWL]
    rw [xEs_ctx env es loc _, xE_ctx env e loc c, addTop_addTop]
end

mutual
theorem vW_sub_wAny (l k : Bool) : ∀ (e : Expr) (loc : List Name) (x : Name), x ∈ vW l k loc e → x ∈ wAny e
  | .name _, _, x, h => by simp [vW] at h
  | .const _, _, x, h => by simp [vW] at h
  | .node _ cs, loc, x, h => by simp only [vW, wAny] at h ⊢; exact vWL_sub_wAnyL l k cs loc x h
  | .boolop _, _, x, h => by simp [vW] at h
  | .unary _, _, x, h => by simp [vW] at h
  | .lam _ b, loc, x, h => by simp only [vW, wAny] at h ⊢; exact vW_sub_wAny l k b _ x h
  | .comp elt _ _ _, loc, x, h => by
    simp only [vW, wAny, List.mem_append] at h ⊢; exact Or.inl (vW_sub_wAny l k elt _ x h)
  | .walrus y v, loc, x, h => by
    simp only [vW, wAny, List.mem_append, List.mem_cons] at h ⊢
    rcases h with h | h
    · exact Or.inr (vW_sub_wAny l k v loc x h)
    · split at h
      · simp at h
      · left; simpa using h
theorem vWL_sub_wAnyL (l k : Bool) : ∀ (es : Exprs) (loc : List Name) (x : Name), x ∈ vWL l k loc es → x ∈ wAnyL es
  | .nil, _, x, h => by simp [vWL] at h
  | .cons e es, loc, x, h => by
    simp only [vWL, wAnyL, List.mem_append] at h ⊢
    rcases h with h | h
    · exact Or.inr (vWL_sub_wAnyL l k es loc x h)
    · exact Or.inl (vW_sub_wAny l k e loc x h)
end

/-! ### every name an expression reads is bound outside it or stored inside it -/
mutual
theorem free_loads (lamToo : Bool) : ∀ (e : Expr) (bound : List Name), freeOk bound e = true →
    (lamToo = true ∨ lamOk e = true) → ∀ x ∈ loads e, x ∈ bound ∨ x ∈ stores lamToo e
  | .name y, bound, h, _, x, hx => by
    simp [loads] at hx; subst hx
    left; simpa [freeOk] using h
  | .const _, _, _, _, x, hx => by simp [loads] at hx
  | .node _ cs, bound, h, hl, x, hx => by
    simp only [loads, stores] at *
    exact free_loadsL lamToo cs bound (by simpa [freeOk] using h) (by simpa [lamOk] using hl) x hx
  | .boolop vs, bound, h, hl, x, hx => by
    simp only [loads, stores] at *
    exact free_loadsL lamToo vs bound (by simpa [freeOk] using h) (by simpa [lamOk] using hl) x hx
  | .unary e, bound, h, hl, x, hx => by
    simp only [loads, stores] at *
    exact free_loads lamToo e bound (by simpa [freeOk] using h) (by simpa [lamOk] using hl) x hx
  | .lam ps b, bound, h, hl, x, hx => by
    simp only [loads] at hx
    have hb : lamToo = true ∨ lamOk b = true := by
      rcases hl with hl | hl
      · exact Or.inl hl
      · right; simp [lamOk] at hl; exact hl.2
    rcases free_loads lamToo b (ps ++ bound) (by simpa [freeOk] using h) hb x hx with h1 | h1
    · rcases List.mem_append.mp h1 with hp | hbd
      · rcases hl with hl | hl
        · right; simp [stores, hl, hp]
        · simp [lamOk] at hl
          exact absurd hx (hl.1 x hp)
      · exact Or.inl hbd
    · right; simp [stores, h1]
  | .comp elt tgts iter conds, bound, h, hl, x, hx => by
    simp [freeOk] at h
    have hl' : (lamToo = true ∨ lamOk elt = true) ∧ (lamToo = true ∨ lamOk iter = true) ∧ (lamToo = true ∨ lamOkL conds = true) := by
      rcases hl with hl | hl
      · exact ⟨Or.inl hl, Or.inl hl, Or.inl hl⟩
      · simp [lamOk] at hl; exact ⟨Or.inr hl.1, Or.inr hl.2.1, Or.inr hl.2.2⟩
    simp only [loads, List.mem_append] at hx
    simp only [stores, List.mem_append]
    rcases hx with hx | hx | hx
    · rcases free_loads lamToo elt (tgts ++ bound) h.2.2 hl'.1 x hx with h1 | h1
      · rcases List.mem_append.mp h1 with h2 | h2
        · exact Or.inr (Or.inl h2)
        · exact Or.inl h2
      · exact Or.inr (Or.inr (Or.inl h1))
    · rcases free_loads lamToo iter bound h.1 hl'.2.1 x hx with h1 | h1
      · exact Or.inl h1
      · exact Or.inr (Or.inr (Or.inr (Or.inl h1)))
    · rcases free_loadsL lamToo conds (tgts ++ bound) h.2.1 hl'.2.2 x hx with h1 | h1
      · rcases List.mem_append.mp h1 with h2 | h2
        · exact Or.inr (Or.inl h2)
        · exact Or.inl h2
      · exact Or.inr (Or.inr (Or.inr (Or.inr h1)))
  | .walrus y v, bound, h, hl, x, hx => by
    simp only [loads] at hx
    rcases free_loads lamToo v bound (by simpa [freeOk] using h) (by simpa [lamOk] using hl) x hx with h1 | h1
    · exact Or.inl h1
    · right; simp [stores, h1]
theorem free_loadsL (lamToo : Bool) : ∀ (es : Exprs) (bound : List Name), freeOkL bound es = true →
    (lamToo = true ∨ lamOkL es = true) → ∀ x ∈ loadsL es, x ∈ bound ∨ x ∈ storesL lamToo es
  | .nil, _, _, _, x, hx => by simp [loadsL] at hx
  | .cons e es, bound, h, hl, x, hx => by
    simp [freeOkL] at h
    have hl' : (lamToo = true ∨ lamOk e = true) ∧ (lamToo = true ∨ lamOkL es = true) := by
      rcases hl with hl | hl
      · exact ⟨Or.inl hl, Or.inl hl⟩
      · simp [lamOkL] at hl; exact ⟨Or.inr hl.1, Or.inr hl.2⟩
    simp only [loadsL, List.mem_append] at hx
    simp only [storesL, List.mem_append]
    rcases hx with hx | hx
    · rcases free_loads lamToo e bound h.1 hl'.1 x hx with h1 | h1
      · exact Or.inl h1
      · exact Or.inr (Or.inl h1)
    · rcases free_loadsL lamToo es bound h.2 hl'.2 x hx with h1 | h1
      · exact Or.inl h1
      · exact Or.inr (Or.inr h1)
end

/-- `is_in_scope` succeeds on an expression all of whose free reads are visible -/
theorem inScope_of_free (env : Env) (c : Ctxs) (loc bound : List Name) (e : Expr)
    (hf : freeOk bound e = true) (hl : env.fx.lam = true ∨ lamOk e = true)
    (hb : ∀ x ∈ bound, c.vis x = true ∨ x ∈ loc) : inScope env c loc e = true := by
  simp only [inScope, List.all_eq_true]
  intro x hx
  rcases free_loads env.fx.lam e bound hf hl x hx with h1 | h1
  · rcases hb x h1 with h2 | h2
    · simp [h2]
    · simp [h2]
  · simp [h1]

/-! ### the BoolOp / UnaryOp visitors keep everything whose reads are visible -/
mutual
theorem xD_keep (env : Env) (c : Ctxs) (loc bound : List Name)
    (hb : ∀ x ∈ bound, c.vis x = true ∨ x ∈ loc) : ∀ e : Expr, freeOk bound e = true →
    (env.fx.lam = true ∨ lamOk e = true) → ∀ d ∈ xD env c loc e, d.v = Verdict.keep
  | .boolop vs, hf, hl, d, hd => by
    simp only [xD] at hd
    exact xOps_keep env c loc bound hb vs (by simpa [freeOk] using hf) (by simpa [lamOk] using hl) d hd
  | .unary e, hf, hl, d, hd => by
    simp only [xD, List.mem_append, List.mem_singleton] at hd
    have hf' : freeOk bound e = true := by simpa [freeOk] using hf
    have hl' : env.fx.lam = true ∨ lamOk e = true := by simpa [lamOk] using hl
    rcases hd with hd | hd
    · exact xD_keep env c loc bound hb e hf' hl' d hd
    · subst hd
      simp [verdictOf, inScope_of_free env c loc bound e hf' hl' hb]
  | .name _, _, _, d, hd => by simp [xD] at hd
  | .const _, _, _, d, hd => by simp [xD] at hd
  | .node _ _, _, _, d, hd => by simp [xD] at hd
  | .lam _ _, _, _, d, hd => by simp [xD] at hd
  | .comp _ _ _ _, _, _, d, hd => by simp [xD] at hd
  | .walrus _ _, _, _, d, hd => by simp [xD] at hd
theorem xOps_keep (env : Env) (c : Ctxs) (loc bound : List Name)
    (hb : ∀ x ∈ bound, c.vis x = true ∨ x ∈ loc) : ∀ vs : Exprs, freeOkL bound vs = true →
    (env.fx.lam = true ∨ lamOkL vs = true) → ∀ d ∈ xOps env c loc vs, d.v = Verdict.keep
  | .nil, _, _, d, hd => by simp [xOps] at hd
  | .cons v vs, hf, hl, d, hd => by
    simp only [xOps, List.mem_append, List.mem_cons] at hd
    simp [freeOkL] at hf
    have hl' : (env.fx.lam = true ∨ lamOk v = true) ∧ (env.fx.lam = true ∨ lamOkL vs = true) := by
      rcases hl with hl | hl
      · exact ⟨Or.inl hl, Or.inl hl⟩
      · simp [lamOkL] at hl; exact ⟨Or.inr hl.1, Or.inr hl.2⟩
    rcases hd with hd | hd | hd
    · exact xD_keep env c loc bound hb v hf.1 hl'.1 d hd
    · subst hd
      simp [verdictOf, inScope_of_free env c loc bound v hf.1 hl'.1 hb]
    · exact xOps_keep env c loc bound hb vs hf.2 hl'.2 d hd
end

/-! ### no BoolOp / UnaryOp in reach: no decision -/
mutual
theorem xE_decFree (env : Env) : ∀ (e : Expr) (loc : List Name) (c : Ctxs), decFree e = true → (xE env loc c e).1 = []
  | .name _, _, _, _ => by simp [xE]
  | .const _, _, _, _ => by simp [xE]
  | .node _ cs, loc, c, h => by simp only [xE]; exact xEs_decFree env cs loc c (by simpa [decFree] using h)
  | .boolop _, _, _, h => by simp [decFree] at h
  | .unary _, _, _, h => by simp [decFree] at h
  | .lam _ b, loc, c, h => by simp only [xE]; exact xE_decFree env b _ c (by simpa [decFree] using h)
  | .comp elt _ _ _, loc, c, h => by simp only [xE]; exact xE_decFree env elt _ c (by simpa [decFree] using h)
  | .walrus _ v, loc, c, h => by simp only [xE]; exact xE_decFree env v _ _ (by simpa [decFree] using h)
theorem xEs_decFree (env : Env) : ∀ (es : Exprs) (loc : List Name) (c : Ctxs), decFreeL es = true → (xEs env loc c es).1 = []
  | .nil, _, _, _ => by simp [xEs]
  | .cons e es, loc, c, h => by
    simp [decFreeL] at h
    simp only [xEs, xE_decFree env e loc c h.1, xEs_decFree env es loc _ h.2, List.append_nil]
end

/-! ### a generic visit keeps everything whose reads are visible -/
mutual
theorem xE_keep (env : Env) : ∀ (e : Expr) (loc bound : List Name) (c : Ctxs),
    (∀ x ∈ bound, c.vis x = true ∨ x ∈ loc) → freeOk bound e = true → gV env.fx e = true →
    ∀ d ∈ (xE env loc c e).1, d.v = Verdict.keep
  | .name _, _, _, _, _, _, _, d, hd => by simp [xE] at hd
  | .const _, _, _, _, _, _, _, d, hd => by simp [xE] at hd
  | .node _ cs, loc, bound, c, hb, hf, hg, d, hd => by
    simp only [xE] at hd
    exact xEs_keep env cs loc bound c hb (by simpa [freeOk] using hf) (by simpa [gV] using hg) d hd
  | .boolop vs, loc, bound, c, hb, hf, hg, d, hd => by
    simp only [xE] at hd
    exact xD_keep env c loc bound hb (.boolop vs) hf (by simpa [gV, lamOk] using hg) d hd
  | .unary e, loc, bound, c, hb, hf, hg, d, hd => by
    simp only [xE] at hd
    exact xD_keep env c loc bound hb (.unary e) hf (by simpa [gV, lamOk] using hg) d hd
  | .lam ps b, loc, bound, c, hb, hf, hg, d, hd => by
    simp only [xE] at hd
    simp [gV] at hg
    have hf' : freeOk (ps ++ bound) b = true := by simpa [freeOk] using hf
    rcases hg.2 with (hlam | hps) | hdf
    · simp only [hlam, if_true] at hd
      refine xE_keep env b (ps ++ loc) (ps ++ bound) c ?_ hf' hg.1 d hd
      intro x hx
      rcases List.mem_append.mp hx with h | h
      · exact Or.inr (List.mem_append.mpr (Or.inl h))
      · rcases hb x h with h2 | h2
        · exact Or.inl h2
        · exact Or.inr (List.mem_append.mpr (Or.inr h2))
    · subst hps
      refine xE_keep env b _ bound c ?_ (by simpa using hf') hg.1 d hd
      intro x hx
      rcases hb x hx with h2 | h2
      · exact Or.inl h2
      · right; split <;> simp [h2]
    · rw [xE_decFree env b _ c hdf] at hd; simp at hd
  | .comp elt tgts iter conds, loc, bound, c, hb, hf, hg, d, hd => by
    simp only [xE] at hd
    simp [gV] at hg
    have hf' : freeOk (tgts ++ bound) elt = true := by
      simp [freeOk] at hf; exact hf.2.2
    rcases hg.2 with (hcomp | hts) | hdf
    · simp only [hcomp, if_true] at hd
      refine xE_keep env elt (tgts ++ loc) (tgts ++ bound) c ?_ hf' hg.1 d hd
      intro x hx
      rcases List.mem_append.mp hx with h | h
      · exact Or.inr (List.mem_append.mpr (Or.inl h))
      · rcases hb x h with h2 | h2
        · exact Or.inl h2
        · exact Or.inr (List.mem_append.mpr (Or.inr h2))
    · subst hts
      refine xE_keep env elt _ bound c ?_ (by simpa using hf') hg.1 d hd
      intro x hx
      rcases hb x hx with h2 | h2
      · exact Or.inl h2
      · right; split <;> simp [h2]
    · rw [xE_decFree env elt _ c hdf] at hd; simp at hd
  | .walrus y v, loc, bound, c, hb, hf, hg, d, hd => by
    simp only [xE] at hd
    refine xE_keep env v loc bound _ ?_ (by simpa [freeOk] using hf) (by simpa [gV] using hg) d hd
    intro x hx
    rcases hb x hx with h2 | h2
    · left; split
      · exact h2
      · exact (vis_addTop c [y] x).mpr (Or.inr h2)
    · exact Or.inr h2
theorem xEs_keep (env : Env) : ∀ (es : Exprs) (loc bound : List Name) (c : Ctxs),
    (∀ x ∈ bound, c.vis x = true ∨ x ∈ loc) → freeOkL bound es = true → gVL env.fx es = true →
    ∀ d ∈ (xEs env loc c es).1, d.v = Verdict.keep
  | .nil, _, _, _, _, _, _, d, hd => by simp [xEs] at hd
  | .cons e es, loc, bound, c, hb, hf, hg, d, hd => by
    simp only [xEs, List.mem_append] at hd
    simp [freeOkL] at hf
    simp [gVL] at hg
    rcases hd with hd | hd
    · exact xE_keep env e loc bound c hb hf.1 hg.1 d hd
    · refine xEs_keep env es loc bound _ ?_ hf.2 hg.2 d hd
      intro x hx
      rw [xE_ctx env e loc c]
      rcases hb x hx with h2 | h2
      · exact Or.inl ((vis_addTop c _ x).mpr (Or.inr h2))
      · exact Or.inr h2
end

end Scope
