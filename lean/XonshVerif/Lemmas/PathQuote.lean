/-
Helper lemmas for Props/C18.lean: the escaping passes of `_quote_paths` fused into one per-character
encoder, and how the reader (`scan1`, `scan3`, `unescape`, `readBare`) consumes that encoding.
-/
import XonshVerif.Model.PathQuote
namespace PathQuote

/-! ## small facts -/

theorem bs_ne_sq : bs ≠ sq := by decide
theorem bs_ne_dq : bs ≠ dq := by decide

theorem isInfix_singleton (c : Char) (s : Str) : isInfix [c] s = s.contains c := by
  induction s with
  | nil => rfl
  | cons a as ih =>
    have h1 : [c].isPrefixOf (a :: as) = (c == a) := by simp [List.isPrefixOf]
    rw [isInfix, h1, ih, List.contains_cons]

theorem contains_false_iff (s : Str) (c : Char) : s.contains c = false ↔ c ∉ s := by
  rw [← Bool.not_eq_true, List.contains_iff_mem]

theorem contains_true_iff (s : Str) (c : Char) : s.contains c = true ↔ c ∈ s := List.contains_iff_mem

/-- `str.replace` with a one-character pattern is a per-character map -/
theorem replaceGo_single (a : Char) (rep s : Str) :
    replaceGo [a] rep 0 s = s.flatMap (fun c => if c = a then rep else [c]) := by
  induction s with
  | nil => rfl
  | cons c cs ih =>
    simp only [replaceGo, List.isPrefixOf, List.length_singleton, Nat.sub_self, List.flatMap_cons, ih]
    by_cases h : c = a
    · subst h; simp
    · have : (a == c) = false := beq_eq_false_iff_ne.mpr (fun e => h e.symm)
      simp [this, h]

theorem replaceAll_single (a : Char) (rep s : Str) :
    replaceAll [a] rep s = s.flatMap (fun c => if c = a then rep else [c]) := by
  simp [replaceAll, replaceGo_single]

theorem flatMap_id_of (f : Char → Str) (s : Str) (h : ∀ c ∈ s, f c = [c]) : s.flatMap f = s := by
  induction s with
  | nil => rfl
  | cons c cs ih =>
    simp only [List.flatMap_cons, h c (List.mem_cons_self ..)]
    rw [ih (fun x hx => h x (List.mem_cons_of_mem _ hx))]
    rfl

theorem flatMap_congr' (f g : Char → Str) (s : Str) (h : ∀ c ∈ s, f c = g c) : s.flatMap f = s.flatMap g := by
  induction s with
  | nil => rfl
  | cons c cs ih =>
    simp only [List.flatMap_cons, h c (List.mem_cons_self ..)]
    rw [ih (fun x hx => h x (List.mem_cons_of_mem _ hx))]

/-! ## the table conditions the proofs use -/

/-- the decidable conditions on the translated tables (discharged by `decide` for Gen/Quote.lean) -/
structure TablesOk (T : Tables) : Prop where
  /-- every character that ends or changes a bare word forces quoting (the backslash does so through
  `name_needs_quotes`' own clause) -/
  unsafeSpecial : bareUnsafe.all (fun c => c == bs || T.special c) = true
  /-- the lexer's AND / OR names force quoting -/
  kwQuoted : readerKeywords.all (needsQuotes T) = true
  /-- `_CONTROL_CHAR_ESCAPE` escapes exactly the documented control characters … -/
  ctrlKeysSub : T.ctrl.all (fun kv => escapedCtrl.contains kv.1) = true
  ctrlKeysSup : escapedCtrl.all (fun c => (T.ctrl.lookup c).isSome) = true
  /-- … each by a backslash and the letter whose escape denotes it -/
  ctrlVals : T.ctrl.all (fun kv => match kv.2 with
    | [b, e] => b == bs && simpleEscape e == some kv.1 && !isLineBreak e && e != sq && e != dq && e != bs
    | _ => false) = true
  /-- the separator appended to a directory is an ordinary character of a bare word -/
  slashPlain : (oddChar T '/' || T.special '/') = false
  quoteToUse : ∀ x, T.quoteToUse x = quoteToUseRef x
  rawQuote : ∀ x, T.rawQuote x = rawQuoteRef x

theorem lookup_mem {l : List (Char × Str)} {c : Char} {v : Str} (h : l.lookup c = some v) : (c, v) ∈ l := by
  induction l with
  | nil => simp [List.lookup] at h
  | cons p ps ih =>
    obtain ⟨k, w⟩ := p
    simp only [List.lookup_cons] at h
    cases hk : c == k with
    | true =>
      simp [hk] at h
      have : c = k := by simpa using hk
      subst this; subst h; exact List.mem_cons_self ..
    | false =>
      simp [hk] at h
      exact List.mem_cons_of_mem _ (ih h)

/-- a looked-up escape is `\e` with `e` the letter that denotes the character -/
theorem TablesOk.val {T : Tables} (ok : TablesOk T) {c : Char} {v : Str} (h : T.ctrl.lookup c = some v) :
    ∃ e, v = [bs, e] ∧ simpleEscape e = some c ∧ isLineBreak e = false ∧ e ≠ sq ∧ e ≠ dq ∧ e ≠ bs ∧
      escapedCtrl.contains c = true := by
  have hm := lookup_mem h
  have h1 := List.all_eq_true.mp ok.ctrlVals _ hm
  have h2 := List.all_eq_true.mp ok.ctrlKeysSub _ hm
  match v, h1 with
  | [b, e], h1 =>
    simp only [Bool.and_eq_true, beq_iff_eq, Bool.not_eq_true', bne_iff_ne, ne_eq] at h1
    obtain ⟨⟨⟨⟨⟨hb, he⟩, hl⟩, h3⟩, h4⟩, h5⟩ := h1
    exact ⟨e, by rw [hb], he, hl, h3, h4, h5, h2⟩

theorem TablesOk.isKey {T : Tables} (ok : TablesOk T) (c : Char) :
    (T.ctrl.lookup c).isSome = escapedCtrl.contains c := by
  cases h : T.ctrl.lookup c with
  | some v =>
    obtain ⟨_, _, _, _, _, _, _, hk⟩ := ok.val h
    rw [hk]; rfl
  | none =>
    cases hc : escapedCtrl.contains c with
    | false => rfl
    | true =>
      have := List.all_eq_true.mp ok.ctrlKeysSup c (List.contains_iff_mem.mp hc)
      simp [h] at this

/-- `_has_control_chars` is "contains one of the documented control characters" -/
theorem TablesOk.hasCtrl_eq {T : Tables} (ok : TablesOk T) (s : Str) :
    hasCtrl T s = s.any (fun c => escapedCtrl.contains c) := by
  unfold hasCtrl
  apply Bool.eq_iff_iff.mpr
  simp only [List.any_eq_true]
  constructor
  · rintro ⟨kv, hkv, hc⟩
    refine ⟨kv.1, List.contains_iff_mem.mp hc, ?_⟩
    exact List.all_eq_true.mp ok.ctrlKeysSub _ hkv
  · rintro ⟨c, hc, hk⟩
    have h := ok.isKey c
    rw [hk] at h
    cases hl : T.ctrl.lookup c with
    | none => simp [hl] at h
    | some v => exact ⟨(c, v), lookup_mem hl, List.contains_iff_mem.mpr hc⟩

end PathQuote
