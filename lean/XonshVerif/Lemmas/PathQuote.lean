/-
Helper lemmas for Props/C18.lean: the escaping passes of `_quote_paths` fused into one per-character
encoder, and how the reader (`scan1`, `scan3`, `unescape`, `readBare`) consumes that encoding.
-/
import XonshVerif.Model.PathQuote
namespace PathQuote

/-! ## small facts -/

theorem bs_ne_sq : bs ≠ sq := by decide
theorem bs_ne_dq : bs ≠ dq := by decide

theorem isInfix_singleton (c : Char) (s : Str) : isInfix [c] s = s.contains c := by
  induction s with
  | nil => rfl
  | cons a as ih =>
    have h1 : [c].isPrefixOf (a :: as) = (c == a) := by simp [List.isPrefixOf]
    rw [isInfix, h1, ih, List.contains_cons]

theorem contains_false_iff (s : Str) (c : Char) : s.contains c = false ↔ c ∉ s := by
  rw [← Bool.not_eq_true, List.contains_iff_mem]

theorem contains_true_iff (s : Str) (c : Char) : s.contains c = true ↔ c ∈ s := List.contains_iff_mem

/-- `str.replace` with a one-character pattern is a per-character map -/
theorem replaceGo_single (a : Char) (rep s : Str) :
    replaceGo [a] rep 0 s = s.flatMap (fun c => if c = a then rep else [c]) := by
  induction s with
  | nil => rfl
  | cons c cs ih =>
    simp only [replaceGo, List.isPrefixOf, List.length_singleton, Nat.sub_self, List.flatMap_cons, ih]
    by_cases h : c = a
    · subst h; simp
    · have : (a == c) = false := beq_eq_false_iff_ne.mpr (fun e => h e.symm)
      simp [this, h]

theorem replaceAll_single (a : Char) (rep s : Str) :
    replaceAll [a] rep s = s.flatMap (fun c => if c = a then rep else [c]) := by
  simp [replaceAll, replaceGo_single]

theorem flatMap_id_of (f : Char → Str) (s : Str) (h : ∀ c ∈ s, f c = [c]) : s.flatMap f = s := by
  induction s with
  | nil => rfl
  | cons c cs ih =>
    simp only [List.flatMap_cons, h c (List.mem_cons_self ..)]
    rw [ih (fun x hx => h x (List.mem_cons_of_mem _ hx))]
    rfl

theorem flatMap_congr' (f g : Char → Str) (s : Str) (h : ∀ c ∈ s, f c = g c) : s.flatMap f = s.flatMap g := by
  induction s with
  | nil => rfl
  | cons c cs ih =>
    simp only [List.flatMap_cons, h c (List.mem_cons_self ..)]
    rw [ih (fun x hx => h x (List.mem_cons_of_mem _ hx))]

/-! ## the table conditions the proofs use -/

/-- the decidable conditions on the translated tables (discharged by `decide` for Gen/Quote.lean) -/
structure TablesOk (T : Tables) : Prop where
  /-- every character that ends or changes a bare word forces quoting (the backslash does so through
  `name_needs_quotes`' own clause) -/
  unsafeSpecial : bareUnsafe.all (fun c => c == bs || T.special c) = true
  /-- the lexer's AND / OR names force quoting -/
  kwQuoted : readerKeywords.all (needsQuotes T) = true
  /-- `_CONTROL_CHAR_ESCAPE` escapes exactly the documented control characters … -/
  ctrlKeysSub : T.ctrl.all (fun kv => escapedCtrl.contains kv.1) = true
  ctrlKeysSup : escapedCtrl.all (fun c => (T.ctrl.lookup c).isSome) = true
  /-- … each by a backslash and the letter whose escape denotes it -/
  ctrlVals : T.ctrl.all (fun kv => match kv.2 with
    | [b, e] => b == bs && simpleEscape e == some kv.1 && !isLineBreak e && e != sq && e != dq && e != bs
    | _ => false) = true
  /-- the separator appended to a directory is an ordinary character of a bare word -/
  slashPlain : (oddChar T '/' || T.special '/') = false
  quoteToUse : ∀ x, T.quoteToUse x = quoteToUseRef x
  rawQuote : ∀ x, T.rawQuote x = rawQuoteRef x

theorem lookup_mem {l : List (Char × Str)} {c : Char} {v : Str} (h : l.lookup c = some v) : (c, v) ∈ l := by
  induction l with
  | nil => simp [List.lookup] at h
  | cons p ps ih =>
    obtain ⟨k, w⟩ := p
    simp only [List.lookup_cons] at h
    cases hk : c == k with
    | true =>
      simp [hk] at h
      have : c = k := by simpa using hk
      subst this; subst h; exact List.mem_cons_self ..
    | false =>
      simp [hk] at h
      exact List.mem_cons_of_mem _ (ih h)

/-- a looked-up escape is `\e` with `e` the letter that denotes the character -/
theorem TablesOk.val {T : Tables} (ok : TablesOk T) {c : Char} {v : Str} (h : T.ctrl.lookup c = some v) :
    ∃ e, v = [bs, e] ∧ simpleEscape e = some c ∧ isLineBreak e = false ∧ e ≠ sq ∧ e ≠ dq ∧ e ≠ bs ∧
      escapedCtrl.contains c = true := by
  have hm := lookup_mem h
  have h1 := List.all_eq_true.mp ok.ctrlVals _ hm
  have h2 := List.all_eq_true.mp ok.ctrlKeysSub _ hm
  match v, h1 with
  | [b, e], h1 =>
    simp only [Bool.and_eq_true, beq_iff_eq, Bool.not_eq_true', bne_iff_ne, ne_eq] at h1
    obtain ⟨⟨⟨⟨⟨hb, he⟩, hl⟩, h3⟩, h4⟩, h5⟩ := h1
    exact ⟨e, by rw [hb], he, hl, h3, h4, h5, h2⟩

theorem TablesOk.isKey {T : Tables} (ok : TablesOk T) (c : Char) :
    (T.ctrl.lookup c).isSome = escapedCtrl.contains c := by
  cases h : T.ctrl.lookup c with
  | some v =>
    obtain ⟨_, _, _, _, _, _, _, hk⟩ := ok.val h
    rw [hk]; rfl
  | none =>
    cases hc : escapedCtrl.contains c with
    | false => rfl
    | true =>
      have := List.all_eq_true.mp ok.ctrlKeysSup c (List.contains_iff_mem.mp hc)
      simp [h] at this

/-- `_has_control_chars` is "contains one of the documented control characters" -/
theorem TablesOk.hasCtrl_eq {T : Tables} (ok : TablesOk T) (s : Str) :
    hasCtrl T s = s.any (fun c => escapedCtrl.contains c) := by
  unfold hasCtrl
  apply Bool.eq_iff_iff.mpr
  simp only [List.any_eq_true]
  constructor
  · rintro ⟨kv, hkv, hc⟩
    refine ⟨kv.1, List.contains_iff_mem.mp hc, ?_⟩
    exact List.all_eq_true.mp ok.ctrlKeysSub _ hkv
  · rintro ⟨c, hc, hk⟩
    have h := ok.isKey c
    rw [hk] at h
    cases hl : T.ctrl.lookup c with
    | none => simp [hl] at h
    | some v => exact ⟨(c, v), lookup_mem hl, List.contains_iff_mem.mpr hc⟩

/-! ## the non-raw encoder and how the reader consumes it -/

/-- the escaping passes of a NON-raw literal fused into one per-character encoder (`q` = its quote) -/
def encNR (T : Tables) (q c : Char) : Str :=
  if c = bs then [bs, bs] else if c = q then [bs, q] else (T.ctrl.lookup c).getD [c]

theorem TablesOk.notKey {T : Tables} (ok : TablesOk T) {c : Char} (h : escapedCtrl.contains c = false) :
    T.ctrl.lookup c = none := by
  have := ok.isKey c
  rw [h] at this
  cases hl : T.ctrl.lookup c with
  | none => rfl
  | some v => simp [hl] at this

theorem quote_cases {q : Char} (hq : q = sq ∨ q = dq) :
    q ≠ bs ∧ q ≠ '\n' ∧ q ≠ '/' ∧ q ≠ ' ' ∧ escapedCtrl.contains q = false ∧ isLineBreak q = false ∧ simpleEscape q = some q := by
  rcases hq with h | h <;> subst h <;> decide

/-- pushing a whole block in front of a scan result -/
def pushAll (l : Str) (r : Option (Str × Str)) : Option (Str × Str) := l.foldr push r

theorem pushAll_append (a b : Str) (r) : pushAll (a ++ b) r = pushAll a (pushAll b r) := by
  simp [pushAll, List.foldr_append]

theorem pushAll_some (l b a : Str) : pushAll l (some (b, a)) = some (l ++ b, a) := by
  induction l with
  | nil => rfl
  | cons c cs ih => simp only [pushAll, List.foldr_cons] at ih ⊢; rw [ih]; rfl

/-- the tokenizer walks over one encoded character -/
theorem scan1_encNR {T : Tables} (ok : TablesOk T) {q : Char} (hq : q = sq ∨ q = dq) (c : Char) (r : Str) :
    scan1 q false (encNR T q c ++ r) = pushAll (encNR T q c) (scan1 q false r) := by
  obtain ⟨hqb, hqn, _, _, hqk, _, _⟩ := quote_cases hq
  unfold encNR
  by_cases h1 : c = bs
  · simp [h1, scan1, pushAll, bs]
  · by_cases h2 : c = q
    · subst h2
      simp [h1, scan1, pushAll, hqn]
    · simp only [h1, h2, if_false]
      cases hl : T.ctrl.lookup c with
      | some v =>
        obtain ⟨e, hv, _, hlb, _, _, _, _⟩ := ok.val hl
        subst hv
        have hen : e ≠ '\n' := by
          intro h; subst h; simp [isLineBreak] at hlb
        simp [scan1, pushAll, hen]
      | none =>
        have hcn : c ≠ '\n' := by
          intro h; subst h
          have := ok.isKey '\n'
          rw [hl] at this
          revert this; decide
        simp [scan1, pushAll, h1, h2, hcn]

theorem scan1_enc {T : Tables} (ok : TablesOk T) {q : Char} (hq : q = sq ∨ q = dq) (s rest : Str) :
    scan1 q false (s.flatMap (encNR T q) ++ q :: rest) = some (s.flatMap (encNR T q), rest) := by
  obtain ⟨hqb, _, _, _, _, _, _⟩ := quote_cases hq
  induction s with
  | nil => simp [scan1, hqb]
  | cons c cs ih =>
    rw [List.flatMap_cons, List.append_assoc, scan1_encNR ok hq, ih, pushAll_some]

theorem unescape_encNR {T : Tables} (ok : TablesOk T) {q : Char} (hq : q = sq ∨ q = dq) (c : Char) (r : Str) :
    unescape false (encNR T q c ++ r) = (unescape false r).map (c :: ·) := by
  obtain ⟨hqb, _, _, _, _, _, hqe⟩ := quote_cases hq
  unfold encNR
  by_cases h1 : c = bs
  · subst h1
    simp [unescape, simpleEscape]
  · by_cases h2 : c = q
    · subst h2
      simp [h1, unescape, hqe]
    · simp only [h1, h2, if_false]
      cases hl : T.ctrl.lookup c with
      | some v =>
        obtain ⟨e, hv, he, _, _, _, _, _⟩ := ok.val hl
        subst hv
        simp [unescape, he]
      | none =>
        simp [unescape, h1]

theorem unescape_enc {T : Tables} (ok : TablesOk T) {q : Char} (hq : q = sq ∨ q = dq) (s : Str) :
    unescape false (s.flatMap (encNR T q)) = some s := by
  induction s with
  | nil => rfl
  | cons c cs ih =>
    rw [List.flatMap_cons, unescape_encNR ok hq, ih]; rfl

theorem lineBreak_cases {c : Char} (h : isLineBreak c = true) :
    escapedCtrl.contains c = true ∨ unescapedBreaks.contains c = true := by
  unfold isLineBreak at h
  simp only [Bool.or_eq_true, beq_iff_eq] at h
  rcases h with ((((((((h | h) | h) | h) | h) | h) | h) | h) | h) | h <;> subst h <;> decide

theorem noBreak_enc {T : Tables} (ok : TablesOk T) {q : Char} (hq : q = sq ∨ q = dq) (s : Str)
    (hs : s.any (fun c => unescapedBreaks.contains c) = false) :
    (s.flatMap (encNR T q)).any isLineBreak = false := by
  obtain ⟨_, _, _, _, _, hql, _⟩ := quote_cases hq
  rw [List.any_eq_false] at hs ⊢
  intro x hx
  rw [List.mem_flatMap] at hx
  obtain ⟨c, hc, hxc⟩ := hx
  have hcu := hs c hc
  unfold encNR at hxc
  by_cases h1 : c = bs
  · simp [h1] at hxc; subst hxc; decide
  · by_cases h2 : c = q
    · subst h2
      simp [h1] at hxc
      rcases hxc with h | h <;> subst h
      · decide
      · simp [hql]
    · simp only [h1, h2, if_false] at hxc
      cases hl : T.ctrl.lookup c with
      | some v =>
        obtain ⟨e, hv, _, hlb, _, _, _, _⟩ := ok.val hl
        subst hv
        simp [hl] at hxc
        rcases hxc with h | h <;> subst h
        · decide
        · simp [hlb]
      | none =>
        simp [hl] at hxc
        subst hxc
        intro hb
        rcases lineBreak_cases hb with h | h
        · have := ok.isKey x
          rw [hl, h] at this
          simp at this
        · exact hcu h

/-- the three passes (double the backslashes, escape the quote, translate control characters) are the
per-character encoder -/
theorem enc_passes {T : Tables} (ok : TablesOk T) {q : Char} (hq : q = sq ∨ q = dq) (x : Str) :
    translate T.ctrl (replaceAll [q] [bs, q] (replaceAll [bs] [bs, bs] x)) = x.flatMap (encNR T q) := by
  obtain ⟨hqb, _, _, _, hqk, _, _⟩ := quote_cases hq
  rw [replaceAll_single, replaceAll_single]
  unfold translate
  rw [List.flatMap_assoc, List.flatMap_assoc]
  apply flatMap_congr'
  intro c _
  have hb : T.ctrl.lookup bs = none := ok.notKey (by decide)
  have hqn : T.ctrl.lookup q = none := ok.notKey hqk
  unfold encNR
  by_cases h1 : c = bs
  · subst h1
    simp [hqb.symm, hb, Ne.symm hqb]
  · by_cases h2 : c = q
    · subst h2
      simp [h1, hb, hqn]
    · simp [h1, h2]

/-! ## raw bodies and triple quotes -/

theorem getLast?_cons_ne {c : Char} {t : Str} (ht : t ≠ []) : (c :: t).getLast? = t.getLast? := by
  cases t with
  | nil => exact absurd rfl ht
  | cons d r => exact List.getLast?_cons_cons

/-- the tokenizer walks over a RAW body that has no quote of its own kind, no newline and does not end
in a backslash (a backslash still "protects" the next character from ending the string) -/
theorem scan1_raw {q : Char} (hq : q = sq ∨ q = dq) (v rest : Str) (esc : Bool)
    (hqv : q ∉ v) (hn : '\n' ∉ v) (he : v = [] → esc = false) (hl : v.getLast? ≠ some bs) :
    scan1 q esc (v ++ q :: rest) = some (v, rest) := by
  obtain ⟨hqb, _, _, _, _, _, _⟩ := quote_cases hq
  induction v generalizing esc with
  | nil =>
    rw [he rfl]
    simp [scan1, hqb]
  | cons c t ih =>
    have hqt : q ∉ t := fun h => hqv (List.mem_cons_of_mem _ h)
    have hnt : '\n' ∉ t := fun h => hn (List.mem_cons_of_mem _ h)
    have hcq : c ≠ q := fun h => hqv (h ▸ List.mem_cons_self ..)
    have hcn : c ≠ '\n' := fun h => hn (h ▸ List.mem_cons_self ..)
    have hlt : t.getLast? ≠ some bs := by
      cases t with
      | nil => simp
      | cons d r => rwa [List.getLast?_cons_cons] at hl
    cases esc with
    | true =>
      simp only [List.cons_append, scan1, beq_iff_eq, hcn, if_false]
      rw [ih false hqt hnt (fun _ => rfl) hlt]; rfl
    | false =>
      by_cases hcb : c = bs
      · subst hcb
        have htne : t ≠ [] := by
          intro h; subst h; simp at hl
        simp only [List.cons_append, scan1, beq_self_eq_true, if_true]
        rw [ih true hqt hnt (fun h => absurd h htne) hlt]; rfl
      · simp only [List.cons_append, scan1, beq_iff_eq, hcb, hcq, hcn, if_false]
        rw [ih false hqt hnt (fun _ => rfl) hlt]; rfl

theorem scan3_raw {q : Char} (hq : q = sq ∨ q = dq) (v rest : Str) (esc : Bool)
    (hqv : q ∉ v) (he : v = [] → esc = false) (hl : v.getLast? ≠ some bs) :
    scan3 q esc (v ++ q :: q :: q :: rest) = some (v, rest) := by
  obtain ⟨hqb, _, _, _, _, _, _⟩ := quote_cases hq
  induction v generalizing esc with
  | nil =>
    rw [he rfl]
    simp [scan3, hqb]
  | cons c t ih =>
    have hqt : q ∉ t := fun h => hqv (List.mem_cons_of_mem _ h)
    have hcq : c ≠ q := fun h => hqv (h ▸ List.mem_cons_self ..)
    have hlt : t.getLast? ≠ some bs := by
      cases t with
      | nil => simp
      | cons d r => rwa [List.getLast?_cons_cons] at hl
    cases esc with
    | true =>
      simp only [List.cons_append, scan3]
      rw [ih false hqt (fun _ => rfl) hlt]; rfl
    | false =>
      by_cases hcb : c = bs
      · subst hcb
        have htne : t ≠ [] := by
          intro h; subst h; simp at hl
        simp only [List.cons_append, scan3, beq_self_eq_true, if_true]
        rw [ih true hqt (fun h => absurd h htne) hlt]; rfl
      · have : (c == q) = false := beq_eq_false_iff_ne.mpr hcq
        simp only [List.cons_append, scan3, beq_iff_eq, hcb, this, Bool.false_and, if_false]
        rw [ih false hqt (fun _ => rfl) hlt]; rfl

/-- the triple-quote tokenizer walks over one encoded character that is not the quote -/
theorem scan3_encNR {T : Tables} (ok : TablesOk T) {q : Char} (hq : q = sq ∨ q = dq) (c : Char) (r : Str) :
    scan3 q false (encNR T q c ++ r) = pushAll (encNR T q c) (scan3 q false r) := by
  obtain ⟨hqb, hqn, _, _, hqk, _, _⟩ := quote_cases hq
  unfold encNR
  by_cases h1 : c = bs
  · simp [h1, scan3, pushAll]
  · by_cases h2 : c = q
    · subst h2
      simp [h1, scan3, pushAll]
    · simp only [h1, h2, if_false]
      cases hl : T.ctrl.lookup c with
      | some v =>
        obtain ⟨e, hv, _, _, _, _, _, _⟩ := ok.val hl
        subst hv
        simp [scan3, pushAll]
      | none =>
        have : (c == q) = false := beq_eq_false_iff_ne.mpr h2
        simp [scan3, pushAll, h1, this]

theorem scan3_enc {T : Tables} (ok : TablesOk T) {q : Char} (hq : q = sq ∨ q = dq) (s rest : Str) :
    scan3 q false (s.flatMap (encNR T q) ++ q :: q :: q :: rest) = some (s.flatMap (encNR T q), rest) := by
  obtain ⟨hqb, _, _, _, _, _, _⟩ := quote_cases hq
  induction s with
  | nil => simp [scan3, hqb]
  | cons c cs ih =>
    rw [List.flatMap_cons, List.append_assoc, scan3_encNR ok hq, ih, pushAll_some]

/-! ## bare words -/

theorem splitAtChar_append (a : Char) (w r : Str) (h : a ∉ w) : splitAtChar a (w ++ a :: r) = (w, a :: r) := by
  induction w with
  | nil => simp [splitAtChar]
  | cons c t ih =>
    have hc : (c == a) = false := beq_eq_false_iff_ne.mpr (fun e => h (e ▸ List.mem_cons_self ..))
    have ht : a ∉ t := fun e => h (List.mem_cons_of_mem _ e)
    simp [splitAtChar, hc, ih ht]

theorem splitAtChar_none (a : Char) (w : Str) (h : a ∉ w) : splitAtChar a w = (w, []) := by
  induction w with
  | nil => simp [splitAtChar]
  | cons c t ih =>
    have hc : (c == a) = false := beq_eq_false_iff_ne.mpr (fun e => h (e ▸ List.mem_cons_self ..))
    have ht : a ∉ t := fun e => h (List.mem_cons_of_mem _ e)
    simp [splitAtChar, hc, ih ht]

theorem bangSplit_snoc_slash : ∀ (s : Str), bangSplit s = none → bangSplit (s ++ ['/']) = none
  | [], _ => by simp [bangSplit]
  | [c], h => by
    by_cases hc : c = '!'
    · subst hc; simp [bangSplit] at h
    · have : (c == '!') = false := beq_eq_false_iff_ne.mpr hc
      simp [bangSplit, this]
  | c :: d :: r, h => by
    by_cases hc : c = '!'
    · subst hc
      by_cases hd : d = '='
      · subst hd
        simp only [bangSplit, beq_self_eq_true, if_true, Option.map_eq_none_iff] at h
        simp [bangSplit, bangSplit_snoc_slash r h]
      · have : (d == '=') = false := beq_eq_false_iff_ne.mpr hd
        simp [bangSplit, this] at h
    · have hcf : (c == '!') = false := beq_eq_false_iff_ne.mpr hc
      simp only [bangSplit, hcf, Bool.false_eq_true, if_false, Option.map_eq_none_iff] at h
      have := bangSplit_snoc_slash (d :: r) h
      simp only [List.cons_append] at this
      simp [bangSplit, hcf, this]

theorem pyStmt_snoc_slash (s : Str) (hs : s ≠ []) (h : pyStmt s = false) : pyStmt (s ++ ['/']) = false := by
  match s, hs with
  | [c], _ =>
    simp only [pyStmt, List.head?_nil] at h
    simp only [List.cons_append, List.nil_append, pyStmt, List.head?_cons]
    by_cases h1 : c = '='
    · subst h1; simp at h
    · by_cases h2 : c = ':'
      · subst h2; simp at h
      · have e1 : (c == '=') = false := beq_eq_false_iff_ne.mpr h1
        have e2 : (c == ':') = false := beq_eq_false_iff_ne.mpr h2
        simp [e1, e2]
  | c :: d :: r, _ =>
    simpa [pyStmt] using h

/-! ## the reader on the completer's texts -/

theorem all_space_noBreak (sp : Str) (h : sp.all (· == ' ') = true) : sp.any isLineBreak = false := by
  rw [List.any_eq_false]
  intro c hc
  have := List.all_eq_true.mp h c hc
  have : c = ' ' := by simpa using this
  subst this; decide

theorem any_append_false {p : Char → Bool} {a b : Str} (ha : a.any p = false) (hb : b.any p = false) :
    (a ++ b).any p = false := by simp [List.any_append, ha, hb]

/-- the first two characters after a single opening quote are not two more quotes -/
theorem take2_ne {q : Char} (hq : q = sq ∨ q = dq) (body sp : Str) (hb : body.head? ≠ some q)
    (hsp : sp.all (· == ' ') = true) : ((body ++ q :: sp).take 2 == [q, q]) = false := by
  obtain ⟨_, _, _, hqs, _, _, _⟩ := quote_cases hq
  apply beq_eq_false_iff_ne.mpr
  match body, hb with
  | [], _ =>
    match sp, hsp with
    | [], _ => simp
    | c :: r, hsp =>
      have : c = ' ' := by simpa using (List.all_eq_true.mp hsp c (List.mem_cons_self ..))
      subst this
      simp [Ne.symm hqs]
  | [a], hb =>
    have : a ≠ q := by simpa using hb
    simp [this]
  | a :: b :: r, hb =>
    have : a ≠ q := by simpa using hb
    simp [this]

theorem parseOpening_single {q : Char} (hq : q = sq ∨ q = dq) (rest : Str)
    (h : (rest.take 2 == [q, q]) = false) : parseOpening (q :: rest) = some (false, q, false, rest) := by
  have hr : ¬(q = 'r' ∨ q = 'R') := by rcases hq with h | h <;> subst h <;> decide
  have hqq : (q == sq || q == dq) = true := by rcases hq with h | h <;> subst h <;> decide
  have : ((q == 'r' || q == 'R') && (rest.head? == some sq || rest.head? == some dq)) = false := by
    have : (q == 'r' || q == 'R') = false := by
      rcases hq with h | h <;> subst h <;> decide
    simp [this]
  simp only [parseOpening, this, hqq, h]
  simp
  exact ⟨hq, beq_eq_false_iff_ne.mp h⟩

theorem parseOpening_raw_single {q : Char} (hq : q = sq ∨ q = dq) (rest : Str)
    (h : (rest.take 2 == [q, q]) = false) : parseOpening ('r' :: q :: rest) = some (true, q, false, rest) := by
  have hqq : (q == sq || q == dq) = true := by rcases hq with h | h <;> subst h <;> decide
  have h1 : (some q == some sq || some q == some dq) = true := by rcases hq with h | h <;> subst h <;> decide
  simp only [parseOpening, List.head?_cons, h1, hqq, h]
  simp
  exact ⟨hq, beq_eq_false_iff_ne.mp h⟩

theorem parseOpening_triple {q : Char} (hq : q = sq ∨ q = dq) (rest : Str) :
    parseOpening (q :: q :: q :: rest) = some (false, q, true, rest) := by
  have hqq : (q == sq || q == dq) = true := by rcases hq with h | h <;> subst h <;> decide
  have : (q == 'r' || q == 'R') = false := by rcases hq with h | h <;> subst h <;> decide
  simp [parseOpening, this, hqq]

theorem parseOpening_raw_triple {q : Char} (hq : q = sq ∨ q = dq) (rest : Str) :
    parseOpening ('r' :: q :: q :: q :: rest) = some (true, q, true, rest) := by
  have hqq : (q == sq || q == dq) = true := by rcases hq with h | h <;> subst h <;> decide
  have h1 : (some q == some sq || some q == some dq) = true := by rcases hq with h | h <;> subst h <;> decide
  simp [parseOpening, h1, hqq]

theorem head_enc_ne {T : Tables} (ok : TablesOk T) {q : Char} (hq : q = sq ∨ q = dq) (v : Str) :
    (v.flatMap (encNR T q)).head? ≠ some q := by
  obtain ⟨hqb, _, _, _, _, _, _⟩ := quote_cases hq
  cases v with
  | nil => simp
  | cons c t =>
    rw [List.flatMap_cons]
    unfold encNR
    by_cases h1 : c = bs
    · simp [h1, Ne.symm hqb]
    · by_cases h2 : c = q
      · subst h2
        simp [h1, Ne.symm hqb]
      · simp only [h1, h2, if_false]
        cases hl : T.ctrl.lookup c with
        | some w =>
          obtain ⟨e, hv, _, _, _, _, _, _⟩ := ok.val hl
          subst hv
          simp [Ne.symm hqb]
        | none => simp [h2]

/-- reading a NON-raw single-quoted literal produced by the encoder -/
theorem readBack_nonraw1 {T : Tables} (ok : TablesOk T) {q : Char} (hq : q = sq ∨ q = dq) (E : Env) (v sp : Str)
    (hsp : sp.all (· == ' ') = true) (hv : v.any (fun c => unescapedBreaks.contains c) = false)
    (hexp : expandPath T E v = v) :
    readBack T E (q :: (v.flatMap (encNR T q) ++ q :: sp)) = .args [v] := by
  obtain ⟨_, _, _, _, _, hql, _⟩ := quote_cases hq
  have hnb : (q :: (v.flatMap (encNR T q) ++ q :: sp)).any isLineBreak = false := by
    simp only [List.any_cons, hql, Bool.false_or]
    apply any_append_false (noBreak_enc ok hq v hv)
    simp only [List.any_cons, hql, Bool.false_or]
    exact all_space_noBreak sp hsp
  have hpo := parseOpening_single hq _ (take2_ne hq _ sp (head_enc_ne ok hq v) hsp)
  simp only [readBack, hnb, hpo, Bool.false_eq_true, if_false, scan1_enc ok hq, hsp, Bool.not_true,
    unescape_enc ok hq, hexp]

theorem noBreak_of {v : Str} (h1 : v.any (fun c => unescapedBreaks.contains c) = false)
    (h2 : v.any (fun c => escapedCtrl.contains c) = false) : v.any isLineBreak = false := by
  rw [List.any_eq_false] at *
  intro c hc hb
  rcases lineBreak_cases hb with h | h
  · exact h2 c hc h
  · exact h1 c hc h

theorem head_ne_of_not_mem {q : Char} {v : Str} (h : q ∉ v) : v.head? ≠ some q := by
  cases v with
  | nil => simp
  | cons c t =>
    simp only [List.head?_cons, ne_eq, Option.some.injEq]
    exact fun e => h (e ▸ List.mem_cons_self ..)

theorem nl_not_mem_of_noBreak {v : Str} (h : v.any isLineBreak = false) : '\n' ∉ v := by
  intro hm
  have := List.any_eq_false.mp h '\n' hm
  exact this (by decide)

/-- reading a RAW single-quoted literal whose body is the value itself -/
theorem readBack_raw1 {T : Tables} {q : Char} (hq : q = sq ∨ q = dq) (E : Env) (v sp : Str)
    (hsp : sp.all (· == ' ') = true) (hnb : v.any isLineBreak = false) (hqv : q ∉ v)
    (hl : v.getLast? ≠ some bs) :
    readBack T E ('r' :: q :: (v ++ q :: sp)) = .args [v] := by
  obtain ⟨_, _, _, _, _, hql, _⟩ := quote_cases hq
  have hnb' : ('r' :: q :: (v ++ q :: sp)).any isLineBreak = false := by
    have : isLineBreak 'r' = false := by decide
    simp only [List.any_cons, hql, this, Bool.false_or]
    apply any_append_false hnb
    simp only [List.any_cons, hql, Bool.false_or]
    exact all_space_noBreak sp hsp
  have hpo := parseOpening_raw_single hq _ (take2_ne hq v sp (head_ne_of_not_mem hqv) hsp)
  simp only [readBack, hnb', hpo, Bool.false_eq_true, if_false,
    scan1_raw hq v sp false hqv (nl_not_mem_of_noBreak hnb) (fun _ => rfl) hl, hsp, Bool.not_true, if_true]

/-- reading a NON-raw triple-quoted literal produced by the encoder -/
theorem readBack_nonraw3 {T : Tables} (ok : TablesOk T) {q : Char} (hq : q = sq ∨ q = dq) (E : Env) (v sp : Str)
    (hsp : sp.all (· == ' ') = true) (hv : v.any (fun c => unescapedBreaks.contains c) = false)
    (hexp : expandPath T E v = v) :
    readBack T E (q :: q :: q :: (v.flatMap (encNR T q) ++ q :: q :: q :: sp)) = .args [v] := by
  obtain ⟨_, _, _, _, _, hql, _⟩ := quote_cases hq
  have hnb : (q :: q :: q :: (v.flatMap (encNR T q) ++ q :: q :: q :: sp)).any isLineBreak = false := by
    simp only [List.any_cons, hql, Bool.false_or]
    apply any_append_false (noBreak_enc ok hq v hv)
    simp only [List.any_cons, hql, Bool.false_or]
    exact all_space_noBreak sp hsp
  simp only [readBack, hnb, parseOpening_triple hq, Bool.false_eq_true, if_false, if_true, scan3_enc ok hq, hsp,
    Bool.not_true, unescape_enc ok hq, hexp]

/-- reading a RAW triple-quoted literal whose body is the value itself -/
theorem readBack_raw3 {T : Tables} {q : Char} (hq : q = sq ∨ q = dq) (E : Env) (v sp : Str)
    (hsp : sp.all (· == ' ') = true) (hnb : v.any isLineBreak = false) (hqv : q ∉ v)
    (hl : v.getLast? ≠ some bs) :
    readBack T E ('r' :: q :: q :: q :: (v ++ q :: q :: q :: sp)) = .args [v] := by
  obtain ⟨_, _, _, _, _, hql, _⟩ := quote_cases hq
  have hnb' : ('r' :: q :: q :: q :: (v ++ q :: q :: q :: sp)).any isLineBreak = false := by
    have : isLineBreak 'r' = false := by decide
    simp only [List.any_cons, hql, this, Bool.false_or]
    apply any_append_false hnb
    simp only [List.any_cons, hql, Bool.false_or]
    exact all_space_noBreak sp hsp
  simp only [readBack, hnb', parseOpening_raw_triple hq, Bool.false_eq_true, if_false, if_true,
    scan3_raw hq v sp false hqv (fun _ => rfl) hl, hsp, Bool.not_true]

/-- reading a bare word none of whose characters is special to the reader -/
theorem readBack_bare {T : Tables} (E : Env) (w sp : Str) (hsp : sp = [] ∨ sp = [' ']) (hw : w ≠ [])
    (hsafe : w.any (fun c => bareUnsafe.contains c) = false) (hnb : w.any isLineBreak = false)
    (hbang : bangSplit w = none) (hodd : w.any (oddChar T) = false)
    (hkw : readerKeywords.contains w = false) (hpy : pyStmt w = false) (hexp : expandPath T E w = w) :
    readBack T E (w ++ sp) = .args [w] := by
  have hsp' : sp.all (· == ' ') = true := by rcases hsp with h | h <;> subst h <;> rfl
  have hmem : ∀ c, bareUnsafe.contains c = true → c ∉ w := by
    intro c hc hm
    have := List.any_eq_false.mp hsafe c hm
    exact this hc
  have hnb' : (w ++ sp).any isLineBreak = false := any_append_false hnb (all_space_noBreak sp hsp')
  have hsq : sq ∉ w := hmem sq (by decide)
  have hdq : dq ∉ w := hmem dq (by decide)
  have hspc : ' ' ∉ w := hmem ' ' (by decide)
  have hpo : parseOpening (w ++ sp) = none := by
    match w, hw, hsq, hdq with
    | [c], _, hsq, hdq =>
      have h1 : c ≠ sq := fun e => hsq (e ▸ List.mem_cons_self ..)
      have h2 : c ≠ dq := fun e => hdq (e ▸ List.mem_cons_self ..)
      have e1 : ¬((' ' : Char) = sq) := by decide
      have e2 : ¬((' ' : Char) = dq) := by decide
      rcases hsp with h | h <;> subst h <;> simp [parseOpening, h1, h2, e1, e2]
    | c :: d :: r, _, hsq, hdq =>
      have h1 : c ≠ sq := fun e => hsq (e ▸ List.mem_cons_self ..)
      have h2 : c ≠ dq := fun e => hdq (e ▸ List.mem_cons_self ..)
      have h3 : d ≠ sq := fun e => hsq (e ▸ List.mem_cons_of_mem _ (List.mem_cons_self ..))
      have h4 : d ≠ dq := fun e => hdq (e ▸ List.mem_cons_of_mem _ (List.mem_cons_self ..))
      simp [parseOpening, h1, h2, h3, h4]
  have hsplit : splitAtChar ' ' (w ++ sp) = (w, sp) := by
    rcases hsp with h | h <;> subst h
    · simpa using splitAtChar_none ' ' w hspc
    · exact splitAtChar_append ' ' w [] hspc
  have hwe : w.isEmpty = false := by cases w with | nil => exact absurd rfl hw | cons _ _ => rfl
  simp only [readBack, hnb', hpo, hsplit, hwe, Bool.false_eq_true, if_false, readBare, hbang, hsp', hsafe, hodd, hkw,
    hpy, Bool.not_true, hexp]

/-! ## the shapes of `_quote_paths`' output -/

theorem isInfix_nil (x : Str) : isInfix [] x = true := by cases x <;> simp [isInfix, List.isPrefixOf]

theorem isPrefixOf_mem {pat x : Str} (h : pat.isPrefixOf x = true) : ∀ c ∈ pat, c ∈ x := by
  induction pat generalizing x with
  | nil => intro c hc; cases hc
  | cons a as ih =>
    cases x with
    | nil => simp [List.isPrefixOf] at h
    | cons b bs' =>
      simp only [List.isPrefixOf, Bool.and_eq_true, beq_iff_eq] at h
      intro c hc
      rcases List.mem_cons.mp hc with e | e
      · subst e; rw [h.1]; exact List.mem_cons_self ..
      · exact List.mem_cons_of_mem _ (ih h.2 c e)

theorem isInfix_mem {pat x : Str} (h : isInfix pat x = true) : ∀ c ∈ pat, c ∈ x := by
  induction x with
  | nil =>
    cases pat with
    | nil => intro c hc; cases hc
    | cons a as => simp [isInfix] at h
  | cons b bs' ih =>
    simp only [isInfix, Bool.or_eq_true] at h
    rcases h with h | h
    · exact isPrefixOf_mem h
    · intro c hc; exact List.mem_cons_of_mem _ (ih h c hc)

theorem isInfix_false_of_not_mem {pat x : Str} {q : Char} (hq : q ∈ pat) (hx : q ∉ x) : isInfix pat x = false := by
  cases h : isInfix pat x with
  | false => rfl
  | true => exact absurd (isInfix_mem h q hq) hx

/-- `_quote_paths` on a name that needs no quotes, nothing opened: the name and its tail -/
theorem quoteOne_bare {T : Tables} (s : Str) (d ap : Bool) (hn : needsQuotes T s = false) (hc : hasCtrl T s = false) :
    quoteOne T s [] [] d ap = s ++ (if d then ['/'] else [' ']) := by
  simp [quoteOne, autoQuote, hn, effStart, tailOf, escBody, isRawStart, isInfix_nil, replaceAll, hc, wrap]

/-- nothing opened and the name needs quotes: as if the user had opened the chosen quote -/
theorem quoteOne_auto {T : Tables} (s : Str) (d ap : Bool) (hn : needsQuotes T s = true)
    (hq : (T.quoteToUse s).isEmpty = false) :
    quoteOne T s [] [] d ap = quoteOne T s (T.quoteToUse s) (T.quoteToUse s) d ap := by
  simp [quoteOne, autoQuote, hn, hq]

def dirTail (d : Bool) : Str := if d then ['/'] else []

theorem tailOf_quoted {e : Str} (he : e.isEmpty = false) (d : Bool) : tailOf e d = dirTail d := by
  simp [tailOf, dirTail, he]

theorem mem_dirTail {c : Char} {d : Bool} (h : c ∈ dirTail d) : c = '/' := by
  unfold dirTail at h
  cases d <;> simp at h
  exact h

/-- the conditional passes of a non-raw literal with a one-character quote are the encoder -/
theorem escBody_nonraw1 {T : Tables} (ok : TablesOk T) {q : Char} (hq : q = sq ∨ q = dq) (s0 : Str) (d : Bool) :
    escBody T s0 [q] [q] (s0 ++ dirTail d) = (s0 ++ dirTail d).flatMap (encNR T q) := by
  obtain ⟨hqb, _, hqs, _, hqk, _, _⟩ := quote_cases hq
  have hraw : isRawStart [q] = false := by rcases hq with h | h <;> subst h <;> decide
  simp only [escBody, hraw, List.isEmpty_cons, Bool.not_false, Bool.false_and, Bool.true_and, Bool.false_eq_true,
    if_false, if_true, List.flatMap_cons, List.flatMap_nil, List.append_nil]
  generalize hx : s0 ++ dirTail d = x
  -- the quote pass is the per-character map whether or not a quote is there
  have hpass2 : (if isInfix [q] (replaceAll [bs] [bs, bs] x) = true
      then replaceAll [q] [bs, q] (replaceAll [bs] [bs, bs] x) else replaceAll [bs] [bs, bs] x)
      = replaceAll [q] [bs, q] (replaceAll [bs] [bs, bs] x) := by
    split
    · rfl
    · rename_i h
      rw [replaceAll_single q]
      symm
      apply flatMap_id_of
      intro c hc
      have : c ≠ q := by
        intro e; subst e
        rw [isInfix_singleton] at h
        exact h (List.contains_iff_mem.mpr hc)
      simp [this]
  rw [hpass2]
  by_cases hc : hasCtrl T s0 = true
  · simp only [hc, if_true]
    exact enc_passes ok hq x
  · have hc' : hasCtrl T s0 = false := by simpa using hc
    simp only [hc', Bool.false_eq_true, if_false]
    rw [← enc_passes ok hq x]
    unfold translate
    symm
    apply flatMap_id_of
    intro c hcm
    -- every character there comes from s0, the tail, or is a backslash / the quote: none is a key
    have hsrc : c = bs ∨ c = q ∨ c ∈ x := by
      rw [replaceAll_single, replaceAll_single, List.flatMap_assoc] at hcm
      obtain ⟨a, ha, hca⟩ := List.mem_flatMap.mp hcm
      by_cases h1 : a = bs
      · subst h1
        simp [Ne.symm hqb] at hca
        exact Or.inl hca
      · by_cases h2 : a = q
        · subst h2
          simp [h1] at hca
          rcases hca with e | e
          · exact Or.inl e
          · exact Or.inr (Or.inl e)
        · simp [h1, h2] at hca
          subst hca
          exact Or.inr (Or.inr ha)
    have hnk : escapedCtrl.contains c = false := by
      rcases hsrc with e | e | e
      · subst e; decide
      · subst e; exact hqk
      · rw [← hx] at e
        rcases List.mem_append.mp e with e | e
        · rw [ok.hasCtrl_eq] at hc'
          have := List.any_eq_false.mp hc' c e
          simpa using this
        · rw [mem_dirTail e]; decide
    simp [ok.notKey hnk]

theorem mem_dbl {c : Char} {x : Str} (h : c ∈ replaceAll [bs] [bs, bs] x) : c = bs ∨ c ∈ x := by
  rw [replaceAll_single] at h
  obtain ⟨a, ha, hca⟩ := List.mem_flatMap.mp h
  by_cases h1 : a = bs
  · subst h1; simp at hca; exact Or.inl hca
  · simp [h1] at hca; subst hca; exact Or.inr ha

/-- a raw literal whose body needs no repair is the candidate itself -/
theorem escBody_raw {T : Tables} (s0 start end_ x : Str) (hbs : endsWith x [bs] = false)
    (hinf : isInfix end_ x = false) (hc : hasCtrl T s0 = false) (hraw : isRawStart start = true) :
    escBody T s0 start end_ x = x := by
  simp [escBody, hraw, hbs, hinf, hc]

/-- a non-raw triple-quoted literal of a candidate without that quote: the same encoder -/
theorem escBody_nonraw3 {T : Tables} (ok : TablesOk T) {q : Char} (hq : q = sq ∨ q = dq) (s0 : Str) (d : Bool)
    (hqs : q ∉ s0) :
    escBody T s0 [q, q, q] [q, q, q] (s0 ++ dirTail d) = (s0 ++ dirTail d).flatMap (encNR T q) := by
  obtain ⟨hqb, _, hqsl, _, _, _, _⟩ := quote_cases hq
  rw [← escBody_nonraw1 ok hq s0 d]
  have hraw1 : isRawStart [q] = false := by rcases hq with h | h <;> subst h <;> decide
  have hraw3 : isRawStart [q, q, q] = false := by rcases hq with h | h <;> subst h <;> decide
  have hqx : q ∉ replaceAll [bs] [bs, bs] (s0 ++ dirTail d) := by
    intro h
    rcases mem_dbl h with e | e
    · exact hqb e
    · rcases List.mem_append.mp e with e | e
      · exact hqs e
      · exact hqsl (mem_dirTail e)
  have h1 : isInfix [q] (replaceAll [bs] [bs, bs] (s0 ++ dirTail d)) = false :=
    isInfix_false_of_not_mem (List.mem_cons_self ..) hqx
  have h3 : isInfix [q, q, q] (replaceAll [bs] [bs, bs] (s0 ++ dirTail d)) = false :=
    isInfix_false_of_not_mem (List.mem_cons_self ..) hqx
  simp [escBody, hraw1, hraw3, h1, h3]

theorem endsWith_bs_iff (x : Str) : endsWith x [bs] = true ↔ x.getLast? = some bs := by
  unfold endsWith
  rw [List.isSuffixOf_iff_suffix, List.getLast?_eq_some_iff]
  constructor
  · rintro ⟨t, ht⟩; exact ⟨t, ht.symm⟩
  · rintro ⟨t, ht⟩; exact ⟨t, ht.symm⟩

theorem getLast?_append_dirTail (s : Str) (d : Bool) (h : d = false → s.getLast? ≠ some bs) :
    (s ++ dirTail d).getLast? ≠ some bs := by
  cases d with
  | true => simp [dirTail, bs]
  | false => simpa [dirTail] using h rfl

/-! ## triple quotes in full: the passes as one recursion, and the tokenizer's look-ahead -/

/-- a non-raw character as the triple-quote passes leave it (the quote itself is NOT escaped) -/
def encT (T : Tables) (c : Char) : Str := if c = bs then [bs, bs] else (T.ctrl.lookup c).getD [c]

/-- the escaped form of the three-quote sequence -/
def rep3 (q : Char) : Str := [bs, q, bs, q, bs, q]

/-- the triple-quote passes of a non-raw literal as ONE recursion (`k` = quotes of a matched triple still
to be dropped) -/
def enc3 (T : Tables) (q : Char) : Nat → Str → Str
  | _, [] => []
  | k + 1, _ :: r => enc3 T q k r
  | 0, c :: r => if c = q ∧ r.take 2 = [q, q] then rep3 q ++ enc3 T q 2 r else encT T c ++ enc3 T q 0 r

def dblc (c : Char) : Str := if c = bs then [bs, bs] else [c]

theorem prefix_qq {q : Char} (hqb : q ≠ bs) (r : Str) :
    [q, q].isPrefixOf (r.flatMap dblc) = decide (r.take 2 = [q, q]) := by
  match r with
  | [] => simp [List.isPrefixOf]
  | [a] =>
    by_cases ha : a = bs
    · subst ha; simp [dblc, List.isPrefixOf, hqb]
    · simp [dblc, ha, List.isPrefixOf]
  | a :: b :: r' =>
    by_cases ha : a = bs
    · subst ha
      have : (q == bs) = false := beq_eq_false_iff_ne.mpr hqb
      simp [dblc, List.isPrefixOf, this, Ne.symm hqb]
    · by_cases hb : b = bs
      · subst hb
        have : (q == bs) = false := beq_eq_false_iff_ne.mpr hqb
        simp [dblc, ha, List.isPrefixOf, this, Ne.symm hqb]
      · have hd1 : dblc a = [a] := by simp [dblc, ha]
        have hd2 : dblc b = [b] := by simp [dblc, hb]
        simp only [List.flatMap_cons, hd1, hd2, List.singleton_append, List.isPrefixOf, Bool.and_true, List.take_succ_cons,
          List.take_zero]
        by_cases e1 : q = a
        · subst e1
          by_cases e2 : q = b
          · subst e2; simp
          · have : (q == b) = false := beq_eq_false_iff_ne.mpr e2
            simp [this, Ne.symm e2]
        · have : (q == a) = false := beq_eq_false_iff_ne.mpr e1
          simp [this, Ne.symm e1]

theorem translate_append (tbl : List (Char × Str)) (a b : Str) :
    translate tbl (a ++ b) = translate tbl a ++ translate tbl b := by
  simp [translate, List.flatMap_append]

theorem translate_cons (tbl : List (Char × Str)) (c : Char) (b : Str) :
    translate tbl (c :: b) = (tbl.lookup c).getD [c] ++ translate tbl b := by
  simp [translate, List.flatMap_cons]

/-- the pipeline `translate ∘ replace('''…) ∘ double-backslashes` IS `enc3` -/
theorem passes3 {T : Tables} (ok : TablesOk T) {q : Char} (hq : q = sq ∨ q = dq) (x : Str) (k : Nat)
    (hk : ∀ c ∈ x.take k, c = q) :
    translate T.ctrl (replaceGo [q, q, q] (rep3 q) k (x.flatMap dblc)) = enc3 T q k x := by
  obtain ⟨hqb, _, _, _, hqk, _, _⟩ := quote_cases hq
  have hb : T.ctrl.lookup bs = none := ok.notKey (by decide)
  have hqn : T.ctrl.lookup q = none := ok.notKey hqk
  induction x generalizing k with
  | nil => cases k <;> simp [replaceGo, enc3, translate]
  | cons c r ih =>
    cases k with
    | succ k =>
      have hc : c = q := hk c (by simp)
      subst hc
      have : dblc c = [c] := by simp [dblc, hqb]
      simp only [List.flatMap_cons, this, List.singleton_append, replaceGo, enc3]
      apply ih
      intro a ha
      exact hk a (by simp only [List.take_succ_cons]; exact List.mem_cons_of_mem _ ha)
    | zero =>
      simp only [List.flatMap_cons, enc3]
      by_cases h1 : c = bs
      · subst h1
        have hne : ¬(bs = q ∧ r.take 2 = [q, q]) := fun h => hqb h.1.symm
        have hp1 : [q, q, q].isPrefixOf (bs :: bs :: r.flatMap dblc) = false := by
          simp [List.isPrefixOf, hqb]
        have hp2 : [q, q, q].isPrefixOf (bs :: r.flatMap dblc) = false := by
          simp [List.isPrefixOf, hqb]
        simp only [dblc, if_true, List.cons_append, List.nil_append, replaceGo, hp1, hp2, Bool.false_eq_true, if_false,
          translate_cons, hb, Option.getD_none, hne, encT]
        rw [ih 0 (by simp)]
      · by_cases h2 : c = q
        · subst h2
          have hd : dblc c = [c] := by simp [dblc, hqb]
          have hp : [c, c, c].isPrefixOf (c :: r.flatMap dblc) = decide (r.take 2 = [c, c]) := by
            simp only [List.isPrefixOf, beq_self_eq_true, Bool.true_and]
            exact prefix_qq hqb r
          simp only [hd, List.singleton_append, replaceGo, hp, List.length_cons, List.length_nil]
          by_cases ht : r.take 2 = [c, c]
          · simp only [ht, decide_true, if_true, true_and, and_self]
            rw [translate_append]
            have hr : translate T.ctrl (rep3 c) = rep3 c := by
              simp [rep3, translate, hb, hqn]
            rw [hr]
            congr 1
            apply ih 2
            intro a ha
            rw [ht] at ha
            simpa using ha
          · simp only [ht, decide_false, Bool.false_eq_true, if_false, and_false, translate_cons, hqn, Option.getD_none]
            rw [ih 0 (by simp)]
            simp [encT, h1, hqn]
        · have hd : dblc c = [c] := by simp [dblc, h1]
          have hp : [q, q, q].isPrefixOf (c :: r.flatMap dblc) = false := by
            simp [List.isPrefixOf, Ne.symm h2]
          have hne : ¬(c = q ∧ r.take 2 = [q, q]) := fun h => h2 h.1
          simp only [hd, List.singleton_append, replaceGo, hp, Bool.false_eq_true, if_false, translate_cons, hne]
          rw [ih 0 (by simp)]
          simp [encT, h1]


theorem encT_head_ne {T : Tables} (ok : TablesOk T) {q : Char} (hq : q = sq ∨ q = dq) {c : Char} (hc : c ≠ q) :
    (encT T c).head? ≠ some q ∧ encT T c ≠ [] := by
  obtain ⟨hqb, _, _, _, _, _, _⟩ := quote_cases hq
  unfold encT
  by_cases h1 : c = bs
  · simp [h1, Ne.symm hqb]
  · simp only [h1, if_false]
    cases hl : T.ctrl.lookup c with
    | some w =>
      obtain ⟨e, hv, _, _, _, _, _, _⟩ := ok.val hl
      subst hv
      simp [Ne.symm hqb]
    | none => simp [hc]

theorem enc3_zero_not (T : Tables) (q c : Char) (r : Str)
    (h : ¬(c = q ∧ r.take 2 = [q, q])) : enc3 T q 0 (c :: r) = encT T c ++ enc3 T q 0 r := by
  simp only [enc3, h, if_false]

/-- the head of the encoding of a text that does not start with the quote is not the quote -/
theorem enc3_head_ne {T : Tables} (ok : TablesOk T) {q : Char} (hq : q = sq ∨ q = dq) {c : Char} (r : Str) (hc : c ≠ q) :
    (enc3 T q 0 (c :: r)).head? ≠ some q ∧ enc3 T q 0 (c :: r) ≠ [] := by
  have hne : ¬(c = q ∧ r.take 2 = [q, q]) := fun h => hc h.1
  obtain ⟨h1, h2⟩ := encT_head_ne ok hq hc
  simp only [enc3, hne, if_false]
  constructor
  · cases he : encT T c with
    | nil => exact absurd he h2
    | cons a t => rw [he] at h1; simpa using h1
  · cases he : encT T c with
    | nil => exact absurd he h2
    | cons a t => simp

theorem scan3_encT {T : Tables} (ok : TablesOk T) {q : Char} (hq : q = sq ∨ q = dq) {c : Char} (hc : c ≠ q) (r : Str) :
    scan3 q false (encT T c ++ r) = pushAll (encT T c) (scan3 q false r) := by
  obtain ⟨hqb, _, _, _, _, _, _⟩ := quote_cases hq
  unfold encT
  by_cases h1 : c = bs
  · simp [h1, scan3, pushAll]
  · simp only [h1, if_false]
    cases hl : T.ctrl.lookup c with
    | some v =>
      obtain ⟨e, hv, _, _, _, _, _, _⟩ := ok.val hl
      subst hv
      simp [scan3, pushAll]
    | none =>
      have : (c == q) = false := beq_eq_false_iff_ne.mpr hc
      simp [scan3, pushAll, h1, this]

theorem scan3_rep3 {q : Char} (hq : q = sq ∨ q = dq) (r : Str) :
    scan3 q false (rep3 q ++ r) = pushAll (rep3 q) (scan3 q false r) := by
  simp [rep3, scan3, pushAll]

/-- the triple-quote tokenizer finds the closing quote right after the encoding of a text that does
not END in the quote character -/
theorem scan3_enc3 {T : Tables} (ok : TablesOk T) {q : Char} (hq : q = sq ∨ q = dq) (x rest : Str) (k : Nat)
    (hl : x.getLast? ≠ some q) :
    scan3 q false (enc3 T q k x ++ q :: q :: q :: rest) = some (enc3 T q k x, rest) := by
  obtain ⟨hqb, _, _, _, _, _, _⟩ := quote_cases hq
  induction x generalizing k with
  | nil => cases k <;> simp [enc3, scan3, hqb]
  | cons c r ih =>
    have hlr : r.getLast? ≠ some q := by
      cases r with
      | nil => simp
      | cons d r' => rwa [List.getLast?_cons_cons] at hl
    cases k with
    | succ k => simpa [enc3] using ih k hlr
    | zero =>
      by_cases ht : c = q ∧ r.take 2 = [q, q]
      · simp only [enc3, ht, and_self, if_true, List.append_assoc]
        rw [scan3_rep3 hq, ih 2 hlr, pushAll_some]
      · simp only [enc3, ht, if_false, List.append_assoc]
        by_cases hc : c = q
        · subst hc
          have hlq : T.ctrl.lookup c = none := ok.notKey (quote_cases hq).2.2.2.2.1
          have henc : encT T c = [c] := by simp [encT, hqb, hlq]
          have hnt : ¬ r.take 2 = [c, c] := fun h => ht ⟨rfl, h⟩
          -- what follows the lone quote does not begin with two more quotes
          have hnext : ((enc3 T c 0 r ++ c :: c :: c :: rest).take 2 == [c, c]) = false := by
            apply beq_eq_false_iff_ne.mpr
            match r, hl, hnt with
            | [], hl, _ => simp at hl
            | [d], hl, _ =>
              have hd : d ≠ c := by
                intro e; subst e; simp at hl
              obtain ⟨h1, h2⟩ := enc3_head_ne ok hq [] hd
              cases he : enc3 T c 0 [d] with
              | nil => exact absurd he h2
              | cons a t =>
                rw [he] at h1
                have : a ≠ c := by simpa using h1
                cases t <;> simp [this]
            | d :: e :: r', _, hnt =>
              by_cases hd : d = c
              · subst hd
                have he : e ≠ d := by
                  intro h; subst h; simp at hnt
                have hne : ¬(d = d ∧ (e :: r').take 2 = [d, d]) := by
                  intro h
                  have := h.2
                  simp only [List.take_succ_cons] at this
                  cases r' <;> simp_all
                obtain ⟨h1, h2⟩ := enc3_head_ne ok hq r' he
                have hstep : enc3 T d 0 (d :: e :: r') = [d] ++ enc3 T d 0 (e :: r') := by
                  rw [enc3_zero_not T d d (e :: r') hne, henc]
                rw [hstep]
                cases he' : enc3 T d 0 (e :: r') with
                | nil => exact absurd he' h2
                | cons a t =>
                  rw [he'] at h1
                  have : a ≠ d := by simpa using h1
                  simp [this]
              · obtain ⟨h1, h2⟩ := enc3_head_ne ok hq (e :: r') hd
                cases he' : enc3 T c 0 (d :: e :: r') with
                | nil => exact absurd he' h2
                | cons a t =>
                  rw [he'] at h1
                  have : a ≠ c := by simpa using h1
                  cases t <;> simp [this]
          rw [henc]
          simp only [List.singleton_append, scan3, hqb, beq_self_eq_true, Bool.true_and, hnext, Bool.false_eq_true,
            if_false, beq_iff_eq]
          rw [ih 0 hlr]; rfl
        · rw [scan3_encT ok hq hc, ih 0 hlr, pushAll_some]

theorem unescape_encT {T : Tables} (ok : TablesOk T) (c : Char) (r : Str) :
    unescape false (encT T c ++ r) = (unescape false r).map (c :: ·) := by
  unfold encT
  by_cases h1 : c = bs
  · subst h1; simp [unescape, simpleEscape]
  · simp only [h1, if_false]
    cases hl : T.ctrl.lookup c with
    | some v =>
      obtain ⟨e, hv, he, _, _, _, _, _⟩ := ok.val hl
      subst hv
      simp [unescape, he]
    | none => simp [unescape, h1]

/-- `ast.literal_eval` undoes the triple-quote encoding (`k` quotes of a matched triple are owed) -/
theorem unescape_enc3 {T : Tables} (ok : TablesOk T) {q : Char} (hq : q = sq ∨ q = dq) (x : Str) (k : Nat) :
    unescape false (enc3 T q k x) = some (x.drop k) := by
  obtain ⟨hqb, _, _, _, _, _, hqe⟩ := quote_cases hq
  induction x generalizing k with
  | nil => cases k <;> simp [enc3, unescape]
  | cons c r ih =>
    cases k with
    | succ k => simpa [enc3] using ih k
    | zero =>
      by_cases ht : c = q ∧ r.take 2 = [q, q]
      · obtain ⟨hc, hr⟩ := ht
        subst hc
        simp only [enc3, hr, and_self, if_true, rep3, List.cons_append, List.nil_append, unescape, beq_self_eq_true,
          if_true, hqe]
        rw [ih 2]
        have : r = c :: c :: r.drop 2 := by
          conv => lhs; rw [← List.take_append_drop 2 r, hr]
          rfl
        simp only [Option.map_some, List.drop_zero]
        rw [this]; simp
      · simp only [enc3, ht, if_false]
        rw [unescape_encT ok, ih 0]; simp

theorem noBreak_encT {T : Tables} (ok : TablesOk T) {c : Char} (hc : unescapedBreaks.contains c = false) :
    (encT T c).any isLineBreak = false := by
  unfold encT
  by_cases h1 : c = bs
  · subst h1
    have : isLineBreak bs = false := by decide
    simp [this]
  · simp only [h1, if_false]
    cases hl : T.ctrl.lookup c with
    | some v =>
      obtain ⟨e, hv, _, hlb, _, _, _, _⟩ := ok.val hl
      subst hv
      have : isLineBreak bs = false := by decide
      simp [this, hlb]
    | none =>
      simp only [Option.getD_none, List.any_cons, List.any_nil, Bool.or_false]
      cases hb : isLineBreak c with
      | false => rfl
      | true =>
        rcases lineBreak_cases hb with h | h
        · have := ok.isKey c
          rw [hl, h] at this
          simp at this
        · rw [hc] at h; exact absurd h (by decide)

theorem noBreak_enc3 {T : Tables} (ok : TablesOk T) {q : Char} (hq : q = sq ∨ q = dq) (x : Str) (k : Nat)
    (hx : x.any (fun c => unescapedBreaks.contains c) = false) :
    (enc3 T q k x).any isLineBreak = false := by
  obtain ⟨_, _, _, _, _, hql, _⟩ := quote_cases hq
  induction x generalizing k with
  | nil => cases k <;> simp [enc3]
  | cons c r ih =>
    simp only [List.any_cons, Bool.or_eq_false_iff] at hx
    cases k with
    | succ k => simpa [enc3] using ih k hx.2
    | zero =>
      by_cases ht : c = q ∧ r.take 2 = [q, q]
      · simp only [enc3, ht, and_self, if_true]
        apply any_append_false _ (ih 2 hx.2)
        have : isLineBreak bs = false := by decide
        simp [rep3, this, hql]
      · simp only [enc3, ht, if_false]
        exact any_append_false (noBreak_encT ok hx.1) (ih 0 hx.2)


theorem replaceGo_not_infix (pat rep : Str) (hp : pat ≠ []) (y : Str) (h : isInfix pat y = false) :
    replaceGo pat rep 0 y = y := by
  induction y with
  | nil => rfl
  | cons c r ih =>
    simp only [isInfix, Bool.or_eq_false_iff] at h
    simp only [replaceGo, h.1, Bool.false_eq_true, if_false]
    rw [ih h.2]

theorem mem_replaceGo {pat rep : Str} {k : Nat} {y : Str} {c : Char} (h : c ∈ replaceGo pat rep k y) :
    c ∈ rep ∨ c ∈ y := by
  induction y generalizing k with
  | nil => simp [replaceGo] at h
  | cons a r ih =>
    cases k with
    | succ k =>
      simp only [replaceGo] at h
      rcases ih h with e | e
      · exact Or.inl e
      · exact Or.inr (List.mem_cons_of_mem _ e)
    | zero =>
      simp only [replaceGo] at h
      split at h
      · rcases List.mem_append.mp h with e | e
        · exact Or.inl e
        · rcases ih e with e | e
          · exact Or.inl e
          · exact Or.inr (List.mem_cons_of_mem _ e)
      · rcases List.mem_cons.mp h with e | e
        · subst e; exact Or.inr (List.mem_cons_self ..)
        · rcases ih e with e | e
          · exact Or.inl e
          · exact Or.inr (List.mem_cons_of_mem _ e)

/-- the conditional passes of a non-raw literal with a TRIPLE quote are `enc3` -/
theorem escBody_nonraw3_full {T : Tables} (ok : TablesOk T) {q : Char} (hq : q = sq ∨ q = dq) (s0 : Str) (d : Bool) :
    escBody T s0 [q, q, q] [q, q, q] (s0 ++ dirTail d) = enc3 T q 0 (s0 ++ dirTail d) := by
  obtain ⟨hqb, _, hqs, _, hqk, _, _⟩ := quote_cases hq
  have hraw : isRawStart [q, q, q] = false := by rcases hq with h | h <;> subst h <;> decide
  have hrep : ([q, q, q].flatMap fun c => [bs, c]) = rep3 q := by simp [rep3]
  have hdbl : ∀ x : Str, replaceAll [bs] [bs, bs] x = x.flatMap dblc := by
    intro x; rw [replaceAll_single]; rfl
  simp only [escBody, hraw, List.isEmpty_cons, Bool.not_false, Bool.false_and, Bool.true_and, Bool.false_eq_true,
    if_false, if_true, hrep, hdbl]
  generalize hx : s0 ++ dirTail d = x
  have hpass2 : (if isInfix [q, q, q] (x.flatMap dblc) = true then replaceAll [q, q, q] (rep3 q) (x.flatMap dblc)
      else x.flatMap dblc) = replaceGo [q, q, q] (rep3 q) 0 (x.flatMap dblc) := by
    split
    · simp [replaceAll]
    · rename_i h
      rw [replaceGo_not_infix _ _ (by simp) _ (by simpa using h)]
  rw [hpass2]
  by_cases hc : hasCtrl T s0 = true
  · simp only [hc, if_true]
    exact passes3 ok hq x 0 (by simp)
  · have hc' : hasCtrl T s0 = false := by simpa using hc
    simp only [hc', Bool.false_eq_true, if_false]
    rw [← passes3 ok hq x 0 (by simp)]
    unfold translate
    symm
    apply flatMap_id_of
    intro c hcm
    have hsrc : c = bs ∨ c = q ∨ c ∈ x := by
      rcases mem_replaceGo hcm with e | e
      · simp only [rep3, List.mem_cons, List.mem_nil_iff, or_false] at e
        rcases e with e | e | e | e | e | e
        · exact Or.inl e
        · exact Or.inr (Or.inl e)
        · exact Or.inl e
        · exact Or.inr (Or.inl e)
        · exact Or.inl e
        · exact Or.inr (Or.inl e)
      · obtain ⟨a, ha, hca⟩ := List.mem_flatMap.mp e
        unfold dblc at hca
        by_cases h1 : a = bs
        · simp [h1] at hca; exact Or.inl hca
        · simp [h1] at hca; subst hca; exact Or.inr (Or.inr ha)
    have hnk : escapedCtrl.contains c = false := by
      rcases hsrc with e | e | e
      · subst e; decide
      · subst e; exact hqk
      · rw [← hx] at e
        rcases List.mem_append.mp e with e | e
        · rw [ok.hasCtrl_eq] at hc'
          have := List.any_eq_false.mp hc' c e
          simpa using this
        · rw [mem_dirTail e]; decide
    simp [ok.notKey hnk]

/-- the triple-quote tokenizer on a RAW body without the literal three-quote sequence, not ending in the
quote character or a backslash -/
theorem scan3_raw_full {q : Char} (hq : q = sq ∨ q = dq) (v rest : Str) (esc : Bool)
    (hinf : isInfix [q, q, q] v = false) (he : v = [] → esc = false) (hlb : v.getLast? ≠ some bs)
    (hlq : v.getLast? ≠ some q) :
    scan3 q esc (v ++ q :: q :: q :: rest) = some (v, rest) := by
  obtain ⟨hqb, _, _, _, _, _, _⟩ := quote_cases hq
  induction v generalizing esc with
  | nil =>
    rw [he rfl]
    simp [scan3, hqb]
  | cons c t ih =>
    simp only [isInfix, Bool.or_eq_false_iff] at hinf
    have hlbt : t.getLast? ≠ some bs := by
      cases t with
      | nil => simp
      | cons d r => rwa [List.getLast?_cons_cons] at hlb
    have hlqt : t.getLast? ≠ some q := by
      cases t with
      | nil => simp
      | cons d r => rwa [List.getLast?_cons_cons] at hlq
    cases esc with
    | true =>
      simp only [List.cons_append, scan3]
      rw [ih false hinf.2 (fun _ => rfl) hlbt hlqt]; rfl
    | false =>
      by_cases hcb : c = bs
      · subst hcb
        have htne : t ≠ [] := by
          intro h; subst h; simp at hlb
        simp only [List.cons_append, scan3, beq_self_eq_true, if_true]
        rw [ih true hinf.2 (fun h => absurd h htne) hlbt hlqt]; rfl
      · by_cases hcq : c = q
        · subst hcq
          have hnext : ((t ++ c :: c :: c :: rest).take 2 == [c, c]) = false := by
            apply beq_eq_false_iff_ne.mpr
            have hp := hinf.1
            match t, hlq, hp with
            | [], hlq, _ => simp at hlq
            | [d], hlq, _ =>
              have : d ≠ c := by intro e; subst e; simp at hlq
              simp [this]
            | d :: e :: r', _, hp =>
              simp only [List.isPrefixOf, beq_self_eq_true, Bool.true_and, Bool.and_true, Bool.and_eq_false_iff,
                beq_eq_false_iff_ne, ne_eq] at hp
              simp only [List.cons_append, List.take_succ_cons, List.take_zero, ne_eq, List.cons.injEq, and_true,
                not_and]
              intro h1 h2
              rcases hp with h | h
              · exact h h1.symm
              · exact h h2.symm
          simp only [List.cons_append, scan3, hcb, beq_self_eq_true, Bool.true_and, hnext, Bool.false_eq_true,
            if_false, beq_iff_eq]
          rw [ih false hinf.2 (fun _ => rfl) hlbt hlqt]; rfl
        · have : (c == q) = false := beq_eq_false_iff_ne.mpr hcq
          simp only [List.cons_append, scan3, beq_iff_eq, hcb, this, Bool.false_and, Bool.false_eq_true, if_false]
          rw [ih false hinf.2 (fun _ => rfl) hlbt hlqt]; rfl

theorem prefix_qq_snoc {q a : Char} (ha : a ≠ q) (r : Str) :
    [q, q].isPrefixOf (r ++ [a]) = [q, q].isPrefixOf r := by
  have hqa : (q == a) = false := beq_eq_false_iff_ne.mpr (Ne.symm ha)
  match r with
  | [] => simp [List.isPrefixOf, hqa]
  | [d] => simp [List.isPrefixOf, hqa]
  | d :: e :: r' => simp [List.isPrefixOf]

/-- appending a character other than the quote creates no three-quote sequence -/
theorem isInfix_qqq_snoc {q a : Char} (ha : a ≠ q) (s : Str) :
    isInfix [q, q, q] (s ++ [a]) = isInfix [q, q, q] s := by
  have hqa : (q == a) = false := beq_eq_false_iff_ne.mpr (Ne.symm ha)
  induction s with
  | nil => simp [isInfix, List.isPrefixOf, hqa]
  | cons c r ih =>
    simp only [List.cons_append, isInfix, ih]
    congr 1
    simp only [List.isPrefixOf]
    rw [prefix_qq_snoc ha r]


/-- reading a NON-raw triple-quoted literal produced by the triple-quote passes -/
theorem readBack_nonraw3_full {T : Tables} (ok : TablesOk T) {q : Char} (hq : q = sq ∨ q = dq) (E : Env) (v sp : Str)
    (hsp : sp.all (· == ' ') = true) (hv : v.any (fun c => unescapedBreaks.contains c) = false)
    (hl : v.getLast? ≠ some q) (hexp : expandPath T E v = v) :
    readBack T E (q :: q :: q :: (enc3 T q 0 v ++ q :: q :: q :: sp)) = .args [v] := by
  obtain ⟨_, _, _, _, _, hql, _⟩ := quote_cases hq
  have hnb : (q :: q :: q :: (enc3 T q 0 v ++ q :: q :: q :: sp)).any isLineBreak = false := by
    simp only [List.any_cons, hql, Bool.false_or]
    apply any_append_false (noBreak_enc3 ok hq v 0 hv)
    simp only [List.any_cons, hql, Bool.false_or]
    exact all_space_noBreak sp hsp
  simp only [readBack, hnb, parseOpening_triple hq, Bool.false_eq_true, if_false, if_true, scan3_enc3 ok hq v sp 0 hl,
    hsp, Bool.not_true, unescape_enc3 ok hq v 0, List.drop_zero, hexp]

/-- reading a RAW triple-quoted literal whose body is the value itself (single quotes may occur in it) -/
theorem readBack_raw3_full {T : Tables} {q : Char} (hq : q = sq ∨ q = dq) (E : Env) (v sp : Str)
    (hsp : sp.all (· == ' ') = true) (hnb : v.any isLineBreak = false) (hinf : isInfix [q, q, q] v = false)
    (hlb : v.getLast? ≠ some bs) (hlq : v.getLast? ≠ some q) :
    readBack T E ('r' :: q :: q :: q :: (v ++ q :: q :: q :: sp)) = .args [v] := by
  obtain ⟨_, _, _, _, _, hql, _⟩ := quote_cases hq
  have hnb' : ('r' :: q :: q :: q :: (v ++ q :: q :: q :: sp)).any isLineBreak = false := by
    have : isLineBreak 'r' = false := by decide
    simp only [List.any_cons, hql, this, Bool.false_or]
    apply any_append_false hnb
    simp only [List.any_cons, hql, Bool.false_or]
    exact all_space_noBreak sp hsp
  simp only [readBack, hnb', parseOpening_raw_triple hq, Bool.false_eq_true, if_false, if_true,
    scan3_raw_full hq v sp false hinf (fun _ => rfl) hlb hlq, hsp, Bool.not_true]

theorem getLast?_append_dirTail_q {q : Char} (hq : q = sq ∨ q = dq) (s : Str) (d : Bool)
    (h : d = false → s.getLast? ≠ some q) : (s ++ dirTail d).getLast? ≠ some q := by
  obtain ⟨_, _, hqs, _, _, _, _⟩ := quote_cases hq
  cases d with
  | true =>
    simp only [dirTail, if_true, List.getLast?_concat, ne_eq, Option.some.injEq]
    exact fun e => hqs e.symm
  | false => simpa [dirTail] using h rfl


/-- without the six extra line boundaries in the text, both variants of the escape table escape the same characters -/
theorem any_isCtrl (se : Bool) (s : Str) (hB : s.any (fun c => unescapedBreaks.contains c) = false) :
    s.any (isCtrl se) = s.any (fun c => escapedCtrl.contains c) := by
  induction s with
  | nil => rfl
  | cons c r ih =>
    simp only [List.any_cons, Bool.or_eq_false_iff] at hB
    simp only [List.any_cons, ih hB.2, isCtrl, hB.1, Bool.and_false, Bool.or_false]

/-! ## the round trip per style, from the facts `styleClasses = []` provides -/

theorem when_nil {b : Bool} {c : Cls} : PathQuote.when b c = [] ↔ b = false := by cases b <;> simp [PathQuote.when]

theorem needsRaw_eq {T : Tables} (ok : TablesOk T) (s : Str) :
    needsRaw T s = ((s.contains bs || s.contains '$') && !(s.any fun c => escapedCtrl.contains c)) := by
  simp [needsRaw, ok.hasCtrl_eq]

theorem wrap_text (start body : Str) (q : Str) (d ap : Bool) (hq : q.isEmpty = false) :
    wrap start q body d ap ++ (if ap then [] else q) = start ++ (body ++ (q ++ (if !d && ap then [' '] else []))) := by
  cases ap <;> cases d <;> simp [wrap, hq]

theorem sp_all (d ap : Bool) : (if !d && ap then [' '] else ([] : Str)).all (· == ' ') = true := by
  cases d <;> cases ap <;> rfl

theorem noUB_append_dirTail {s : Str} (d : Bool) (h : s.any (fun c => unescapedBreaks.contains c) = false) :
    (s ++ dirTail d).any (fun c => unescapedBreaks.contains c) = false := by
  apply any_append_false h
  cases d <;> simp [dirTail] <;> decide

theorem noBreak_append_dirTail {s : Str} (d : Bool) (h : s.any isLineBreak = false) :
    (s ++ dirTail d).any isLineBreak = false := by
  apply any_append_false h
  cases d <;> simp [dirTail] <;> decide

theorem not_mem_append_dirTail {q : Char} (hq : q = sq ∨ q = dq) {s : Str} (d : Bool) (h : q ∉ s) : q ∉ s ++ dirTail d := by
  obtain ⟨_, _, hqs, _, _, _, _⟩ := quote_cases hq
  intro hm
  rcases List.mem_append.mp hm with e | e
  · exact h e
  · exact hqs (mem_dirTail e)

/-- the user opened (or the completer chose) a one-character quote -/
theorem core_q1 {T : Tables} (ok : TablesOk T) (E : Env) (se : Bool) (name : Str) {q : Char} (hq : q = sq ∨ q = dq)
    (start0 : Str) (hst : start0 = [q] ∨ start0 = ['r', q]) (dfs ap : Bool)
    (hA : normName name = name) (hB : name.any (fun c => unescapedBreaks.contains c) = false)
    (hg : styleClasses T E se name start0 [q] dfs = []) :
    readBack T E (regular T E name start0 [q] dfs ap ++ (if ap then [] else [q])) =
      .args [name ++ dirTail (isDirEff T E name name dfs)] := by
  obtain ⟨hqb, _, hqs, _, hqk, _, _⟩ := quote_cases hq
  have hr1 : isRawStart [q] = false := by rcases hq with h | h <;> subst h <;> decide
  have hr2 : isRawStart ['r', q] = true := by simp [isRawStart]
  have hne : start0.isEmpty = false := by rcases hst with h | h <;> subst h <;> rfl
  generalize hd : isDirEff T E name name dfs = d at *
  simp only [regular, hA, hd]
  simp only [styleClasses, hA, any_isCtrl se name hB, hd, hne, Bool.false_and, Bool.false_eq_true, if_false, List.isEmpty_cons,
    Bool.not_false, Bool.true_and] at hg
  have hauto : autoQuote T name start0 [q] = (start0, [q]) := by simp [autoQuote, hne]
  have htail : tailOf [q] d = dirTail d := tailOf_quoted rfl d
  have hv : (if d = true then ['/'] else ([] : Str)) = dirTail d := rfl
  rw [hv] at hg
  by_cases hraw : (isRawStart start0 || ((name.contains bs || name.contains '$') && !(name.any fun c => escapedCtrl.contains c))) = true
  · -- a raw literal
    simp only [hraw, if_true, List.append_eq_nil_iff, when_nil] at hg
    obtain ⟨⟨⟨⟨⟨h1, h2⟩, h3⟩, _⟩, _⟩, _⟩ := hg
    have heff : effStart T name start0 = ['r', q] := by
      rcases hst with h | h <;> subst h
      · have : needsRaw T name = true := by
          rw [needsRaw_eq ok]; simpa [hr1] using hraw
        simp [effStart, hr1, this]
      · simp [effStart, hr2]
    have hctrl : hasCtrl T name = false := by rw [ok.hasCtrl_eq]; exact h3
    have hqn : q ∉ name := by
      intro hm
      rw [isInfix_singleton] at h2
      rw [List.contains_iff_mem.mpr hm] at h2
      exact absurd h2 (by decide)
    have hlast : (name ++ dirTail d).getLast? ≠ some bs := by
      apply getLast?_append_dirTail
      intro hdf
      rw [hdf] at h1
      intro hl
      have := (endsWith_bs_iff name).mpr hl
      simp [this] at h1
    have hbody : escBody T name ['r', q] [q] (name ++ dirTail d) = name ++ dirTail d := by
      apply escBody_raw _ _ _ _ _ _ hctrl hr2
      · cases hh : endsWith (name ++ dirTail d) [bs] with
        | false => rfl
        | true => exact absurd ((endsWith_bs_iff _).mp hh) hlast
      · exact isInfix_false_of_not_mem (List.mem_cons_self ..) (not_mem_append_dirTail hq d hqn)
    simp only [quoteOne, hauto, heff, htail, hbody]
    rw [wrap_text _ _ [q] d ap rfl]
    have hnb : (name ++ dirTail d).any isLineBreak = false :=
      noBreak_append_dirTail d (noBreak_of hB h3)
    exact readBack_raw1 hq E (name ++ dirTail d) _ (sp_all d ap) hnb (not_mem_append_dirTail hq d hqn) hlast
  · -- a non-raw literal: the opening is the bare quote
    have hraw' : (isRawStart start0 || ((name.contains bs || name.contains '$') && !(name.any fun c => escapedCtrl.contains c))) = false := by
      simpa using hraw
    simp only [hraw', Bool.false_eq_true, if_false, List.append_eq_nil_iff, when_nil] at hg
    obtain ⟨⟨h1, h2⟩, _⟩ := hg
    have hs0 : start0 = [q] := by
      rcases hst with h | h
      · exact h
      · subst h; simp [hr2] at hraw'
    subst hs0
    have hnr : needsRaw T name = false := by
      rw [needsRaw_eq ok]; simpa [hr1] using hraw'
    have heff : effStart T name [q] = [q] := by simp [effStart, hnr]
    have hexp : expandPath T E (name ++ dirTail d) = name ++ dirTail d := by
      have e1 : expandVars T E (name ++ dirTail d) = name ++ dirTail d := by simpa using h1
      simpa [e1] using h2
    simp only [quoteOne, hauto, heff, htail, escBody_nonraw1 ok hq]
    rw [wrap_text _ _ [q] d ap rfl]
    exact readBack_nonraw1 ok hq E (name ++ dirTail d) _ (sp_all d ap) (noUB_append_dirTail d hB) hexp

/-- the user opened a triple quote (and the name does not contain that quote character) -/
theorem core_q3 {T : Tables} (ok : TablesOk T) (E : Env) (se : Bool) (name : Str) {q : Char} (hq : q = sq ∨ q = dq)
    (dfs : Bool) (hqn : q ∉ name)
    (hA : normName name = name) (hB : name.any (fun c => unescapedBreaks.contains c) = false)
    (hg : styleClasses T E se name [q, q, q] [q, q, q] dfs = []) :
    readBack T E (regular T E name [q, q, q] [q, q, q] dfs true) =
      .args [name ++ dirTail (isDirEff T E name name dfs)] := by
  obtain ⟨hqb, _, hqs, _, hqk, _, _⟩ := quote_cases hq
  have hr1 : isRawStart [q, q, q] = false := by rcases hq with h | h <;> subst h <;> decide
  have hr2 : isRawStart ['r', q, q, q] = true := by simp [isRawStart]
  generalize hd : isDirEff T E name name dfs = d at *
  simp only [regular, hA, hd]
  simp only [styleClasses, hA, any_isCtrl se name hB, hd, Bool.false_and, Bool.false_eq_true, if_false, List.isEmpty_cons,
    Bool.not_false, Bool.true_and, hr1, Bool.false_or] at hg
  have hauto : autoQuote T name [q, q, q] [q, q, q] = ([q, q, q], [q, q, q]) := by simp [autoQuote]
  have htail : tailOf [q, q, q] d = dirTail d := tailOf_quoted rfl d
  have hv : (if d = true then ['/'] else ([] : Str)) = dirTail d := rfl
  rw [hv] at hg
  have hwrap : ∀ (start body : Str), wrap start [q, q, q] body d true =
      start ++ (body ++ q :: q :: q :: (if !d then [' '] else [])) := by
    intro start body; cases d <;> simp [wrap]
  have hsp : (if !d then [' '] else ([] : Str)).all (· == ' ') = true := by cases d <;> rfl
  by_cases hraw : ((name.contains bs || name.contains '$') && !(name.any fun c => escapedCtrl.contains c)) = true
  · simp only [hraw, if_true, List.append_eq_nil_iff, when_nil] at hg
    obtain ⟨⟨⟨⟨⟨h1, _⟩, h3⟩, _⟩, _⟩, _⟩ := hg
    have heff : effStart T name [q, q, q] = ['r', q, q, q] := by
      have : needsRaw T name = true := by rw [needsRaw_eq ok]; exact hraw
      simp [effStart, hr1, this]
    have hctrl : hasCtrl T name = false := by rw [ok.hasCtrl_eq]; exact h3
    have hlast : (name ++ dirTail d).getLast? ≠ some bs := by
      apply getLast?_append_dirTail
      intro hdf
      rw [hdf] at h1
      intro hl
      have := (endsWith_bs_iff name).mpr hl
      simp [this] at h1
    have hbody : escBody T name ['r', q, q, q] [q, q, q] (name ++ dirTail d) = name ++ dirTail d := by
      apply escBody_raw _ _ _ _ _ _ hctrl hr2
      · cases hh : endsWith (name ++ dirTail d) [bs] with
        | false => rfl
        | true => exact absurd ((endsWith_bs_iff _).mp hh) hlast
      · exact isInfix_false_of_not_mem (List.mem_cons_self ..) (not_mem_append_dirTail hq d hqn)
    simp only [quoteOne, hauto, heff, htail, hbody, hwrap]
    exact readBack_raw3 hq E (name ++ dirTail d) _ hsp (noBreak_append_dirTail d (noBreak_of hB h3))
      (not_mem_append_dirTail hq d hqn) hlast
  · have hraw' : ((name.contains bs || name.contains '$') && !(name.any fun c => escapedCtrl.contains c)) = false := by
      simpa using hraw
    simp only [hraw', Bool.false_eq_true, if_false, List.append_eq_nil_iff, when_nil] at hg
    obtain ⟨⟨h1, h2⟩, _⟩ := hg
    have hnr : needsRaw T name = false := by rw [needsRaw_eq ok]; exact hraw'
    have heff : effStart T name [q, q, q] = [q, q, q] := by simp [effStart, hnr]
    have hexp : expandPath T E (name ++ dirTail d) = name ++ dirTail d := by
      have e1 : expandVars T E (name ++ dirTail d) = name ++ dirTail d := by simpa using h1
      simpa [e1] using h2
    simp only [quoteOne, hauto, heff, htail, escBody_nonraw3 ok hq name d hqn, hwrap]
    exact readBack_nonraw3 ok hq E (name ++ dirTail d) _ hsp (noUB_append_dirTail d hB) hexp

theorem quoteToUseRef_cases (s : Str) : quoteToUseRef s = [sq] ∨ quoteToUseRef s = [dq] := by
  unfold quoteToUseRef
  split <;> simp

/-- characters of a name that needs no quotes -/
theorem plain_chars {T : Tables} (ok : TablesOk T) {s : Str} (hn : needsQuotes T s = false) :
    s.any (fun c => bareUnsafe.contains c) = false := by
  simp only [needsQuotes, Bool.or_eq_false_iff] at hn
  obtain ⟨⟨h1, _⟩, h3⟩ := hn
  rw [List.any_eq_false] at h1 ⊢
  intro c hc hu
  have := List.all_eq_true.mp ok.unsafeSpecial c (List.contains_iff_mem.mp hu)
  simp only [Bool.or_eq_true, beq_iff_eq] at this
  rcases this with e | e
  · subst e
    rw [List.contains_iff_mem.mpr hc] at h3
    exact absurd h3 (by decide)
  · exact h1 c hc e

/-- nothing opened -/
theorem core_bare {T : Tables} (ok : TablesOk T) (E : Env) (se : Bool) (name : Str) (hname : name ≠ []) (dfs : Bool)
    (hA : normName name = name) (hB : name.any (fun c => unescapedBreaks.contains c) = false)
    (hg : styleClasses T E se name [] [] dfs = []) :
    readBack T E (regular T E name [] [] dfs true) = .args [name ++ dirTail (isDirEff T E name name dfs)] := by
  by_cases hn : needsQuotes T name = true
  · -- the completer chooses a quote itself: as if the user had opened it
    have hqu : T.quoteToUse name = quoteToUseRef name := ok.quoteToUse name
    have hreg : regular T E name [] [] dfs true = regular T E name (quoteToUseRef name) (quoteToUseRef name) dfs true := by
      simp only [regular, hA]
      rw [quoteOne_auto _ _ _ hn (by rw [hqu]; rcases quoteToUseRef_cases name with h | h <;> rw [h] <;> rfl), hqu]
    have hcls : styleClasses T E se name (quoteToUseRef name) (quoteToUseRef name) dfs = [] := by
      rw [← hg]
      rcases quoteToUseRef_cases name with h | h <;>
        simp [styleClasses, hA, hn, h]
    rw [hreg]
    rcases quoteToUseRef_cases name with h | h <;> rw [h] at hcls ⊢
    · simpa using core_q1 ok E se name (Or.inl rfl) [sq] (Or.inl rfl) dfs true hA hB hcls
    · simpa using core_q1 ok E se name (Or.inr rfl) [dq] (Or.inl rfl) dfs true hA hB hcls
  · have hn' : needsQuotes T name = false := by simpa using hn
    have hsafe := plain_chars ok hn'
    generalize hd : isDirEff T E name name dfs = d at *
    simp only [styleClasses, hA, any_isCtrl se name hB, hd, hn', Bool.and_false, Bool.false_eq_true, if_false, List.isEmpty_nil, if_true,
      List.append_eq_nil_iff, when_nil] at hg
    obtain ⟨⟨⟨h1, h2⟩, h3⟩, h4⟩ := hg
    have hv : (if d = true then ['/'] else ([] : Str)) = dirTail d := rfl
    rw [hv] at h4
    have hexp : expandPath T E (name ++ dirTail d) = name ++ dirTail d := by simpa using h4
    have hbang : bangSplit name = none := by
      cases hb : bangSplit name with
      | none => rfl
      | some x => simp [hb] at h1
    -- no control characters: they are special
    have hctrl : hasCtrl T name = false := by
      rw [ok.hasCtrl_eq, List.any_eq_false]
      intro c hc hk
      have hu : bareUnsafe.contains c = true := by
        have : c ∈ escapedCtrl := List.contains_iff_mem.mp hk
        simp only [escapedCtrl, List.mem_cons, List.mem_nil_iff, or_false] at this
        rcases this with e | e | e | e | e <;> subst e <;> decide
      exact List.any_eq_false.mp hsafe c hc hu
    have hnb : name.any isLineBreak = false := by
      rw [List.any_eq_false]
      intro c hc hb
      rcases lineBreak_cases hb with h | h
      · have hu : bareUnsafe.contains c = true := by
          have : c ∈ escapedCtrl := List.contains_iff_mem.mp h
          simp only [escapedCtrl, List.mem_cons, List.mem_nil_iff, or_false] at this
          rcases this with e | e | e | e | e <;> subst e <;> decide
        exact List.any_eq_false.mp hsafe c hc hu
      · exact List.any_eq_false.mp hB c hc h
    have hkw : readerKeywords.contains name = false := by
      cases hk : readerKeywords.contains name with
      | false => rfl
      | true =>
        have := List.all_eq_true.mp ok.kwQuoted name (List.contains_iff_mem.mp hk)
        rw [hn'] at this
        exact absurd this (by decide)
    simp only [regular, hA, hd, quoteOne_bare name d true hn' hctrl]
    have hslash := ok.slashPlain
    simp only [Bool.or_eq_false_iff] at hslash
    cases d with
    | false =>
      have := readBack_bare (T := T) E name [' '] (Or.inr rfl) hname hsafe hnb hbang h2 hkw h3 (by simpa [dirTail] using hexp)
      simpa [dirTail] using this
    | true =>
      have hw : name ++ ['/'] ≠ [] := by simp
      have hsafe' : (name ++ ['/']).any (fun c => bareUnsafe.contains c) = false :=
        any_append_false hsafe (by decide)
      have hnb' : (name ++ ['/']).any isLineBreak = false := any_append_false hnb (by decide)
      have hodd' : (name ++ ['/']).any (oddChar T) = false := any_append_false h2 (by simp [hslash.1])
      have hkw' : readerKeywords.contains (name ++ ['/']) = false := by
        cases hk : readerKeywords.contains (name ++ ['/']) with
        | false => rfl
        | true =>
          have hm := List.contains_iff_mem.mp hk
          simp only [readerKeywords, List.mem_cons, List.mem_nil_iff, or_false] at hm
          rcases hm with e | e
          · have := congrArg List.getLast? e
            simp at this
          · have := congrArg List.getLast? e
            simp at this
      have := readBack_bare (T := T) E (name ++ ['/']) [] (Or.inl rfl) hw hsafe' hnb' (bangSplit_snoc_slash name hbang)
        hodd' hkw' (pyStmt_snoc_slash name hname h3) (by simpa [dirTail] using hexp)
      simpa [dirTail] using this


/-- the user opened a triple quote -/
theorem core_q3_full {T : Tables} (ok : TablesOk T) (E : Env) (se : Bool) (name : Str) {q : Char} (hq : q = sq ∨ q = dq)
    (dfs ap : Bool)
    (hA : normName name = name) (hB : name.any (fun c => unescapedBreaks.contains c) = false)
    (hg : styleClasses T E se name [q, q, q] [q, q, q] dfs = []) :
    readBack T E (regular T E name [q, q, q] [q, q, q] dfs ap ++ (if ap then [] else [q, q, q])) =
      .args [name ++ dirTail (isDirEff T E name name dfs)] := by
  obtain ⟨hqb, _, hqs, _, hqk, _, _⟩ := quote_cases hq
  have hr1 : isRawStart [q, q, q] = false := by rcases hq with h | h <;> subst h <;> decide
  have hr2 : isRawStart ['r', q, q, q] = true := by simp [isRawStart]
  generalize hd : isDirEff T E name name dfs = d at *
  simp only [regular, hA, hd]
  simp only [styleClasses, hA, any_isCtrl se name hB, hd, Bool.false_and, Bool.false_eq_true, if_false, List.isEmpty_cons,
    Bool.not_false, Bool.true_and, hr1, Bool.false_or] at hg
  have hauto : autoQuote T name [q, q, q] [q, q, q] = ([q, q, q], [q, q, q]) := by simp [autoQuote]
  have htail : tailOf [q, q, q] d = dirTail d := tailOf_quoted rfl d
  have hv : (if d = true then ['/'] else ([] : Str)) = dirTail d := rfl
  rw [hv] at hg
  have hwrap : ∀ (start body : Str), wrap start [q, q, q] body d ap ++ (if ap then [] else [q, q, q]) =
      start ++ (body ++ q :: q :: q :: (if !d && ap then [' '] else [])) := by
    intro start body
    rw [wrap_text _ _ [q, q, q] d ap rfl]; simp
  have hsp : (if !d && ap then [' '] else ([] : Str)).all (· == ' ') = true := sp_all d ap
  have hlastq : ∀ (h4 : ([q, q, q].length == 3 && !d && name.getLast? == some ([q, q, q].head?.getD sq)) = false),
      (name ++ dirTail d).getLast? ≠ some q := by
    intro h4
    apply getLast?_append_dirTail_q hq
    intro hdf hl
    rw [hdf, hl] at h4
    simp at h4
  by_cases hraw : ((name.contains bs || name.contains '$') && !(name.any fun c => escapedCtrl.contains c)) = true
  · simp only [hraw, if_true, List.append_eq_nil_iff, when_nil] at hg
    obtain ⟨⟨⟨⟨⟨h1, h2⟩, h3⟩, h4⟩, _⟩, _⟩ := hg
    have heff : effStart T name [q, q, q] = ['r', q, q, q] := by
      have : needsRaw T name = true := by rw [needsRaw_eq ok]; exact hraw
      simp [effStart, hr1, this]
    have hctrl : hasCtrl T name = false := by rw [ok.hasCtrl_eq]; exact h3
    have hlast : (name ++ dirTail d).getLast? ≠ some bs := by
      apply getLast?_append_dirTail
      intro hdf
      rw [hdf] at h1
      intro hl
      have := (endsWith_bs_iff name).mpr hl
      simp [this] at h1
    have hinf : isInfix [q, q, q] (name ++ dirTail d) = false := by
      cases d with
      | false => simpa [dirTail] using h2
      | true =>
        simp only [dirTail, if_true]
        rw [isInfix_qqq_snoc (Ne.symm hqs)]; exact h2
    have hbody : escBody T name ['r', q, q, q] [q, q, q] (name ++ dirTail d) = name ++ dirTail d := by
      apply escBody_raw _ _ _ _ _ hinf hctrl hr2
      cases hh : endsWith (name ++ dirTail d) [bs] with
      | false => rfl
      | true => exact absurd ((endsWith_bs_iff _).mp hh) hlast
    simp only [quoteOne, hauto, heff, htail, hbody, hwrap]
    exact readBack_raw3_full hq E (name ++ dirTail d) _ hsp (noBreak_append_dirTail d (noBreak_of hB h3))
      hinf hlast (hlastq h4)
  · have hraw' : ((name.contains bs || name.contains '$') && !(name.any fun c => escapedCtrl.contains c)) = false := by
      simpa using hraw
    simp only [hraw', Bool.false_eq_true, if_false, List.append_eq_nil_iff, when_nil] at hg
    obtain ⟨⟨h1, h2⟩, h4⟩ := hg
    have hnr : needsRaw T name = false := by rw [needsRaw_eq ok]; exact hraw'
    have heff : effStart T name [q, q, q] = [q, q, q] := by simp [effStart, hnr]
    have hexp : expandPath T E (name ++ dirTail d) = name ++ dirTail d := by
      have e1 : expandVars T E (name ++ dirTail d) = name ++ dirTail d := by simpa using h1
      simpa [e1] using h2
    simp only [quoteOne, hauto, heff, htail, escBody_nonraw3_full ok hq name d, hwrap]
    exact readBack_nonraw3_full ok hq E (name ++ dirTail d) _ hsp (noUB_append_dirTail d hB) (hlastq h4) hexp


end PathQuote
