/-
Helper lemmas for C07 (model only — no generated tables are imported here).
-/
import XonshVerif.Model.Redir
set_option linter.unusedSimpArgs false
set_option linter.unusedVariables false
namespace Redir

abbrev Slots := Option Slot × Option Slot × Option Slot

/-! ## the single-assignment slots -/

theorem setSlot_ok (e : Err) (cur new r : Option Slot) :
    setSlot e cur new = .ok r ↔ (cur.toList ++ new.toList).length ≤ 1 ∧ r = (cur.toList ++ new.toList).head? := by
  cases cur <;> cases new <;> simp [setSlot, eq_comm]

theorem setSlot_err (e : Err) (cur new : Option Slot) :
    (∃ x, setSlot e cur new = .error x) ↔ 2 ≤ (cur.toList ++ new.toList).length := by
  cases cur <;> cases new <;> simp [setSlot]

/-- the assignments of a list of decoded redirects, in order -/
def foldT : List Slots → Slots → Except Err Slots
  | [], s => .ok s
  | (ni, no, ne) :: rest, (i, o, e) =>
    match setSlot .multiStdin i ni with
    | .error x => .error x
    | .ok i' =>
      match setSlot .multiStdout o no with
      | .error x => .error x
      | .ok o' =>
        match setSlot .multiStderr e ne with
        | .error x => .error x
        | .ok e' => foldT rest (i', o', e')

def ins (xs : List Slots) : List Slot := xs.filterMap (·.1)
def outs (xs : List Slots) : List Slot := xs.filterMap (·.2.1)
def errs (xs : List Slots) : List Slot := xs.filterMap (·.2.2)

/-- CONFLICTS ARE ERRORS, for every list of assignments: the fold succeeds iff no slot receives two values, and
then every slot holds its only value -/
theorem foldT_ok (xs : List Slots) (i o e i' o' e' : Option Slot) :
    foldT xs (i, o, e) = .ok (i', o', e') ↔
      ((i.toList ++ ins xs).length ≤ 1 ∧ (o.toList ++ outs xs).length ≤ 1 ∧ (e.toList ++ errs xs).length ≤ 1) ∧
      i' = (i.toList ++ ins xs).head? ∧ o' = (o.toList ++ outs xs).head? ∧ e' = (e.toList ++ errs xs).head? := by
  induction xs generalizing i o e with
  | nil => cases i <;> cases o <;> cases e <;> simp [foldT, ins, outs, errs, eq_comm]
  | cons x rest ih =>
    obtain ⟨ni, no, ne⟩ := x
    cases i <;> cases o <;> cases e <;> cases ni <;> cases no <;> cases ne <;>
      simp [foldT, setSlot, ih, ins, outs, errs] <;> omega

/-! ## decoding one redirect -/

/-- the streams of a well-formed redirect -/
def tripleOf : Op × Option Nat → Slots
  | (.input, some t) => (some (.file t ['r']), none, none)
  | (.outFile a, some t) => (none, some (.file t (modeOf a)), none)
  | (.errFile a, some t) => (none, none, some (.file t (modeOf a)))
  | (.allFile a, some t) => (none, some (.file t (modeOf a)), some (.file t (modeOf a)))
  | (.errToOut, _) => (none, none, some .toStdout)
  | (.outToErr, _) => (none, some .fd2, none)
  | (.allToPipe, _) => (none, some .pipeAll, some .toStdout)
  | (.errToPipe, _) => (none, none, some .pipeErr)
  | _ => (none, none, none)

def isMergeOrPipe : Op → Bool
  | .errToOut | .outToErr | .allToPipe | .errToPipe => true
  | _ => false

/-- a redirect as the grammar can produce it and as the tables decode it: a documented operator `op`, decoded by the
tables to the class of `op`; merge / pipe operators carry no target word (p_subproc_atom_redirect: a lone IOREDIRECT2) -/
def Good (T : Tables) (p : Str × Loc) : Prop :=
  ∃ op, specDecode p.1 = some op ∧ classify T p.1 = .ok (clsOf op) ∧ (isMergeOrPipe op = true → ∀ t, p.2 ≠ .one t)

theorem modeOf_ne_r (a : Bool) : modeOf a ≠ ['r'] := by cases a <;> simp [modeOf]

theorem streams_wf (T : Tables) (ts : Nat → TState) (p : Str × Loc) (h : Good T p) :
    match wellFormed ts p.1 p.2 with
    | some w => redirectStreams T ts p.1 p.2 = .ok (tripleOf w)
    | none => ∃ e, redirectStreams T ts p.1 p.2 = .error e := by
  obtain ⟨r, loc⟩ := p
  obtain ⟨op, hd, hc, hs⟩ := h
  simp only at hd hc hs
  simp only [wellFormed, hd, redirectStreams, hc]
  cases loc with
  | none => cases op <;> simp_all [clsOf, safeOpen, tripleOf, isMergeOrPipe, modeOf, Except.map]
  | many => cases op <;> simp_all [clsOf, safeOpen, tripleOf, isMergeOrPipe, modeOf, Except.map]
  | one t =>
    cases hts : ts t <;> cases op with
    | outFile a => cases a <;> simp_all [clsOf, safeOpen, tripleOf, isMergeOrPipe, modeOf, Except.map]
    | errFile a => cases a <;> simp_all [clsOf, safeOpen, tripleOf, isMergeOrPipe, modeOf, Except.map]
    | allFile a => cases a <;> simp_all [clsOf, safeOpen, tripleOf, isMergeOrPipe, modeOf, Except.map]
    | _ => simp_all [clsOf, safeOpen, tripleOf, isMergeOrPipe, modeOf, Except.map]

/-! ## all redirects of one command -/

/-- the well-formed redirects of a list, in order -/
def wfs (ts : Nat → TState) (rs : List (Str × Loc)) : List (Op × Option Nat) :=
  rs.filterMap fun p => wellFormed ts p.1 p.2

theorem applyRedirs_ok (T : Tables) (ts : Nat → TState) (rs : List (Str × Loc)) (hg : ∀ p ∈ rs, Good T p)
    (hw : ∀ p ∈ rs, (wellFormed ts p.1 p.2).isSome = true) (s : Slots) :
    applyRedirs T ts rs s = foldT ((wfs ts rs).map tripleOf) s := by
  induction rs generalizing s with
  | nil => simp [applyRedirs, wfs, foldT]
  | cons p rest ih =>
    obtain ⟨i, o, e⟩ := s
    have h1 := streams_wf T ts p (hg p (by simp))
    have h2 := hw p (by simp)
    cases hwf : wellFormed ts p.1 p.2 with
    | none => simp [hwf] at h2
    | some w =>
      simp only [hwf] at h1
      obtain ⟨r, loc⟩ := p
      simp only at h1 hwf
      simp only [applyRedirs, h1, wfs, List.filterMap_cons, hwf, List.map_cons, foldT]
      obtain ⟨ni, no, ne⟩ := tripleOf w
      simp only []
      cases setSlot .multiStdin i ni with
      | error x => rfl
      | ok i' =>
        cases setSlot .multiStdout o no with
        | error x => rfl
        | ok o' =>
          cases setSlot .multiStderr e ne with
          | error x => rfl
          | ok e' =>
            simp only []
            exact ih (fun q hq => hg q (by simp [hq])) (fun q hq => hw q (by simp [hq])) (i', o', e')

theorem applyRedirs_bad (T : Tables) (ts : Nat → TState) (rs : List (Str × Loc)) (hg : ∀ p ∈ rs, Good T p)
    (hb : ∃ p ∈ rs, wellFormed ts p.1 p.2 = none) (s : Slots) :
    ∃ x, applyRedirs T ts rs s = .error x := by
  induction rs generalizing s with
  | nil => simp at hb
  | cons p rest ih =>
    obtain ⟨i, o, e⟩ := s
    have h1 := streams_wf T ts p (hg p (by simp))
    obtain ⟨r, loc⟩ := p
    cases hwf : wellFormed ts r loc with
    | none =>
      simp only [hwf] at h1
      obtain ⟨x, hx⟩ := h1
      exact ⟨x, by simp [applyRedirs, hx]⟩
    | some w =>
      simp only [hwf] at h1
      have hb' : ∃ q ∈ rest, wellFormed ts q.1 q.2 = none := by
        obtain ⟨q, hq, hn⟩ := hb
        simp at hq
        rcases hq with rfl | hq
        · simp [hwf] at hn
        · exact ⟨q, hq, hn⟩
      simp only [applyRedirs, h1]
      obtain ⟨ni, no, ne⟩ := tripleOf w
      simp only []
      cases setSlot .multiStdin i ni with
      | error x => exact ⟨x, rfl⟩
      | ok i' =>
        cases setSlot .multiStdout o no with
        | error x => exact ⟨x, rfl⟩
        | ok o' =>
          cases setSlot .multiStderr e ne with
          | error x => exact ⟨x, rfl⟩
          | ok e' => exact ih (fun q hq => hg q (by simp [hq])) hb' (i', o', e')

/-! ## cmds_to_specs, position by position -/

def toOpt {α : Type} : Except Err α → Option α
  | .ok a => some a
  | .error _ => none

/-- `mapM` in `Option` with the position of the element -/
def mapMI {α β : Type} (f : Nat → α → Option β) : Nat → List α → Option (List β)
  | _, [] => some []
  | i, a :: rest =>
    match f i a, mapMI f (i + 1) rest with
    | some b, some bs => some (b :: bs)
    | _, _ => none

theorem mapMI_bind {α β γ : Type} (f : Nat → α → Option β) (g : Nat → β → Option γ) (i : Nat) (l : List α) :
    (mapMI f i l).bind (mapMI g i) = mapMI (fun i a => (f i a).bind (g i)) i l := by
  induction l generalizing i with
  | nil => simp [mapMI]
  | cons a rest ih =>
    simp only [mapMI]
    rw [← ih (i + 1)]
    cases hf : f i a with
    | none => simp
    | some b =>
      cases hr : mapMI f (i + 1) rest with
      | none => simp
      | some bs => simp [mapMI]

theorem mapMI_length {α β : Type} (f : Nat → α → Option β) (i : Nat) (l : List α) (out : List β)
    (h : mapMI f i l = some out) : out.length = l.length := by
  induction l generalizing i out with
  | nil => simp [mapMI] at h; simp [← h]
  | cons a rest ih =>
    simp only [mapMI] at h
    cases hf : f i a with
    | none => simp [hf] at h
    | some b =>
      cases hr : mapMI f (i + 1) rest with
      | none => simp [hf, hr] at h
      | some bs =>
        simp [hf, hr] at h
        simp [← h, ih (i + 1) bs hr]

/-- the incoming pipe of the stage at position i -/
def inAt (i : Nat) (s : Spec) : Option Spec :=
  if i = 0 then some s
  else
    match setSlot .multiStdin s.sin (some (.pipeR (i - 1))) with
    | .ok x => some { s with sin := x }
    | .error _ => none

/-- the outgoing pipe of the stage at position i of n -/
def outAt (n i : Nat) (s : Spec) : Option Spec :=
  if i + 1 < n then toOpt (wireUp i s) else some s

def wiredAt (n i : Nat) (s : Spec) : Option Spec := (inAt i s).bind (outAt n i)

theorem wireFrom_eq (rest : List Spec) (i : Nat) (up : Spec) (n : Nat) (hn : n = i + 1 + rest.length) :
    toOpt (wireFrom i up rest) =
      (match outAt n i up, mapMI (wiredAt n) (i + 1) rest with
       | some a, some b => some (a :: b)
       | _, _ => none) := by
  induction rest generalizing i up with
  | nil =>
    have : ¬ (i + 1 < n) := by simp at hn; omega
    simp [wireFrom, outAt, this, mapMI, toOpt]
  | cons dn rest' ih =>
    have h1 : i + 1 < n := by simp at hn; omega
    simp only [wireFrom, outAt, h1, if_true]
    cases hu : wireUp i up with
    | error x => simp [toOpt]
    | ok up' =>
      simp only [toOpt, mapMI, wiredAt, inAt]
      have : i + 1 ≠ 0 := by omega
      simp only [this, if_false, Nat.add_sub_cancel]
      cases hs : setSlot .multiStdin dn.sin (some (.pipeR i)) with
      | error x => simp [toOpt]
      | ok di =>
        simp only [Option.bind_some]
        have := ih (i + 1) { dn with sin := di } (by simp at hn ⊢; omega)
        cases hw : wireFrom (i + 1) { dn with sin := di } rest' with
        | error x =>
          rw [hw] at this
          simp only [toOpt] at this ⊢
          cases ho : outAt n (i + 1) { dn with sin := di } with
          | none => simp
          | some a =>
            rw [ho] at this
            cases hm : mapMI (wiredAt n) (i + 1 + 1) rest' with
            | none => simp
            | some b => rw [hm] at this; simp at this
        | ok tail =>
          rw [hw] at this
          simp only [toOpt] at this ⊢
          cases ho : outAt n (i + 1) { dn with sin := di } with
          | none => rw [ho] at this; simp at this
          | some a =>
            rw [ho] at this
            cases hm : mapMI (wiredAt n) (i + 1 + 1) rest' with
            | none => rw [hm] at this; simp at this
            | some b => rw [hm] at this; simp at this; simp [this]

theorem wire_eq (specs : List Spec) : toOpt (wire specs) = mapMI (wiredAt specs.length) 0 specs := by
  cases specs with
  | nil => simp [wire, toOpt, mapMI]
  | cons s rest =>
    have h0 : wiredAt (s :: rest).length 0 s = outAt (s :: rest).length 0 s := by simp [wiredAt, inAt]
    simp only [wire]
    rw [wireFrom_eq rest 0 s (s :: rest).length (by simp; omega)]
    conv => rhs; unfold mapMI
    rw [h0]
    generalize outAt (s :: rest).length 0 s = x
    generalize mapMI (wiredAt (s :: rest).length) (0 + 1) rest = y
    cases x <;> cases y <;> rfl

/-- the two checks of cmds_to_specs after the wiring, on one spec -/
def checkAt (n : Nat) (s : Spec) : Bool :=
  !(s.sout = some .pipeAll || s.serr = some .pipeErr) && !(decide (n > 1) && (isAlias s.kind && !s.threadable))

def finAt (q : Quirks) (cfg : Cfg) (cap : Cap) (n i : Nat) (w : Spec) : Option Spec :=
  if checkAt n w then some (if i + 1 = n then updateLast q cfg cap w else w) else none

theorem fin_eq (q : Quirks) (cfg : Cfg) (cap : Cap) (wired : List Spec) (i n : Nat) (hn : n = i + wired.length) :
    mapMI (finAt q cfg cap n) i wired =
      if wired.all (checkAt n) then some (updateLastOf q cfg cap wired) else none := by
  induction wired generalizing i with
  | nil => simp [mapMI, updateLastOf]
  | cons w rest ih =>
    simp only [mapMI, List.all_cons]
    rw [ih (i + 1) (by simp at hn ⊢; omega)]
    by_cases hc : checkAt n w = true
    · cases rest with
      | nil =>
        have : i + 1 = n := by simp at hn; omega
        simp [finAt, hc, this, updateLastOf]
      | cons w2 rest2 =>
        have : ¬ (i + 1 = n) := by simp at hn; omega
        simp only [finAt, hc, this, if_true, if_false, Bool.true_and]
        cases hall : (w2 :: rest2).all (checkAt n) <;> simp [updateLastOf]
    · simp [finAt, hc]

theorem final_eq (q : Quirks) (cfg : Cfg) (cap : Cap) (wired : List Spec) :
    toOpt (if wired.any (fun s => s.sout = some .pipeAll || s.serr = some .pipeErr) then (.error .needsPipe : Except Err (List Spec))
           else if wired.length > 1 && wired.any (fun s => isAlias s.kind && !s.threadable) then .error .unthreadable
           else .ok (updateLastOf q cfg cap wired)) = mapMI (finAt q cfg cap wired.length) 0 wired := by
  rw [fin_eq q cfg cap wired 0 wired.length (by simp)]
  have key : wired.all (checkAt wired.length) =
      (!(wired.any (fun s => s.sout = some .pipeAll || s.serr = some .pipeErr)) &&
       !(decide (wired.length > 1) && wired.any (fun s => isAlias s.kind && !s.threadable))) := by
    generalize wired.length = n
    induction wired with
    | nil => simp
    | cons w rest ih =>
      simp only [List.all_cons, List.any_cons, ih, checkAt]
      cases (w.sout = some .pipeAll || w.serr = some .pipeErr : Bool) <;>
        cases decide (n > 1) <;> cases (isAlias w.kind && !w.threadable) <;>
        cases rest.any (fun s => decide (s.sout = some Slot.pipeAll) || decide (s.serr = some Slot.pipeErr)) <;>
        cases rest.any (fun s => isAlias s.kind && !s.threadable) <;> rfl
  rw [key]
  cases h1 : wired.any (fun s => s.sout = some .pipeAll || s.serr = some .pipeErr) <;>
    cases h2 : decide (wired.length > 1) <;>
    cases h3 : wired.any (fun s => isAlias s.kind && !s.threadable) <;> simp_all [toOpt]

theorem buildAll_eq (T : Tables) (ts : Nat → TState) (cfg : Cfg) (stages : List Stage) (i : Nat) :
    toOpt (buildAll T ts cfg stages) = mapMI (fun _ st => toOpt (buildSpec T ts cfg st)) i stages := by
  induction stages generalizing i with
  | nil => simp [buildAll, toOpt, mapMI]
  | cons st rest ih =>
    simp only [buildAll, mapMI]
    rw [← ih (i + 1)]
    cases buildSpec T ts cfg st with
    | error x => simp [toOpt]
    | ok s => cases buildAll T ts cfg rest <;> simp [toOpt]

/-- what cmds_to_specs makes of the stage at position i of n -/
def stageSpec (T : Tables) (ts : Nat → TState) (q : Quirks) (cfg : Cfg) (cap : Cap) (n i : Nat) (st : Stage) : Option Spec :=
  ((toOpt (buildSpec T ts cfg st)).bind (wiredAt n i)).bind (finAt q cfg cap n i)

/-- REFINEMENT: cmds_to_specs (three passes over the whole pipeline, first error wins) succeeds iff every stage
succeeds on its own, and then yields the stage-by-stage results -/
theorem cmdsToSpecs_eq (T : Tables) (ts : Nat → TState) (q : Quirks) (cfg : Cfg) (cap : Cap) (stages : List Stage) :
    toOpt (cmdsToSpecs T ts q cfg cap stages) = mapMI (stageSpec T ts q cfg cap stages.length) 0 stages := by
  unfold stageSpec
  rw [← mapMI_bind, ← mapMI_bind, ← buildAll_eq]
  unfold cmdsToSpecs
  cases hb : buildAll T ts cfg stages with
  | error x => simp [toOpt]
  | ok specs =>
    have hl : specs.length = stages.length := by
      have := buildAll_eq T ts cfg stages 0
      rw [hb] at this
      exact mapMI_length _ _ _ _ this.symm
    simp only [toOpt, Option.bind_some]
    rw [← hl, ← wire_eq]
    cases hw : wire specs with
    | error x => simp [toOpt]
    | ok wired =>
      have hl2 : wired.length = specs.length := by
        have := wire_eq specs
        rw [hw] at this
        exact mapMI_length _ _ _ _ this.symm
      simp only [toOpt, Option.bind_some]
      rw [← hl2]
      exact final_eq q cfg cap wired

/-! ## one stage: model (repaired) against the documentation -/

def claimOfOutSlot : Slot → Claim
  | .file t m => .file t (decide (m = ['a']))
  | .pipeAll => .pipe
  | _ => .other

def claimOfErrSlot : Slot → Claim
  | .file t m => .file t (decide (m = ['a']))
  | .pipeErr => .pipe
  | _ => .other

def slotTarget : Slot → Nat
  | .file t _ => t
  | _ => 0

/-- the values a user's redirects can put into the three slots -/
inductive UserIn : Option Slot → Prop
  | none : UserIn none
  | file (t : Nat) : UserIn (some (.file t ['r']))

inductive UserOut : Option Slot → Prop
  | none : UserOut none
  | file (t : Nat) (a : Bool) : UserOut (some (.file t (modeOf a)))
  | fd2 : UserOut (some .fd2)
  | pipeAll : UserOut (some .pipeAll)

inductive UserErr : Option Slot → Prop
  | none : UserErr none
  | file (t : Nat) (a : Bool) : UserErr (some (.file t (modeOf a)))
  | toStdout : UserErr (some .toStdout)
  | pipeErr : UserErr (some .pipeErr)

def mkBuilt (cfg : Cfg) (kind : Kind) (sin sout serr : Option Slot) : Spec :=
  { kind := kind
    threadable := (match kind with | .proc _ => true | .alias mark => cfg.thread && mark)
    sin := sin, sout := sout, serr := serr, files := slotFile sout ++ slotFile serr }

/-- the model of one stage at position i of n, from its built spec to what it delivers -/
def modelStage (q : Quirks) (cfg : Cfg) (cap : Cap) (n i : Nat) (built : Spec) : Option (List StageOut) :=
  ((wiredAt n i built).bind (finAt q cfg cap n i)).map fun s => [stageOut q cfg cap s]

def Matches (m : Option (List StageOut)) : SpecOutcome → Prop
  | .error => m = none
  | .unspecified => True
  | .ok l => m = some l

/-! ### position classes

Everything above depends on (n, i) only through "first?", "last?" and the numbers carried inside pipe ends; with the
position abstracted to two booleans the comparison of one stage becomes a finite case analysis. -/

structure Pos where
  first : Bool
  last : Bool
  idx : Nat

def Pos.multi (p : Pos) : Bool := !(p.first && p.last)

def posOf (n i : Nat) : Pos := ⟨i == 0, i + 1 == n, i⟩

def inAtP (p : Pos) (s : Spec) : Option Spec :=
  if p.first then some s
  else
    match setSlot .multiStdin s.sin (some (.pipeR (p.idx - 1))) with
    | .ok x => some { s with sin := x }
    | .error _ => none

def outAtP (p : Pos) (s : Spec) : Option Spec := if p.last then some s else toOpt (wireUp p.idx s)

def checkAtP (p : Pos) (s : Spec) : Bool :=
  !(s.sout = some .pipeAll || s.serr = some .pipeErr) && !(p.multi && (isAlias s.kind && !s.threadable))

def finAtP (q : Quirks) (cfg : Cfg) (cap : Cap) (p : Pos) (w : Spec) : Option Spec :=
  if checkAtP p w then some (if p.last then updateLast q cfg cap w else w) else none

def modelStageP (q : Quirks) (cfg : Cfg) (cap : Cap) (p : Pos) (built : Spec) : Option (List StageOut) :=
  (((inAtP p built).bind (outAtP p)).bind (finAtP q cfg cap p)).map fun s => [stageOut q cfg cap s]

theorem modelStage_pos (q : Quirks) (cfg : Cfg) (cap : Cap) (n i : Nat) (hi : i < n) (built : Spec) :
    modelStage q cfg cap n i built = modelStageP q cfg cap (posOf n i) built := by
  have e1 : inAt i built = inAtP (posOf n i) built := by
    simp [inAt, inAtP, posOf]
  have e2 : ∀ s, outAt n i s = outAtP (posOf n i) s := by
    intro s
    by_cases h : i + 1 = n
    · have : ¬ (i + 1 < n) := by omega
      simp [outAt, outAtP, posOf, h, this]
    · have : i + 1 < n := by omega
      simp [outAt, outAtP, posOf, h, this]
  have e3 : ∀ s, finAt q cfg cap n i s = finAtP q cfg cap (posOf n i) s := by
    intro s
    have hm : decide (n > 1) = (posOf n i).multi := by
      simp only [posOf, Pos.multi]
      rw [Bool.eq_iff_iff]
      simp
      omega
    simp only [finAt, finAtP, checkAt, checkAtP, hm]
    simp [posOf]
  simp only [modelStage, modelStageP, wiredAt, e1]
  congr 1
  cases inAtP (posOf n i) built with
  | none => rfl
  | some s =>
    simp only [Option.bind_some, e2]
    cases outAtP (posOf n i) s with
    | none => rfl
    | some w => simp only [Option.bind_some, e3]

theorem specCore_pos (cfg : Cfg) (cap : Cap) (n i : Nat) (kind : Kind) (outs errs : List Claim) (ins : List Nat) :
    specCore cfg cap n i kind outs errs ins =
      specCoreB cfg cap (posOf n i).first (posOf n i).last (posOf n i).idx kind outs errs ins := rfl

/-! ### the region outside the seven deviations -/

/-- is an external command run threadable under a capturing form? (callable aliases: see `unthreadedAlias`) -/
def procThreadable (cfg : Cfg) : Kind → Bool
  | .proc pred => cfg.thread && pred
  | .alias _ => true

/-- the spec `cmds_to_specs` ends with for one stage (position class form) -/
def finalSpecP (q : Quirks) (cfg : Cfg) (cap : Cap) (p : Pos) (built : Spec) : Option Spec :=
  ((inAtP p built).bind (outAtP p)).bind (finAtP q cfg cap p)

/-- no integer handle reaches `safe_readable` on this (last) spec -/
def noCrash (q : Quirks) (cap : Cap) (last : Bool) (s : Spec) : Bool :=
  !crashBefore q s && !(last && crashAfter q cap s)

/-- OUTSIDE THE DEVIATION REGIONS: no `o>e`; no unthreaded callable alias; a callable alias is not the last stage of an
uncaptured `$[ ]`; the last stage under `!( )` is threadable -/
def Outside (cfg : Cfg) (cap : Cap) (last : Bool) (kind : Kind) (sout : Option Slot) : Prop :=
  sout ≠ some .fd2 ∧ unthreadedAlias cfg kind = false ∧
  (last = true → cap = .uncaptured → isAlias kind = false) ∧
  (last = true → cap = .object → procThreadable cfg kind = true)

end Redir
