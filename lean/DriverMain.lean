import Driver.Loop
import Driver.All
def main : IO Unit := Driver.run Driver.dispatch
