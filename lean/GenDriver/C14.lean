/- evaluates the TRANSLATED functions (Gen/HistGc.lean); run with `lake env lean --run` -/
import Driver.Loop
import XonshVerif.Gen.HistGc
open Sx Gen.HistGc

def decF : Sx → Option F
  | .list [a, b, c, d] => do pure (← asInt a, ← asInt b, ← asInt c, ← asInt d)
  | _ => none
def encF (f : F) : Sx := .list [.int f.1, .int f.2.1, .int f.2.2.1, .int f.2.2.2]
def encR (r : Int × List F) : Sx := .list [.int r.1, ofListWith encF r.2]

def handle (op : String) (args : List Sx) : Option Sx :=
  match op, args with
  | "gen.commands", [h, fs] => do pure (encR (gcCommands (← asInt h) (← asListOf decF fs)))
  | "gen.files", [h, fs] => do pure (encR (gcFiles (← asInt h) (← asListOf decF fs)))
  | "gen.bytes", [h, fs] => do pure (encR (gcBytes (← asInt h) (← asListOf decF fs)))
  | "gen.s", [h, fs, now] => do pure (encR (gcSeconds (← asInt h) (← asListOf decF fs) (← asInt now)))
  | "gen.proceeds", [f, so, h] => do pure (ofBool (gcProceeds (← asBool f) (← asInt so) (← asInt h)))
  | "gen.skips", [o, l] => do pure (ofBool (gcSkips (← asBool o) (← asBool l)))
  | _, _ => none

def main : IO Unit := Driver.run handle
