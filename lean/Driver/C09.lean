import Driver.Sexp
import XonshVerif.Model.FdLedger
open Sx
namespace Driver.C09
open FdLedger

def decKind : Sx → Option Kind
  | .sym "ext" => some .ext | .sym "thr" => some .thr | .sym "unthr" => some .unthr | _ => none

def decTarget : Sx → Option Target
  | .sym "inp" => some .inp | .sym "out" => some .out | .sym "err" => some .err | .sym "all" => some .all | _ => none

def decRedir : Sx → Option Redir
  | .list [.sym "file", t, o] => do pure (.file (← decTarget t) (← asBool o))
  | .sym "errToOut" => some .errToOut
  | .sym "outToErr" => some .outToErr
  | .sym "errToPipe" => some .errToPipe
  | .sym "allToPipe" => some .allToPipe
  | _ => none

def decStage : Sx → Option Stage
  | .list [k, rs, b, f] => do pure ⟨← decKind k, ← asListOf decRedir rs, ← asBool b, ← asBool f⟩
  | _ => none

def decCapture : Sx → Option Capture
  | .sym "none" => some .none | .sym "uncaptured" => some .none | .sym "hidden" => some .hidden
  | .sym "stdout" => some .stdout | .sym "object" => some .object | _ => none

def decCmd : Sx → Option Cmd
  | .list [ss, c, bg, dem, om, ca, ab] => do
    pure ⟨← asListOf decStage ss, ← decCapture c, ← asBool bg, ← asBool dem, ← asBool om, ← asBool ca, ← asBool ab⟩
  | _ => none

def decVariant : Sx → Option Variant
  | .list [a, b, c] => do pure ⟨← asBool a, ← asBool b, ← asBool c⟩
  | _ => none

def ofWhat : What → Sx
  | .file j => .list [.sym "file", ofNat j]
  | .pipeR => .list [.sym "pipeR"] | .pipeW => .list [.sym "pipeW"]
  | .capR e => .list [.sym "capR", ofBool e] | .capW e => .list [.sym "capW", ofBool e]
  | .wrapR e => .list [.sym "wrapR", ofBool e] | .wrapW e => .list [.sym "wrapW", ofBool e]
  | .child => .list [.sym "child"] | .thread => .list [.sym "thread"]

def ofRes (r : Res) : Sx := .list [ofNat r.stage, ofWhat r.what]

def ofHVal : HVal Nat → Sx
  | .prior n => .list [.sym "prior", ofNat n]
  | .owner k => .list [.sym "stage", ofNat k]

def ofWhy : Why → Sx
  | .ok => .sym "ok" | .build => .sym "build" | .empty => .sym "empty" | .wire => .sym "wire"
  | .sentinel => .sym "sentinel" | .unthreadable => .sym "unthreadable"

def H0 {κ : Type} : SigSt κ := ⟨⟨.prior 0, .prior 1, .prior 2, .prior 3⟩, []⟩

def ofSig (S : SigSt Nat) : Sx :=
  .list [ofHVal S.cur.int, ofHVal S.cur.tstp, ofHVal S.cur.quit, ofHVal S.cur.winch, ofNat S.saved.length]

def opens : List CEv → List Res
  | [] => []
  | .opn r :: rest => r :: opens rest
  | _ :: rest => opens rest

def handle (op : String) (args : List Sx) : Option Sx :=
  match op, args with
  | "c09.run", [v, c] => do
    let v ← decVariant v
    let c ← decCmd c
    let r := command v c
    pure (.list [ofWhy r.why, ofBool r.startFailed, ofNat r.procs.length,
      ofListWith ofRes (runRes [] r.main), ofListWith ofRes (runRes [] r.all),
      ofSig (runSig H0 r.all), ofListWith ofRes (opens r.main), ofListWith ofRes (r.procs.flatMap selfCloses)])
  | "c09.repeat", [v, n, c] => do
    let v ← decVariant v
    let n ← asNat n
    let c ← decCmd c
    let evs := repeatCmd v c 1 n
    let S := runSig (H0 (κ := Nat × Nat)) evs
    pure (.list [ofNat (runRes [] evs).length, ofNat S.saved.length,
      ofBool (decide (S.cur = (H0 (κ := Nat × Nat)).cur))])
  | "c09.channel", [ops] => do
    -- a PipeChannel (read end 0, write end 1, both open) under a sequence of close_reader / close_writer / close
    let ops ← asListOf asSym ops
    let evOf : String → List (Ev Nat Nat) := fun o =>
      if o == "closeR" then [.cls 0] else if o == "closeW" then [.cls 1] else if o == "close" then [.cls 1, .cls 0] else []
    let states := (ops.foldl (fun (acc : List Nat × List Sx) o =>
      let L := runRes acc.1 (evOf o)
      (L, acc.2 ++ [Sx.list [ofBool (L.contains 0), ofBool (L.contains 1)]])) ([0, 1], [])).2
    pure (.list states)
  | _, _ => none

end Driver.C09
