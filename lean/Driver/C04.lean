import Driver.Sexp
import XonshVerif.Model.Args
open Sx
namespace Driver.C04
open PyStr Expand Args

def decQuote : Sx → Option Quote
  | .sym "s1" => some .s1 | .sym "d1" => some .d1 | .sym "s3" => some .s3 | .sym "d3" => some .d3 | _ => none

def decTable : Sx → Option (List (Str × Str)) := asListOf (fun
  | .list [a, b] => do pure (← asCodes a, ← asCodes b)
  | _ => none)

/-- ( wordCodePoints envTable homes expandVars expandUser ) -/
def decEnv : Sx → Option Env
  | .list [w, tbl, homes, ev, eu] => do
    let w ← asCodes w
    let tbl ← decTable tbl
    let homes ← decTable homes
    pure { uniWord := fun c => w.contains c, lookup := fun n => tbl.lookup n, home := fun n => homes.lookup n,
           expandVars := ← asBool ev, expandUser := ← asBool eu }
  | _ => none

def decItem : Sx → Option Item
  | .list [.sym "s", c] => do pure (.str (← asCodes c))
  | .list [.sym "b", c] => do pure (.bytes (← asCodes c))
  | .list [.sym "o", c] => do pure (.other (← asCodes c))
  | _ => none

def decVal : Sx → Option PyVal
  | .list [.sym "one", i] => do pure (.one (← decItem i))
  | .list [.sym "iter", xs] => do pure (.iter (← asListOf decItem xs))
  | _ => none

def decPart : Sx → Option Part
  | .list [.sym "t", c] => do pure (.text (← asCodes c))
  | .list [.sym "i", v] => do pure (.inj (← decVal v))
  | .list [.sym "m", lb, c] => do pure (.macroAt (← asBool lb) (← asCodes c))
  | _ => none

def decFPart : Sx → Option FPart
  | .list [.sym "t", c] => do pure (.text (← asCodes c))
  | .list [.sym "f", c] => do pure (.field (← asCodes c))
  | _ => none

/-- `none` = malformed request; `some none` = a literal of the command is outside the model -/
def decAtom : Sx → Option (Option Atom)
  | .list [.sym "word", c] => do pure (some (.word (← asCodes c)))
  | .list [.sym "lit", raw, f, q, parts] => do
    let raw ← asBool raw
    let f ← asBool f
    let v := evalParts raw f (← decQuote q) (← asListOf decFPart parts)
    pure (v.map (Atom.lit raw f))
  | .list [.sym "inject", v] => do pure (some (.inject (← decVal v)))
  | .list [.sym "macroat", lb, c] => do pure (some (.macroAt (← asBool lb) (← asCodes c)))
  | .list [.sym "adj", ps] => do pure (some (.adjacent (← asListOf decPart ps)))
  | _ => none

def ofStrs (l : List Str) : Sx := ofListWith ofCodes l

def handle (op : String) (args : List Sx) : Option Sx :=
  match op, args with
  | "c04.render", [f, rawNl, choices, s] => do
    pure (ofCodes (render (← asBool f) (← asBool rawNl) (← asListOf asBool choices) (← asCodes s)))
  | "c04.eval", [raw, f, q, body] => do
    pure (ofOpt ofCodes (evalBody (← asBool raw) (← asBool f) (← decQuote q) (← asCodes body)))
  | "c04.rawok", [q, s] => do pure (ofBool (rawWritable (← decQuote q) (← asCodes s)))
  | "c04.expand", [env, s] => do
    let e ← decEnv env
    let s ← asCodes s
    pure (.list [ofCodes (expandvars e s), ofCodes (expandPath e s), ofBool (tildePrefix e s)])
  | "c04.strip", [s] => do pure (ofCodes (strip (← asCodes s)))
  | "c04.captured", [out, table] => do
    -- table: what the per-line splitter answers for each line ( (line tokens) … )
    let tbl ← asListOf (fun
      | .list [l, ts] => do pure (← asCodes l, ← asListOf asCodes ts)
      | _ => none) table
    let out ← asCodes out
    pure (.list [ofStrs (capturedInject (fun l => (tbl.lookup l).getD []) out), ofStrs (pySplitlines out)])
  | "c04.cmd", [env, globs, keeps, atoms, bang] => do
    let e ← decEnv env
    let flags : Option (List Bool) := (asListOf asBool keeps).bind (fun l => if l.length == 3 then some l else none)
    let globs ← asListOf (fun
      | .list [p, rs] => do pure (← asCodes p, ← asListOf asCodes rs)
      | _ => none) globs
    let cfg : Args.Cfg := { env := e, glob := fun p => (globs.lookup p).getD [], fstrKeepsRaw := (← flags)[0]!, linesCutAtLB := (← flags)[1]!, bangNeedsList := (← flags)[2]! }
    let atoms ← asListOf decAtom atoms
    let bang ← asOpt (fun
      | .list [lb, t] => do pure (← asBool lb, ← asCodes t)
      | _ => none) bang
    match atoms.mapM id with
    | none => pure (.sym "none")
    | some as =>
      match command cfg as bang with
      | none => pure (.sym "crash")
      | some a => pure (.list [.sym "some", ofStrs (aliasArgv a), ofStrs (popenArgv a)])
  | _, _ => none

end Driver.C04
