import Driver.Sexp
open Sx
namespace Driver

partial def loop (dispatch : String → List Sx → Option Sx) (h out : IO.FS.Stream) : IO Unit := do
  let line ← h.getLine
  if line.isEmpty then return ()
  let l := line.trimAscii.toString
  if l == "" then
    out.putStrLn "( err empty )"
  else
    match parseLine l with
    | .sym op :: args =>
      match dispatch op args with
      | some r => out.putStrLn (render r)
      | none => out.putStrLn (render (.list [.sym "err", .sym "bad-op-or-args", .sym op]))
    | _ => out.putStrLn "( err parse )"
  out.flush
  loop dispatch h out

def run (dispatch : String → List Sx → Option Sx) : IO Unit := do
  loop dispatch (← IO.getStdin) (← IO.getStdout)

end Driver
