import Driver.Sexp
import XonshVerif.Model.Jobs
open Sx
namespace Driver.C20
open Jobs

def decArg : Sx → Option Arg
  | .sym "none" => some .none | .sym "plus" => some .plus | .sym "minus" => some .minus
  | .sym "bad" => some .bad | .sym "many" => some .many
  | .list [.sym "num", .int n] => some (.num n)
  | _ => none

def decOp : Sx → Option (Nat × Op)
  | .list (o :: .sym name :: args) => do
    let o ← asNat o
    match name, args with
    | "add", [b, r] => pure (o, .add (← asBool b) (← asBool r))
    | "die", [n] => pure (o, .die (← asNat n))
    | "stop", [n] => pure (o, .stop (← asNat n))
    | "fg", [a] => pure (o, .fg (← decArg a))
    | "bg", [a] => pure (o, .bg (← decArg a))
    | "disown", [ids] => pure (o, .disown (← asListOf asInt ids))
    | "jobs", [] => pure (o, .jobs)
    | "nextTask", [] => pure (o, .nextTask)
    | "clean", [] => pure (o, .clean)
    | _, _ => none
  | _ => none

def encOut : Out → Sx
  | .ok n => .list [.sym "ok", .int n]
  | .noJobs => .sym "noJobs" | .invalid => .sym "invalid" | .arity => .sym "arity" | .none => .sym "none"

def encTable (t : Table) : Sx :=
  .list [ofListWith (fun p : Nat × Job => .list [.int p.1, ofBool p.2.bg, ofBool p.2.running, ofBool p.2.alive]) t.jobs,
         ofListWith (fun n : Nat => .int n) t.tasks]

def encState (s : State) : Sx := .list (encTable s.main :: s.workers.map encTable)

def runObs (s : State) : List (Nat × Op) → List Sx
  | [] => []
  | (o, op) :: rest =>
    let (s', out) := step s o op
    .list [encOut out, encState s'] :: runObs s' rest

def handle (op : String) (args : List Sx) : Option Sx :=
  match op, args with
  | "c20.run", [nw, ops] => do
    let nw ← asNat nw
    let ops ← asListOf decOp ops
    pure (.list (runObs ⟨Jobs.empty, List.replicate nw Jobs.empty⟩ ops))
  | _, _ => none

end Driver.C20
