import Driver.Sexp
import XonshVerif.Model.Capture
open Sx
namespace Driver.C06
open Capture

def ofBytes (l : List Nat) : Sx := ofCodes l
def ofFrags (l : List (List Nat)) : Sx := ofListWith ofBytes l
def asFrags : Sx → Option (List (List Nat)) := asListOf asCodes

def asSize : Sx → Option (Option Nat)
  | .sym "none" => some none
  | x => (asNat x).map some

/-- ops on a `QueueReader` whose producer is played step by step: `P` = next statement of `populate_fd_queue` -/
def qops (s : QReader.St) : List Sx → Option (List Sx)
  | [] => some []
  | op :: rest =>
    match op with
    | .list [.sym "P"] => do
      let r ← qops (QReader.stepP s) rest
      pure (.sym "-" :: r)
    | .list [.sym "readq"] =>
      match s.queue with
      | [] => do pure (ofBytes [] :: (← qops s rest))
      | c :: q => do pure (ofBytes c :: (← qops { s with queue := q } rest))
    | .list [.sym "readlines", h] => do
      let h ← asNat h
      let (s', ls) := QReader.readlinesHint h (s.queue.length + 1) s []
      pure (ofFrags ls :: (← qops s' rest))
    | .list [.sym "read", n] => do
      let n ← asSize n
      let (s', b) := QReader.readSize n (s.queue.length + 1) s []
      pure (ofBytes b :: (← qops s' rest))
    | .list [.sym "readline", n] => do
      let n ← asSize n
      let (s', b) := QReader.readlineSize n (s.queue.length + 1) s []
      pure (ofBytes b :: (← qops s' rest))
    | .list [.sym "full"] => do pure (ofBool (QReader.isFullyRead s) :: (← qops s rest))
    | _ => none

def decTid : Sx → Option QReader.Tid
  | .sym "P" => some .P | .sym "C" => some .C | .sym "D" => some .D | _ => none

def decEv : Sx → Option MemBuf.Ev
  | .sym "W" => some .W
  | .list [.sym "R", k] => do pure (.R (← asNat k))
  | _ => none

def membufTrace (locked : Bool) (s : MemBuf.St) : List MemBuf.Ev → List Sx
  | [] => []
  | e :: es =>
    let s' := MemBuf.step locked s e
    .list [ofNat s'.pos, ofNat s'.buf.length, ofNat s'.delivered.length] :: membufTrace locked s' es

def decRet : Sx → Option Rtn.AliasRet
  | .sym "none" => some .none
  | .list [.sym "int", n] => do pure (.int (← asInt n))
  | .sym "str" => some .str
  | .list [.sym "tuple", rc] => do pure (.tuple (← asOpt asInt rc))
  | .sym "other" => some .other
  | .list [.sym "exit", c, t] => do pure (.exit (← asOpt asInt c) (← asBool t))
  | .sym "raised" => some .raised
  | _ => none

def decHop : Sx → Option Hist.Op
  | .list [.sym "deliver", l] => do pure (.deliver (← asCodes l))
  | .sym "finish" => some .finish
  | .sym "read" => some .read
  | _ => none

def decStage : Sx → Option Rtn.Stage
  | .list [.sym "proc", e] => do pure (.proc (← asInt e))
  | .list [.sym "alias", r] => do pure (.alias (← decRet r))
  | _ => none

def handle (op : String) (args : List Sx) : Option Sx :=
  match op, args with
  | "c06.qreader", [chunks, ops] => do
    let r ← qops (QReader.init (← asFrags chunks)) (← asList ops)
    pure (.list r)
  | "c06.sched", [chunks, sched] => do
    let s := QReader.run (QReader.init (← asFrags chunks)) (← asListOf decTid sched)
    pure (.list [ofBool (s.cpc == .done), ofFrags s.frags, ofBool s.closed, ofBool s.alive, ofNat s.queue.length])
  | "c06.membuf", [locked, chunks, evs] => do
    let locked ← asBool locked
    let evs ← asListOf decEv evs
    let s0 := MemBuf.init (← asFrags chunks)
    let s := MemBuf.run locked s0 evs
    pure (.list [ofBytes (MemBuf.final s), ofBool (MemBuf.tame locked s0 evs), ofBool (s.wpc == .idle && s.todo.isEmpty),
                 ofBytes s.delivered, .list (membufTrace locked s0 evs)])
  | "c06.shape", [frags] => do
    let fs ← asFrags frags
    pure (.list [ofFrags (Shape.objLines fs), ofBytes (Shape.objOut fs), ofBytes (Shape.objRaw fs)])
  | "c06.stdout", [payload] => do
    let b ← asCodes payload
    pure (.list [ofFrags (Shape.stdoutLines b), ofBytes (Shape.stdoutOut b)])
  | "c06.spec", [payload, stdoutView, objOutView, iterLines, raw] => do
    -- each view is `none` (not observed) or the observed value; answers T/F/none per view
    let b ← asCodes payload
    let chk {α} (dec : Sx → Option α) (f : α → Bool) (x : Sx) : Option Sx :=
      match x with
      | .sym "none" => some (.sym "none")
      | x => (dec x).map (fun v => ofBool (f v))
    pure (.list [← chk asCodes (Shape.specStdout b) stdoutView, ← chk asCodes (Shape.specObjOut b) objOutView,
                 ← chk asFrags (Shape.specIter b) iterLines, ← chk asCodes (Shape.specRaw b) raw,
                 ofBytes (Shape.specText b), ofBool (Shape.oneLine (Shape.specText b))])
  | "c06.prim", [.sym name, arg] => do
    let b ← asCodes arg
    match name with
    | "decode" => pure (ofBytes (Shape.decodeU8 b))
    | "stripesc" => pure (ofBytes (Shape.stripEsc b))
    | "splitlinesb" => pure (ofFrags (splitLinesB b))
    | "lineslf" => pure (ofFrags (Shape.linesLF b))
    | "normnl" => pure (ofBytes (Shape.normNL b))
    | "strsplit" => pure (ofFrags (Shape.strSplitLines b))
    | "fixend" => pure (ofBytes (Shape.fixEnd b))
    | "canon" => pure (ofBytes (Shape.canon b))
    | _ => none
  | "c06.fmt", [lines] => do pure (ofBytes (Shape.fmtLines (← asFrags lines)))
  | "c06.hist", [stale, ops] => do
    let ops ← asListOf decHop ops
    let rs := Hist.run (← asBool stale) Hist.init ops
    pure (.list [.list (rs.map fun r => .list [ofBool r.1, ofBytes r.2]), ofBytes (Shape.fmtLines (Hist.delivered false ops))])
  | "c06.rtn", [stages] => do
    let st ← asListOf decStage stages
    pure (.list [.int (Rtn.pipelineRc st), .list ((Rtn.pipestatus st).map Sx.int)])
  | _, _ => none

end Driver.C06
