import Driver.Sexp
import XonshVerif.Model.CodeCache
open Sx
namespace Driver.C19
open CodeCache

def decOp : Sx → Option Op
  | .list [.sym "tick", d] => do pure (.tick (← asNat d))
  | .list [.sym "edit", c] => do pure (.edit (← asNat c))
  | .list [.sym "touch"] => some .touch
  | .list [.sym "run", u] => do pure (.run (← asBool u))
  | .list [.sym "damage"] => some .damage
  | .list [.sym "foreign"] => some .foreign
  | .list [.sym "removeCache"] => some .removeCache
  | _ => none

/-- the documented freshness rule: the entry is used iff it is not older than the source -/
def freshRule (a b : Int) : Bool := decide (a ≥ b)

def runObs (s : St) : List Op → List Sx
  | [] => []
  | op :: rest =>
    let (s', r) := step freshRule s op
    .list [ofOpt ofNat r, ofNat s.content, ofBool s'.cache.isSome] :: runObs s' rest

def toStr (l : List Nat) : Str := l.map Char.ofNat
def ofStr (s : Str) : Sx := ofListWith (fun c : Char => ofNat c.toNat) s

def handle (op : String) (args : List Sx) : Option Sx :=
  match op, args with
  | "c19.run", [c, ops] => do pure (.list (runObs ⟨← asNat c, 0, none, 0⟩ (← asListOf decOp ops)))
  | "c19.renamer", [tbl, tag, comps] => do
    let tbl ← asListOf (fun
      | .list [k, v] => do pure (Char.ofNat (← asNat k), toStr (← asCodes v))
      | _ => none) tbl
    pure (ofListWith ofStr (renamer tbl (toStr (← asCodes tag)) ((← asListOf asCodes comps).map toStr)))
  | _, _ => none

end Driver.C19
