import Driver.Sexp
import Driver.C01
import Driver.C02
import Driver.C03
import Driver.C04
import Driver.C05
import Driver.C06
import Driver.C07
import Driver.C08
import Driver.C09
import Driver.C10
import Driver.C11
import Driver.C12
import Driver.C13
import Driver.C14
import Driver.C15
import Driver.C16
import Driver.C17
import Driver.C18
import Driver.C19
import Driver.C20
open Sx
namespace Driver

def echo (args : List Sx) : Option Sx := some (.list args)

/-- every `Driver/Cxx.lean` contributes a `handle : String → List Sx → Option Sx` -/
def dispatch (op : String) (args : List Sx) : Option Sx :=
  if op == "echo" then echo args
  else if op.startsWith "c01." then C01.handle op args
  else if op.startsWith "c02." then C02.handle op args
  else if op.startsWith "c03." then C03.handle op args
  else if op.startsWith "c04." then C04.handle op args
  else if op.startsWith "c05." then C05.handle op args
  else if op.startsWith "c06." then C06.handle op args
  else if op.startsWith "c07." then C07.handle op args
  else if op.startsWith "c08." then C08.handle op args
  else if op.startsWith "c09." then C09.handle op args
  else if op.startsWith "c10." then C10.handle op args
  else if op.startsWith "c11." then C11.handle op args
  else if op.startsWith "c12." then C12.handle op args
  else if op.startsWith "c13." then C13.handle op args
  else if op.startsWith "c14." then C14.handle op args
  else if op.startsWith "c15." then C15.handle op args
  else if op.startsWith "c16." then C16.handle op args
  else if op.startsWith "c17." then C17.handle op args
  else if op.startsWith "c18." then C18.handle op args
  else if op.startsWith "c19." then C19.handle op args
  else if op.startsWith "c20." then C20.handle op args
  else none

end Driver
