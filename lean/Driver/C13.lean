import Driver.Sexp
import XonshVerif.Model.FsTrace
open Sx
namespace Driver.C13
open FsTrace

def decEv : Sx → Option Ev
  | .list [.sym "create", p] => do pure (.create (← asNat p))
  | .list [.sym "write", p, b] => do pure (.write (← asNat p) (← asListOf asNat b))
  | .list [.sym "close", p] => do pure (.close (← asNat p))
  | .list [.sym "rename", a, b] => do pure (.rename (← asNat a) (← asNat b))
  | .list [.sym "unlink", p] => do pure (.unlink (← asNat p))
  | _ => none
def decDisk : Sx → Option Disk := asListOf (fun
  | .list [p, b] => do pure (← asNat p, ← asListOf asNat b)
  | _ => none)
def encDisk (d : Disk) : Sx := ofListWith (fun q : Path × Bytes => .list [ofNat q.1, ofListWith ofNat q.2]) d

def handle (op : String) (args : List Sx) : Option Sx :=
  match op, args with
  | "c13.disc", [h, tr] => do pure (ofBool (discOk (← asListOf asNat h) [] (← asListOf decEv tr)))
  | "c13.crash", [d, tr, k, j] => do
    pure (encDisk (crash (← decDisk d) (← asListOf decEv tr) (← asNat k) (← asNat j)))
  | _, _ => none

end Driver.C13
