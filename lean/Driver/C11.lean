import Driver.Sexp
import XonshVerif.Model.EnvLayers
open Sx
namespace Driver.C11
open EnvL

def decCell : Sx → Option Cell
  | .sym "mask" => some .mask
  | .list [.sym "v", .int n] => some (.val n.toNat)
  | _ => none
def decMap : Sx → Option Map := asListOf (fun
  | .list [k, c] => do pure (← asNat k, ← decCell c)
  | _ => none)
def decKV : Sx → Option (List (Key × Val)) := asListOf (fun
  | .list [k, v] => do pure (← asNat k, ← asNat v)
  | _ => none)

def decOp : Sx → Option (Nat × Op)
  | .list (t :: .sym name :: args) => do
    let t ← asNat t
    match name, args with
    | "set", [k, c] => pure (t, .set (← asNat k) (← decCell c))
    | "del", [k] => pure (t, .del (← asNat k))
    | "enter", [kvs, o] => pure (t, .enter (← decMap kvs) (← asOpt decMap o))
    | "exit", [] => pure (t, .exit)
    | "detype", [] => pure (t, .detype)
    | "spawn", [c] => pure (t, .spawn (← asNat c))
    | _, _ => none
  | _ => none

def encOut (uni : List Key) : Out → Sx
  | .ok => .sym "ok" | .keyError => .sym "keyError"
  | .detyped l => .list [.sym "detyped",
      ofListWith (fun p : Key × Val => .list [ofNat p.1, ofNat p.2]) (l.filter (fun p => uni.contains p.1))]

def encViews (s : St) (nthreads : Nat) (uni : List Key) : Sx :=
  .list ((List.range nthreads).map fun t =>
    .list (uni.map fun k => .list [ofOpt ofNat (vGet s t k), ofBool (vContains s t k), ofBool (vIter s t k)]))

def runObs (s : St) (n : Nat) (u : List Key) : List (Nat × Op) → List Sx
  | [] => []
  | (t, op) :: rest =>
    let (s', out) := step s t op
    -- for `detype` also report what a computation that ignores the shared cache yields (the SPEC of a launch)
    let fresh : Sx := match op with
      | .detype => encOut u (.detyped (detypeFresh s t))
      | _ => .sym "-"
    .list [encOut u out, encViews s' n u, fresh] :: runObs s' n u rest

def handle (op : String) (args : List Sx) : Option Sx :=
  match op, args with
  | "c11.run", [n, g, d, r, u, ops] => do
    let n ← asNat n
    let s := init n (← decMap g) (← decKV d) (← asListOf asNat r)
    let u ← asListOf asNat u
    pure (.list (runObs s n u (← asListOf decOp ops)))
  | _, _ => none

end Driver.C11
