import Driver.Sexp
import XonshVerif.Model.JsonHist
import XonshVerif.Model.LazyJson
open Sx
namespace Driver.C12
open JsonHist

def decCmd : Sx → Option Cmd
  | .list [i, r, s] => do pure ⟨← asNat i, ← asNat r, ← asBool s⟩
  | _ => none
def decOp : Sx → Option Op
  | .list [.sym "append", c] => do pure (.append (← decCmd c))
  | .list [.sym "flush"] => some .flush
  | .list [.sym "flusherRuns"] => some .flusherRuns
  | .list [.sym "read", i] => do pure (.read (← asNat i))
  | _ => none
def decCfg : Sx → Option Cfg
  | .list [b, d, e, s] => do pure ⟨← asNat b, ← asBool d, ← asBool e, ← asBool s⟩
  | _ => none
def encRead : Option Read → Sx
  | none => .sym "-"
  | some (.val x) => .list [.sym "val", ofNat x.inp]
  | some .indexError => .sym "indexError"

def runObs (c : Cfg) (s : St) : List Op → List Sx
  | [] => []
  | op :: rest =>
    let (s', r) := step c s op
    .list [encRead r, ofNat (size s'), ofNat s'.buffer.length, ofNat s'.queue.length] :: runObs c s' rest

def toStr (l : List Nat) : LJ.Str := l.map Char.ofNat
def ofStr (s : LJ.Str) : Sx := ofListWith (fun c : Char => ofNat c.toNat) s

partial def decJ : Sx → Option LJ.J
  | .list [.sym "leaf", t] => do pure (.leaf (toStr (← asCodes t)))
  | .list [.sym "arr", .list xs] => do pure (.arr (← xs.mapM decJ))
  | .list [.sym "obj", .list kvs] => do
    pure (.obj (← kvs.mapM fun
      | .list [k, v] => do pure (toStr (← asCodes k), ← decJ v)
      | _ => none))
  | _ => none

partial def encIdx : LJ.Idx → Sx
  | .leaf n => .list [.sym "leaf", ofNat n]
  | .arr xs t => .list [.sym "arr", .list (xs.map encIdx), ofNat t]
  | .obj kvs t => .list [.sym "obj", .list (kvs.map fun p => .list [ofStr p.1, encIdx p.2]), ofNat t]

def handle (op : String) (args : List Sx) : Option Sx :=
  match op, args with
  | "c12.run", [c, ops] => do
    let c ← decCfg c
    let ops ← asListOf decOp ops
    let final := run c init ops
    pure (.list [.list (runObs c init ops),
      ofListWith (fun x : Cmd => ofNat x.inp) (contents c final)])
  | "c12.ser", [j] => do
    let o := LJ.ser (← decJ j) 0
    pure (.list [ofStr o.text, encIdx o.offs, encIdx o.sizes])
  | _, _ => none

end Driver.C12
