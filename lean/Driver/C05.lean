import Driver.Sexp
import XonshVerif.Model.Chain
open Sx
namespace Driver.C05
open Chain

def decForm : Sx → Option Form
  | .sym "hidden" => some .hidden | .sym "uncaptured" => some .uncaptured
  | .sym "stdout" => some .stdout | .sym "object" => some .object | _ => none

def decDec : Sx → Option Dec
  | .sym "none" => some .none | .sym "raise" => some .raise | .sym "ignore" => some .ignore | _ => none

def decInner : Sx → Option Inner
  | .list [i, rc, d] => do pure ⟨← asNat i, ← asNat rc, ← decDec d⟩
  | _ => none

partial def decCh : Sx → Option Ch
  | .list [.sym "cmd", i, rc, f, d, pr, py, early, inj] => do
    pure (.cmd ⟨← asNat i, ← asNat rc, ← decForm f, ← decDec d, ← asBool pr, ← asBool py, ← asListOf asNat early, ← asListOf decInner inj⟩)
  | .list [.sym "and", a, b] => do pure (.and (← decCh a) (← decCh b))
  | .list [.sym "or", a, b] => do pure (.or (← decCh a) (← decCh b))
  | _ => none

def ofRaised : Option Raised → Sx
  | none => .sym "N"
  | some r => .list [ofNat r.rc, ofNat r.id]

def handle (op : String) (args : List Sx) : Option Sx :=
  match op, args with
  | "c05.run", [cf, re, cr, prog] => do
    let fl : Flags := ⟨← asBool re, ← asBool cr⟩
    let p ← asListOf decCh prog
    let cf ← asBool cf
    let (s, r) := Impl.prog cf fl false p St.init
    let (l2, r2) := Spec.prog fl p []
    let (s3, r3) := Impl.prog cf fl true p St.init
    let collapsed := p.any (fun ch => match ch with | .cmd _ => false | ch => toString (repr (Impl.collapse true ch)) != toString (repr ch))
    pure (.list [ofCodes s.log, ofRaised r, ofCodes l2, ofRaised r2, ofBool collapsed, ofCodes s3.log, ofRaised r3])
  | _, _ => none

end Driver.C05
