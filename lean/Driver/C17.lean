import Driver.Sexp
import XonshVerif.Model.Format
open Sx
namespace Driver.C17
open Format

def decKind : String → Option Kind
  | "ENCODING" => some .encoding | "ENDMARKER" => some .endmarker | "INDENT" => some .indent
  | "DEDENT" => some .dedent | "NEWLINE" => some .newline | "NL" => some .nl | "COMMENT" => some .comment
  | "NAME" => some .name | "NUMBER" => some .number | "STRING" => some .string | "OP" => some .op
  | "ERRORTOKEN" => some .errortoken | "FSTRING_START" => some .fstart | "FSTRING_MIDDLE" => some .fmiddle
  | "FSTRING_END" => some .fend | "SEARCHPATH" => some .searchpath | "DOLLARNAME" => some .dollarname
  | _ => some .other

def decStr (x : Sx) : Option Str := (asStr x).map String.toList
def ofStr (s : Str) : Sx := .str (String.ofList s)

def decTok : Sx → Option Tok
  | .list [k, t, sl, sc, el, ec] => do
    pure ⟨← decKind (← asSym k), ← decStr t, ← asNat sl, ← asNat sc, ← asNat el, ← asNat ec⟩
  | _ => none

def decTables : Sx → Option Tables
  | .list [a, b, c, d, e, f, g] => do
    pure ⟨← asListOf decStr a, ← asListOf decStr b, ← asListOf decStr c, ← asListOf decStr d,
          ← asListOf decStr e, ← asListOf decStr f, ← asListOf decStr g⟩
  | _ => none

def ruleName : Rule → String
  | .tok => "tok" | .newline => "newline" | .nlCont => "nlCont" | .blank => "blank"
  | .lineBracket => "lineBracket" | .lineIndent => "lineIndent" | .fstr => "fstr" | .bang => "bang"
  | .raw => "raw" | .rawCont => "rawCont" | .contSub => "contSub" | .contPy => "contPy"
  | .comment => "comment" | .opener => "opener" | .closer => "closer" | .commaB => "commaB"
  | .commaA => "commaA" | .colonB => "colonB" | .colonSlice => "colonSlice" | .colonA => "colonA"
  | .eq => "eq" | .always => "always" | .kw => "kw" | .gapLines => "gapLines" | .gapSome => "gapSome"
  | .gapNone => "gapNone" | .noPrev => "noPrev"

def ofPiece (p : Piece) : Sx := .list [ofBool p.isTok, .sym (ruleName p.rule), ofBool p.fromSrc, ofStr p.text]

def decVariant : Sx → Option Variant
  | .list [g, e, l] => do pure ⟨← asBool g, ← asBool e, ← asBool l⟩
  | _ => none

def mkCfg (tb : Tables) (indent src : Str) (v : Variant) : Cfg := ⟨tb, indent, splitNl src, v⟩

def handle (op : String) (args : List Sx) : Option Sx :=
  match op, args with
  -- the formatted text, the token-preserving variant, "all source-copied separators are whitespace",
  -- "all token texts are clean (no blank before a newline / at the end)"
  | "c17.fmt", [v, tb, indent, src, toks] => do
    let cfg := mkCfg (← decTables tb) (← decStr indent) (← decStr src) (← decVariant v)
    let toks ← asListOf decTok toks
    let ps := pieces cfg toks
    pure (.list [ofStr (formatV cfg toks), ofStr (finalizeSafe ps), ofBool (srcSepsWs ps),
                 ofBool ((ps.filter (·.isTok)).all (fun p => tokClean p.text))])
  | "c17.pieces", [v, tb, indent, src, toks] => do
    let cfg := mkCfg (← decTables tb) (← decStr indent) (← decStr src) (← decVariant v)
    pure (ofListWith ofPiece (pieces cfg (← asListOf decTok toks)))
  | "c17.finalize", [e, s] => do
    let s ← decStr s
    let e ← asBool e
    let b := rstripNl (stripTrailRef s)
    pure (.list [ofStr (finalizeV e s), ofStr (b ++ finalTail e b)])
  | "c17.merges", [ops, a, b] => do
    pure (ofBool (merges (← asListOf decStr ops) (← decStr a) (← decStr b)))
  | _, _ => none

end Driver.C17
