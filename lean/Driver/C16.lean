import Driver.Sexp
import XonshVerif.Model.DirStack
open Sx
namespace Driver.C16
open DirStack

def decKind : Sx → Option Kind
  | .sym "dir" => some .dir | .sym "noexec" => some .noexec | .sym "file" => some .file
  | .sym "missing" => some .missing | _ => none
def encKind : Kind → Sx
  | .dir => .sym "dir" | .noexec => .sym "noexec" | .file => .sym "file" | .missing => .sym "missing"
def decPair {α β} (f : Sx → Option α) (g : Sx → Option β) : Sx → Option (α × β)
  | .list [a, b] => do pure (← f a, ← g b)
  | _ => none

def decCfg : Sx → Option Cfg
  | .list [a, m, z, h, links] => do
    pure ⟨← asBool a, ← asBool m, ← asInt z, ← asNat h, ← asListOf (decPair asNat asNat) links⟩
  | _ => none
def encCfg (c : Cfg) : Sx :=
  .list [ofBool c.autoPushd, ofBool c.pushdMinus, .int c.size, ofNat c.home,
    ofListWith (fun p : Path × Path => .list [ofNat p.1, ofNat p.2]) c.links]

def decSt : Sx → Option St
  | .list [pwd, old, stack, cwd, fs] => do
    pure ⟨← asNat pwd, ← asOpt asNat old, ← asListOf asNat stack, ← asNat cwd,
      ← asListOf (decPair asNat decKind) fs⟩
  | _ => none
def encSt (s : St) : Sx :=
  .list [ofNat s.pwd, ofOpt ofNat s.oldpwd, ofListWith ofNat s.stack, ofNat s.cwd,
    ofListWith (fun p : Path × Kind => .list [ofNat p.1, encKind p.2]) s.fs]

def decPArg : Sx → Option PArg
  | .sym "none" => some .none | .sym "bad" => some .bad
  | .list [.sym "path", p] => do pure (.path (← asNat p))
  | .list [.sym "plus", n] => do pure (.plus (← asNat n))
  | .list [.sym "minus", n] => do pure (.minus (← asNat n))
  | _ => none
def decCdArg : Sx → Option CdArg
  | .sym "none" => some .none | .sym "dash" => some .dash | .sym "dashBad" => some .dashBad
  | .sym "many" => some .many
  | .list [.sym "path", p] => do pure (.path (← asNat p))
  | .list [.sym "dashNum", n] => do pure (.dashNum (← asInt n))
  | _ => none
def decDArg : Sx → Option DArg
  | .sym "none" => some .none | .sym "bad" => some .bad | .sym "clear" => some .clear
  | .list [.sym "plus", n] => do pure (.plus (← asNat n))
  | .list [.sym "minus", n] => do pure (.minus (← asNat n))
  | _ => none

def decOp : Sx → Option Op
  | .list [.sym "fixCwd"] => some .fixCwd
  | .list [.sym "extChdir", p] => do pure (.extChdir (← asNat p))
  | .list [.sym "cd", a, f] => do pure (.cd (← decCdArg a) (← asBool f))
  | .list [.sym "pushd", a, d] => do pure (.pushd (← decPArg a) (← asBool d))
  | .list [.sym "popd", a, d] => do pure (.popd (← decPArg a) (← asBool d))
  | .list [.sym "dirs", a] => do pure (.dirs (← decDArg a))
  | .list [.sym "rmdir", p] => do pure (.rmdir (← asNat p))
  | .list [.sym "mkdir", p] => do pure (.mkdir (← asNat p))
  | .list [.sym "setCfg", a, m, z] => do pure (.setCfg (← asBool a) (← asBool m) (← asInt z))
  | _ => none

def encErr : Err → String
  | .noPrev => "noPrev" | .invalid => "invalid" | .tooFew => "tooFew" | .arity => "arity"
  | .noSuch => "noSuch" | .notDir => "notDir" | .perm => "perm" | .empty => "empty"
def encOut : Out → Sx
  | .ok => .sym "ok"
  | .listing l => .list [.sym "listing", ofListWith ofNat l]
  | .err e => .list [.sym "err", .sym (encErr e)]

def handle (op : String) (args : List Sx) : Option Sx :=
  match op, args with
  | "c16.step", [c, s, o] => do
    let (c', s', out) := step (← decCfg c) (← decSt s) (← decOp o)
    pure (.list [encCfg c', encSt s', encOut out])
  | "c16.rotate", [l, k] => do
    pure (ofListWith ofNat (rotateListing (← asListOf asNat l) (← asNat k)))
  | _, _ => none

end Driver.C16
