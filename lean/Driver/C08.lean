import Driver.Sexp
import XonshVerif.Model.PathLookup
open Sx
namespace Driver.C08
open PathLookup

def decPairs : Sx → Option (List (Nat × Nat)) := asListOf (fun
  | .list [a, b] => do pure (← asNat a, ← asNat b)
  | _ => none)

def mkFs (rp : List (Nat × Nat)) (dirs : List Nat) (ex : List (Nat × Nat)) : Fs :=
  { rp := fun d => (rp.lookup d).getD d
    isDir := fun d => dirs.contains d
    hasExec := fun d n => ex.contains (d, n) }

def decOp : Sx → Option Op
  | .list [.sym "lookup", n] => do pure (.lookup (← asNat n))
  | .list [.sym "create", d, n] => do pure (.create (← asNat d) (← asNat n))
  | .list [.sym "delete", d, n] => do pure (.delete (← asNat d) (← asNat n))
  | .list [.sym "chmodOff", d, n] => do pure (.chmodOff (← asNat d) (← asNat n))
  | .list [.sym "setPath", p] => do pure (.setPath (← asListOf asNat p))
  | .list [.sym "setMtime", d, m] => do pure (.setMtime (← asNat d) (← asNat m))
  | _ => none

def runObs (old : Bool) (w : World) (c : Cache) : List Op → List Sx
  | [] => []
  | op :: rest =>
    let w' := stepWorld w op
    match op with
    | .lookup n =>
      let c' := if old then updateCacheOld w' c else updateCache w' c
      .list [ofOpt ofNat (c'.cmds.lookup n), ofOpt ofNat (worldLocate w' n)] :: runObs old w' c' rest
    | _ => .sym "-" :: runObs old w' c rest

def handle (op : String) (args : List Sx) : Option Sx :=
  match op, args with
  | "c08.locate", [paths, rp, dirs, ex, n] => do
    let fs := mkFs (← decPairs rp) (← asListOf asNat dirs) (← decPairs ex)
    let paths ← asListOf asNat paths
    let n ← asNat n
    pure (.list [ofOpt ofNat (locate fs paths n), ofOpt ofNat (posixFirst fs paths n)])
  | "c08.cache", [old, path, execs, ops] => do
    let execs ← asListOf (fun
      | .list [d, ns] => do pure (← asNat d, ← asListOf asNat ns)
      | _ => none) execs
    let w : World := ⟨[], execs, ← asListOf asNat path⟩
    pure (.list (runObs (← asBool old) w Cache.empty (← asListOf decOp ops)))
  | _, _ => none

end Driver.C08
