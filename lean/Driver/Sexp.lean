/-
Line protocol codec.  One request per line:  `<op> <sexp>*`  →  one answer line `<sexp>`.
Tokens are separated by single spaces; `(` and `)` are tokens; an atom is a decimal integer,
`s:<hex of UTF-8>` (a string) or a bare symbol.  The Python side (`xv/codec.py`) is the same codec.
-/
namespace Sx

inductive Sx where
  | int : Int → Sx
  | str : String → Sx
  | sym : String → Sx
  | list : List Sx → Sx
  deriving Repr, BEq, Inhabited

open Sx

def hexDigit (c : Char) : Option Nat :=
  if '0' ≤ c ∧ c ≤ '9' then some (c.toNat - '0'.toNat)
  else if 'a' ≤ c ∧ c ≤ 'f' then some (c.toNat - 'a'.toNat + 10)
  else none

def hexToBytes : List Char → Option (List UInt8)
  | [] => some []
  | [_] => none
  | a :: b :: rest => do
    let x ← hexDigit a
    let y ← hexDigit b
    let r ← hexToBytes rest
    pure (UInt8.ofNat (x * 16 + y) :: r)

def nibble (n : Nat) : Char :=
  if n < 10 then Char.ofNat (n + '0'.toNat) else Char.ofNat (n - 10 + 'a'.toNat)

def bytesToHex (bs : List UInt8) : String :=
  String.ofList (bs.flatMap fun b => [nibble (b.toNat / 16), nibble (b.toNat % 16)])

def atom (t : String) : Sx :=
  if t.startsWith "s:" then
    match hexToBytes (t.drop 2).toString.toList with
    | some bs =>
      match String.fromUTF8? (ByteArray.mk bs.toArray) with
      | some s => .str s
      | none => .sym t
    | none => .sym t
  else match t.toInt? with
    | some i => .int i
    | none => .sym t

/-- parse a token list into a list of s-expressions (until `)` or end); returns rest -/
partial def parseMany : List String → List Sx → (List Sx × List String)
  | [], acc => (acc.reverse, [])
  | ")" :: rest, acc => (acc.reverse, rest)
  | "(" :: rest, acc =>
    let (inner, rest') := parseMany rest []
    parseMany rest' (.list inner :: acc)
  | t :: rest, acc => parseMany rest (atom t :: acc)

def parseLine (line : String) : List Sx :=
  let toks := (line.splitOn " ").filter (· ≠ "")
  (parseMany toks []).1

partial def render : Sx → String
  | .int i => toString i
  | .str s => "s:" ++ bytesToHex s.toUTF8.toList
  | .sym s => s
  | .list xs => "( " ++ String.join (xs.map fun x => render x ++ " ") ++ ")"

-- convenience decoders ------------------------------------------------------
def asInt : Sx → Option Int | .int i => some i | _ => none
def asNat : Sx → Option Nat | .int i => if i ≥ 0 then some i.toNat else none | _ => none
def asStr : Sx → Option String | .str s => some s | _ => none
def asSym : Sx → Option String | .sym s => some s | _ => none
def asList : Sx → Option (List Sx) | .list l => some l | _ => none
def asBool : Sx → Option Bool
  | .sym "T" => some true | .sym "F" => some false
  | .int 1 => some true | .int 0 => some false | _ => none
def asListOf {α} (f : Sx → Option α) : Sx → Option (List α)
  | .list l => l.mapM f | _ => none
def ofBool (b : Bool) : Sx := .sym (if b then "T" else "F")
def ofNat (n : Nat) : Sx := .int n
def ofListWith {α} (f : α → Sx) (l : List α) : Sx := .list (l.map f)
def ofOpt {α} (f : α → Sx) : Option α → Sx
  | none => .sym "none" | some a => .list [.sym "some", f a]
def asOpt {α} (f : Sx → Option α) : Sx → Option (Option α)
  | .sym "none" => some none
  | .list [.sym "some", a] => (f a).map some
  | _ => none
/-- a Python `str` sent as a list of code points (may hold lone surrogates) -/
def asCodes : Sx → Option (List Nat) := asListOf asNat
def ofCodes (l : List Nat) : Sx := ofListWith ofNat l

end Sx
