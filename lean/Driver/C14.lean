import Driver.Sexp
import XonshVerif.Model.HistGcSpec
open Sx
namespace Driver.C14
open HistGc

def decF : Sx → Option F
  | .list [a, b, c, d] => do pure (← asInt a, ← asInt b, ← asInt c, ← asInt d)
  | _ => none
def encF (f : F) : Sx := .list [.int f.1, .int f.2.1, .int f.2.2.1, .int f.2.2.2]
def decUnits : Sx → Option Units
  | .sym "commands" => some .commands | .sym "files" => some .files
  | .sym "s" => some .seconds | .sym "b" => some .bytes | _ => none
def decFL : Sx → Option (F × Bool)
  | .list [f, l] => do pure (← decF f, ← asBool l)
  | _ => none

def handle (op : String) (args : List Sx) : Option Sx :=
  match op, args with
  | "c14.select", [u, hsize, now, files] => do
    let u ← decUnits u; let hsize ← asInt hsize; let now ← asInt now
    let files ← asListOf decF files
    let rm := specRemoved u hsize now files
    pure (.list [.int (specSizeOver u hsize now rm), ofListWith encF rm])
  | "c14.run", [u, force, hsize, now, all] => do
    let u ← decUnits u; let force ← asBool force; let hsize ← asInt hsize; let now ← asInt now
    let all ← asListOf decFL all
    pure (ofListWith encF (specRun u force hsize now all))
  | "c14.sql", [n, rows] => do
    let n ← asNat n; let rows ← asListOf asInt rows
    pure (ofListWith Sx.int (sqlKept n rows))
  | _, _ => none

end Driver.C14
