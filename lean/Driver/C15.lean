import Driver.Sexp
import XonshVerif.Model.Alias
open Sx
namespace Driver.C15
open Alias

def decVal : Sx → Option Val
  | .list [.sym "words", ws] => do pure (.words (← asListOf asNat ws))
  | .list [.sym "callable", .int i] => some (.callable i.toNat)
  | .list [.sym "decorator", .int i] => some (.decorator i.toNat)
  | .list [.sym "retcmd", .int i] => some (.retcmd i.toNat)
  | _ => none

def decEntry : Sx → Option (Tok × Val)
  | .list [k, v] => do pure (← asNat k, ← decVal v)
  | _ => none

/-- scripted behaviour of return-command aliases: `( id kind ( words ) )` -/
inductive RetSpec where
  | pre (ws : List Tok)      -- returns ws ++ args
  | fixed (ws : List Tok)    -- returns ws (drops args)
  | rev (ws : List Tok)      -- returns ws ++ reversed args
  | raise                    -- raises inside the alias
def decRet : Sx → Option (Nat × RetSpec)
  | .list [i, .sym "pre", ws] => do pure (← asNat i, .pre (← asListOf asNat ws))
  | .list [i, .sym "fixed", ws] => do pure (← asNat i, .fixed (← asListOf asNat ws))
  | .list [i, .sym "rev", ws] => do pure (← asNat i, .rev (← asListOf asNat ws))
  | .list [i, .sym "raise"] => do pure (← asNat i, .raise)
  | _ => none
def mkOracle (rs : List (Nat × RetSpec)) : Oracle := fun id args =>
  match rs.lookup id with
  | some (.pre ws) => some (ws ++ args)
  | some (.fixed ws) => some ws
  | some (.rev ws) => some (ws ++ args.reverse)
  | some .raise => none
  | none => none

def encVal : Val → Sx
  | .words ws => .list [.sym "words", ofListWith ofNat ws]
  | .callable i => .list [.sym "callable", .int i]
  | .decorator i => .list [.sym "decorator", .int i]
  | .retcmd i => .list [.sym "retcmd", .int i]
def encRes : Res → Sx
  | .cmd ws => .list [.sym "cmd", ofListWith ofNat ws]
  | .call v a => .list [.sym "call", encVal v, ofListWith ofNat a]
  | .raisedInAlias => .sym "raisedInAlias"
  | .valueError => .sym "valueError"
  | .notAlias => .sym "notAlias"

/-- `expand_path` on tokens, as a finite table (identity elsewhere) -/
def mkExp (tbl : List (Nat × Nat)) : Tok → Tok := fun t => (tbl.lookup t).getD t
def decExp : Sx → Option (List (Nat × Nat)) := asListOf (fun
  | .list [a, b] => do pure (← asNat a, ← asNat b)
  | _ => none)

def handle (op : String) (args : List Sx) : Option Sx :=
  match op, args with
  | "c15.get", [tbl, rets, ex, key, a] => do
    let tbl ← asListOf decEntry tbl
    let orc := mkOracle (← asListOf decRet rets)
    let (r, decs, seen) := Alias.get tbl orc (mkExp (← decExp ex)) (← asNat key) (← asListOf asNat a)
    pure (.list [encRes r, ofListWith ofNat decs, ofListWith ofNat seen])
  | "c15.resolve", [tbl, rets, ex, cmd] => do
    let tbl ← asListOf decEntry tbl
    let orc := mkOracle (← asListOf decRet rets)
    let s := specResolve tbl orc (mkExp (← decExp ex)) (← asListOf asNat cmd)
    pure (.list [ofListWith ofNat s.cmd, encRes s.alias, ofListWith ofNat s.decorators])
  | _, _ => none

end Driver.C15
