import Driver.Sexp
import XonshVerif.Model.Redir
open Sx
namespace Driver.C07
open Redir

def asChars (x : Sx) : Option Str := (asStr x).map String.toList
def ofChars (s : Str) : Sx := .str (String.ofList s)

def decTables : Sx → Option Tables
  | .list [rx, modes, wm, ra, re, ro, e2o, o2e, a2p, e2p] => do
    let rx ← asListOf (fun
      | .list [w, a, b, c] => do pure (← asChars w, (← asChars a, ← asChars b, ← asChars c))
      | _ => none) rx
    let modes ← asListOf (fun
      | .list [k, v] => do pure (← asChars k, ← asChars v)
      | _ => none) modes
    pure ⟨rx, modes, ← asListOf asChars wm, ← asListOf asChars ra, ← asListOf asChars re, ← asListOf asChars ro,
          ← asListOf asChars e2o, ← asListOf asChars o2e, ← asListOf asChars a2p, ← asListOf asChars e2p⟩
  | _ => none

def decLoc : Sx → Option Loc
  | .sym "none" => some .none
  | .sym "many" => some .many
  | .list [.sym "one", t] => do pure (.one (← asNat t))
  | _ => none

def decKind : Sx → Option Kind
  | .sym "proc" => some (.proc true)
  | .sym "procU" => some (.proc false)
  | .sym "ta" => some (.alias true)
  | .sym "ua" => some (.alias false)
  | _ => none

def decStage : Sx → Option Stage
  | .list [k, rs] => do
    let rs ← asListOf (fun
      | .list [r, l] => do pure (← asChars r, ← decLoc l)
      | _ => none) rs
    pure ⟨← decKind k, rs⟩
  | _ => none

def decCap : Sx → Option Cap
  | .sym "uncaptured" => some .uncaptured
  | .sym "hidden" => some .hidden
  | .sym "stdout" => some .stdout
  | .sym "object" => some .object
  | _ => none

def decTState : Sx → Option TState
  | .sym "present" => some .present
  | .sym "missing" => some .missing
  | .sym "unopenable" => some .unopenable
  | _ => none

def decQuirks : Sx → Option Quirks
  | .list [a, b, c, d, e, f, g] => do
    pure ⟨← asBool a, ← asBool b, ← asBool c, ← asBool d, ← asBool e, ← asBool f, ← asBool g⟩
  | _ => none

def decCfg : Sx → Option Cfg
  | .list [a, b, c] => do pure ⟨← asBool a, ← asBool b, ← asBool c⟩
  | _ => none

def errName : Err → String
  | .noMatch => "noMatch" | .valueErr => "valueErr" | .unrecognized => "unrecognized"
  | .unsupportedLoc => "unsupportedLoc" | .openFailed => "openFailed" | .multiStdin => "multiStdin"
  | .multiStdout => "multiStdout" | .multiStderr => "multiStderr" | .needsPipe => "needsPipe"
  | .unthreadable => "unthreadable" | .intNotReadable => "intNotReadable"

def ofErr (e : Err) : Sx := .sym (errName e)

def ofPlace : Place → Sx
  | .file t m => .list [.sym "file", ofNat t, ofChars m]
  | .stdinOf j => .list [.sym "stdin", ofNat j]
  | .capOut => .sym "capOut"
  | .capErr => .sym "capErr"
  | .termOut => .sym "termOut"
  | .termErr => .sym "termErr"

def ofSrc : Src → Sx
  | .inherit => .sym "inherit"
  | .file t => .list [.sym "file", ofNat t]
  | .pipe => .sym "pipe"
  | .broken => .sym "broken"

def ofStageOut (s : StageOut) : Sx :=
  .list [ofSrc s.src, ofListWith ofPlace s.out, ofListWith ofPlace s.err,
         ofListWith (fun (x : Nat × Str) => .list [ofNat x.1, ofChars x.2]) s.files]

def ofOutcome (o : Outcome) : Sx := .list [ofOpt ofErr o.err, ofBool o.raisedAfter, ofListWith ofStageOut o.stages]

def ofSpecOutcome : SpecOutcome → Sx
  | .error => .list [.sym "error"]
  | .unspecified => .list [.sym "unspecified"]
  | .ok st => .list [.sym "ok", ofListWith ofStageOut st]

def ofCls : Cls → Sx
  | .allPipe => .list [.sym "allPipe"]
  | .errPipe => .list [.sym "errPipe"]
  | .errToOut => .list [.sym "errToOut"]
  | .outToErr => .list [.sym "outToErr"]
  | .input => .list [.sym "input"]
  | .outFile m => .list [.sym "outFile", ofChars m]
  | .errFile m => .list [.sym "errFile", ofChars m]
  | .allFile m => .list [.sym "allFile", ofChars m]

def ofSlot : Slot → Sx
  | .file t m => .list [.sym "file", ofNat t, ofChars m]
  | .toStdout => .sym "STDOUT"
  | .fd2 => .sym "fd2"
  | .pipeAll => .sym "PIPE_ALL"
  | .pipeErr => .sym "PIPE_ERR"
  | .pipeW i => .list [.sym "pipeW", ofNat i]
  | .pipeR i => .list [.sym "pipeR", ofNat i]
  | .capOutW => .sym "capOutW"
  | .capErrW => .sym "capErrW"
  | .shellErr => .sym "shellErr"

def ofExcept {α} (f : α → Sx) : Except Err α → Sx
  | .ok a => .list [.sym "ok", f a]
  | .error e => .list [.sym "error", ofErr e]

def mkTs (l : List TState) : Nat → TState := fun t => l.getD t .present

def ofOp : Op → Sx
  | .outFile a => .list [.sym "outFile", ofBool a]
  | .errFile a => .list [.sym "errFile", ofBool a]
  | .allFile a => .list [.sym "allFile", ofBool a]
  | .errToOut => .list [.sym "errToOut"]
  | .outToErr => .list [.sym "outToErr"]
  | .allToPipe => .list [.sym "allToPipe"]
  | .errToPipe => .list [.sym "errToPipe"]
  | .input => .list [.sym "input"]

def handle (op : String) (args : List Sx) : Option Sx :=
  match op, args with
  -- one pipeline: the model's outcome, the documented outcome, and whether the first satisfies the second
  | "c07.route", [tbl, q, cfg, cap, stages, ts] => do
    let T ← decTables tbl
    let q ← decQuirks q
    let cfg ← decCfg cfg
    let cap ← decCap cap
    let stages ← asListOf decStage stages
    let ts := mkTs (← asListOf decTState ts)
    let m := route T ts q cfg cap stages
    let s := specRoute ts cfg cap stages
    pure (.list [ofOutcome m, ofSpecOutcome s, ofBool (agrees m s)])
  -- the decoder on a list of operator strings: _parse_redirects and the classification of _redirect_streams
  | "c07.decode", [tbl, rs] => do
    let T ← decTables tbl
    let rs ← asListOf asChars rs
    pure (.list (rs.map fun r =>
      .list [ofExcept (fun (x : Str × Option Str × Str) => .list [ofChars x.1, ofOpt ofChars x.2.1, ofChars x.2.2]) (parseRedirects T r),
             ofExcept ofCls (classify T r),
             ofOpt ofOp (specDecode r)]))
  -- _redirect_streams(r, loc) as slots
  | "c07.streams", [tbl, r, loc, ts] => do
    let T ← decTables tbl
    let ts := mkTs (← asListOf decTState ts)
    pure (ofExcept (fun (x : Option Slot × Option Slot × Option Slot) => .list [ofOpt ofSlot x.1, ofOpt ofSlot x.2.1, ofOpt ofSlot x.2.2])
      (redirectStreams T ts (← asChars r) (← decLoc loc)))
  -- cmds_to_specs: the slots of every spec
  | "c07.specs", [tbl, q, cfg, cap, stages, ts] => do
    let T ← decTables tbl
    let ts := mkTs (← asListOf decTState ts)
    pure (ofExcept (ofListWith fun (s : Spec) => .list [ofBool s.threadable, ofOpt ofSlot s.sin, ofOpt ofSlot s.sout, ofOpt ofSlot s.serr])
      (cmdsToSpecs T ts (← decQuirks q) (← decCfg cfg) (← decCap cap) (← asListOf decStage stages)))
  | _, _ => none

end Driver.C07
