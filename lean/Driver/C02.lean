import Driver.Sexp
import XonshVerif.Model.Scope
open Sx
namespace Driver.C02
open Scope

def decNames : Sx → Option (List Name) := asListOf asNat

partial def decExpr : Sx → Option Expr
  | .list [.sym "n", x] => do pure (.name (← asNat x))
  | .list [.sym "k", b] => do pure (.const (← asBool b))
  | .list [.sym "o", k, .list cs] => do
    let kind : NodeKind := match (← asNat k) with
      | 0 => .attr | 1 => .call | 2 => .binop | 3 => .compare | 4 => .tuple | 5 => .subscript
      | 6 => .ifexp | 7 => .fstr | 8 => .dict | _ => .star
    pure (.node kind (← decExprs cs))
  | .list [.sym "b", .list vs] => do pure (.boolop (← decExprs vs))
  | .list [.sym "u", e] => do pure (.unary (← decExpr e))
  | .list [.sym "l", ps, b] => do pure (.lam (← decNames ps) (← decExpr b))
  | .list [.sym "c", elt, tg, it, .list conds] => do
    pure (.comp (← decExpr elt) (← decNames tg) (← decExpr it) (← decExprs conds))
  | .list [.sym "w", x, v] => do pure (.walrus (← asNat x) (← decExpr v))
  | _ => none
where
  decExprs : List Sx → Option Exprs
    | [] => some .nil
    | e :: es => do pure (.cons (← decExpr e) (← decExprs es))

def decExprsSx : Sx → Option Exprs
  | .list l => decExpr.decExprs l
  | _ => none

partial def decTgt : Sx → Option Tgt
  | .list [.sym "n", x] => do pure (.name (← asNat x))
  | .list [.sym "a", x] => do pure (.attr (← asNat x))
  | .list [.sym "s", x] => do pure (.star (← asNat x))
  | .list [.sym "q", isL, .list ts] => do pure (.seq (← asBool isL) (← decTgts ts))
  | _ => none
where
  decTgts : List Sx → Option Tgts
    | [] => some .nil
    | t :: ts => do pure (.cons (← decTgt t) (← decTgts ts))

def decTgtsSx : Sx → Option Tgts
  | .list l => decTgt.decTgts l
  | _ => none

def decItem : Sx → Option ImpItem
  | .list [h, d, a] => do pure ⟨← asNat h, ← asBool d, ← asOpt asNat a⟩
  | _ => none

mutual
  partial def decStmt : Sx → Option Stmt
    | .list [.sym "expr", sid, e] => do pure (.expr (← asNat sid) (← decExpr e))
    | .list [.sym "assign", sid, ts, v] => do pure (.assign (← asNat sid) (← decTgtsSx ts) (← decExpr v))
    | .list [.sym "ann", sid, t, a, v] => do pure (.annassign (← asNat sid) (← decTgt t) (← decExpr a) (← decExprsSx v))
    | .list [.sym "aug", sid, t, v] => do pure (.augassign (← asNat sid) (← decTgt t) (← decExpr v))
    | .list [.sym "imp", sid, items] => do pure (.imp (← asNat sid) (← asListOf decItem items))
    | .list [.sym "impf", sid, items] => do pure (.impFrom (← asNat sid) (← asListOf decItem items))
    | .list [.sym "def", sid, f, ps, dfl, body, decos] => do
      pure (.fdef (← asNat sid) (← asNat f) (← decNames ps) (← decExprsSx dfl) (← decStmts body) (← decExprsSx decos))
    | .list [.sym "cls", sid, cn, bases, body, decos] => do
      pure (.cdef (← asNat sid) (← asNat cn) (← decExprsSx bases) (← decStmts body) (← decExprsSx decos))
    | .list [.sym "for", sid, t, it, body, orelse] => do
      pure (.for_ (← asNat sid) (← decTgt t) (← decExpr it) (← decStmts body) (← decStmts orelse))
    | .list [.sym "while", sid, t, body, orelse] => do
      pure (.while_ (← asNat sid) (← decExpr t) (← decStmts body) (← decStmts orelse))
    | .list [.sym "if", sid, t, body, orelse] => do
      pure (.if_ (← asNat sid) (← decExpr t) (← decStmts body) (← decStmts orelse))
    | .list [.sym "with", sid, ctxs, ts, body] => do
      pure (.with_ (← asNat sid) (← decExprsSx ctxs) (← decTgtsSx ts) (← decStmts body))
    | .list [.sym "try", sid, body, hs, orelse, fin] => do
      pure (.try_ (← asNat sid) (← decStmts body) (← decHandlers hs) (← decStmts orelse) (← decStmts fin))
    | .list [.sym "global", sid, xs] => do pure (.global_ (← asNat sid) (← decNames xs))
    | .list [.sym "del", sid, ns, nested] => do pure (.del (← asNat sid) (← decNames ns) (← decNames nested))
    | .list [.sym "ret", sid, v] => do pure (.ret (← asNat sid) (← decExprsSx v))
    | .list [.sym "pass", sid] => do pure (.pass (← asNat sid))
    | _ => none
  partial def decStmts : Sx → Option Stmts
    | .list [] => some .nil
    | .list (s :: ss) => do pure (.cons (← decStmt s) (← decStmts (.list ss)))
    | _ => none
  partial def decHandlers : Sx → Option Handlers
    | .list [] => some .nil
    | .list (.list [sid, ty, nm, body] :: rest) => do
      pure (.cons (← asNat sid) (← decExprsSx ty) (← asOpt asNat nm) (← decStmts body) (← decHandlers (.list rest)))
    | _ => none
end

def decFixes : Sx → Option Fixes
  | .list [a, b, c, d, e, f, g, h, i] => do
    pure ⟨← asBool a, ← asBool b, ← asBool c, ← asBool d, ← asBool e, ← asBool f, ← asBool g, ← asBool h, ← asBool i⟩
  | _ => none

def encVerdict : Verdict → Sx
  | .keep => .sym "keep" | .offer => .sym "offer" | .builtin => .sym "builtin"

def encRec (r : Rec) : Sx :=
  .list [ofNat r.sid, ofBool r.ok, ofListWith ofNat r.delRead, ofBool r.tame, ofBool r.shadow, ofBool r.g,
         .list (r.decs.map fun d => .list [ofNat d.kind, encVerdict d.v])]

def handle (op : String) (args : List Sx) : Option Sx :=
  match op, args with
  | "c02.run", [b, u, fx, prog] => do
    let env : Env := ⟨← decNames b, ← decNames u, ← decFixes fx⟩
    pure (.list ((run env (← decStmts prog)).map encRec))
  | _, _ => none

end Driver.C02
