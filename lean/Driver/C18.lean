import Driver.Sexp
import XonshVerif.Model.PathQuote
open Sx
namespace Driver.C18
open PathQuote

def toStr (l : List Nat) : Str := l.map Char.ofNat
def ofStr (s : Str) : Sx := ofListWith (fun c : Char => ofNat c.toNat) s
def asS (x : Sx) : Option Str := (asCodes x).map toStr

def asciiWord (c : Char) : Bool :=
  ('a' ≤ c && c ≤ 'z') || ('A' ≤ c && c ≤ 'Z') || ('0' ≤ c && c ≤ '9') || c == '_'
def asciiIdStart (c : Char) : Bool :=
  ('a' ≤ c && c ≤ 'z') || ('A' ≤ c && c ≤ 'Z') || c == '_'

/-- header: ( asciiSpecial keywords ctrl ) as the running implementation has them;
`extra`: ( (codepoint special word idStart) … ) for the non-ASCII characters at hand -/
def mkTables (hdr extra : Sx) : Option Tables := do
  let (sp, kws, ctrl) ← match hdr with
    | .list [sp, kws, ctrl] => some (sp, kws, ctrl)
    | _ => none
  let sp ← asListOf asNat sp
  let kws ← asListOf asS kws
  let ctrl ← asListOf (fun
    | .list [k, v] => do pure (Char.ofNat (← asNat k), ← asS v)
    | _ => none) ctrl
  let extra ← asListOf (fun
    | .list [c, a, b, d] => do pure (← asNat c, ← asBool a, ← asBool b, ← asBool d)
    | _ => none) extra
  let look (c : Char) : Option (Bool × Bool × Bool) := extra.lookup c.toNat
  pure {
    special := fun c => if c.toNat < 128 then sp.contains c.toNat else ((look c).map (·.1)).getD false
    word := fun c => if c.toNat < 128 then asciiWord c else ((look c).map (·.2.1)).getD false
    idStart := fun c => if c.toNat < 128 then asciiIdStart c else ((look c).map (·.2.2)).getD false
    keywords := kws
    ctrl := ctrl
    quoteToUse := quoteToUseRef
    rawQuote := rawQuoteRef }

def asPairs (x : Sx) : Option (List (Str × Str)) := asListOf (fun
  | .list [a, b] => do pure (← asS a, ← asS b)
  | _ => none) x

def mkEnv (vars homes : Sx) : Option Env := do
  let vs ← asPairs vars
  let hs ← asPairs homes
  pure { vars := fun n => vs.lookup n, home := fun u => hs.lookup u }

def asMode : Sx → Option Mode
  | .sym "atEnd" => some .atEnd
  | .sym "closedInside" => some .closedInside
  | .sym "closedAfter" => some .closedAfter
  | _ => none

def ofRead : Read → Sx
  | .args l => .list [.sym "args", ofListWith ofStr l]
  | .error => .sym "error"
  | .unmodelled => .sym "unmodelled"

def clsName : Cls → String
  | .trailingSpace => "trailing-space"
  | .lineSeparator => "line-separator"
  | .bangUnquoted => "bang-unquoted"
  | .oddToken => "odd-token"
  | .pythonStatement => "python-statement"
  | .tildeExpansion => "tilde-expansion"
  | .dollarExpansion => "dollar-expansion"
  | .trailingBackslash => "trailing-backslash"
  | .rawQuoteConflict => "raw-quote-conflict"
  | .rawControlChar => "raw-control-char"
  | .tripleQuoteEnd => "triple-quote-end"
  | .tripleCursorInside => "triple-quote-cursor-inside"
  | .loneQuoteInside => "lone-quote-cursor-inside"
  | .tildeCursorInside => "tilde-entry-cursor-inside"

def handle (op : String) (args : List Sx) : Option Sx :=
  match op, args with
  | "c18.complete", [hdr, extra, vars, homes, wq, se, name, o, typedEmpty, mode, isDir] => do
    let wq ← asBool wq
    let se ← asBool se
    let T ← mkTables hdr extra
    let E ← mkEnv vars homes
    let name ← asS name
    let o ← asS o
    let te ← asBool typedEmpty
    let m ← asMode mode
    let d ← asBool isDir
    let (st, en, ap) := seenStyle wq o te m
    let texts := completions T E name st en d ap
    let tail := lineTail o m
    pure (.list [
      ofListWith ofStr texts,
      ofListWith (fun t => ofRead (readBack T E (t ++ tail))) texts,
      ofListWith (fun c => .sym (clsName c)) (classify T E wq se name o te m d),
      .list [ofStr st, ofStr en, ofBool ap]])
  | "c18.quote", [hdr, extra, s, start, end_, isDir, appendEnd] => do
    let T ← mkTables hdr extra
    pure (ofStr (quoteOne T (← asS s) (← asS start) (← asS end_) (← asBool isDir) (← asBool appendEnd)))
  | "c18.read", [hdr, extra, vars, homes, text] => do
    let T ← mkTables hdr extra
    let E ← mkEnv vars homes
    pure (ofRead (readBack T E (← asS text)))
  | "c18.helpers", [hdr, extra, s] => do
    let T ← mkTables hdr extra
    let s ← asS s
    pure (.list [ofBool (needsQuotes T s), ofStr (quoteToUseRef s), ofStr (rawQuoteRef s), ofBool (hasCtrl T s), ofStr (translate T.ctrl s)])
  | "c18.expand", [hdr, extra, vars, homes, s] => do
    let T ← mkTables hdr extra
    let E ← mkEnv vars homes
    pure (ofStr (expandPath T E (← asS s)))
  | "c18.recon", [text, cursor, oq, pre, suf, cq, after] => do
    let c : CmdCtx := ⟨← asS oq, ← asS pre, ← asS suf, ← asS cq, ← asBool after⟩
    pure (ofBool (reconstructs (← asS text) (← asNat cursor) c))
  | "c18.reconpy", [text, cursor, code, idx] => do
    pure (ofBool (reconstructsPy (← asS text) (← asNat cursor) (← asS code) (← asNat idx)))
  | "c18.splice", [text, cursor, lprefix, comp] => do
    pure (ofStr (splice (← asS text) (← asNat cursor) (← asNat lprefix) (← asS comp)))
  | _, _ => none

end Driver.C18
