import Driver.Sexp
import XonshVerif.Model.Conv
open Sx
namespace Driver.C10
open Conv DetypeM

def toStr (l : List Nat) : Str := l.map Char.ofNat
def ofStr (s : Str) : Sx := ofListWith (fun c : Char => ofNat c.toNat) s

def decOp : Sx → Option Op
  | .list [.sym "setStr", k, x] => do pure (.setStr (← asNat k) (← asNat x))
  | .list [.sym "setList", k, l] => do pure (.setList (← asNat k) (← asListOf asNat l))
  | .list [.sym "del", k] => do pure (.del (← asNat k))
  | .list [.sym "getitem", k] => do pure (.getitem (← asNat k))
  | .list [.sym "mutateVia", k, x] => do pure (.mutateVia (← asNat k) (← asNat x))
  | .list [.sym "mutateHeld", r, x] => do pure (.mutateHeld (← asNat r) (← asNat x))
  | .list [.sym "detype"] => some .detype
  | _ => none

def encD : Detyped → Sx
  | .str s => .list [.sym "str", ofNat s]
  | .list l => .list [.sym "list", ofListWith ofNat l]
def encMap (m : List (Key × Detyped)) : Sx := ofListWith (fun p : Key × Detyped => .list [ofNat p.1, encD p.2]) m

def runObs (s : St) : List Op → List Sx
  | [] => []
  | op :: rest =>
    let (s', out) := step s op
    .list [ofOpt encMap out, encMap (fresh s), ofNat s.nextRef] :: runObs s' rest

def handle (op : String) (args : List Sx) : Option Sx :=
  match op, args with
  | "c10.split", [sep, s] => do
    pure (ofListWith ofStr (sepToSeq (Char.ofNat (← asNat sep)) (toStr (← asCodes s))))
  | "c10.join", [sep, l] => do
    pure (ofStr (seqToSep (Char.ofNat (← asNat sep)) ((← asListOf asCodes l).map toStr)))
  | "c10.toBool", [falses, s] => do
    pure (ofBool (toBool ((← asListOf asCodes falses).map toStr) (toStr (← asCodes s))))
  | "c10.boolToStr", [b] => do pure (ofStr (boolToStr (← asBool b)))
  | "c10.run", [ops] => do pure (.list (runObs DetypeM.init (← asListOf decOp ops)))
  | _, _ => none

end Driver.C10
