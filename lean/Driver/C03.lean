import Driver.Sexp
import XonshVerif.Model.LogicalLine
import XonshVerif.Model.Wrap
open Sx
namespace Driver.C03

def toLine (l : List Nat) : List Char := l.map Char.ofNat
def ofLine (l : List Char) : Sx := ofCodes (l.map Char.toNat)
def asLines : Sx → Option (List (List Char)) := asListOf (fun x => (asCodes x).map toLine)

def handle (op : String) (args : List Sx) : Option Sx :=
  match op, args with
  | "c03.cont", [s] => do pure (ofBool (LogicalLine.endsCont (toLine (← asCodes s))))
  | "c03.open3", [s] => do
    pure (ofOpt (fun c => ofNat c.toNat) (LogicalLine.openTriple (toLine (← asCodes s))))
  | "c03.logical", [ls, idx] => do
    let ls ← asLines ls
    let idx ← asNat idx
    if idx < ls.length then
      let r := LogicalLine.getLogical LogicalLine.pyScan ls idx
      pure (.list [.sym "some", .list [ofLine r.1, ofNat r.2.1, ofNat r.2.2]])
    else pure (.sym "none")
  | "c03.replace", [ls, logical, idx, n] => do
    let r := LogicalLine.replaceLogical (← asLines ls) (toLine (← asCodes logical)) (← asNat idx) (← asNat n)
    pure (ofOpt (ofListWith ofLine) r)
  | "c03.wrap", [line, beg, e0] => do
    let line := toLine (← asCodes line)
    let beg ← asNat beg
    let e0 ← asNat e0
    pure (.list [ofLine (Wrap.wrap line beg e0), ofLine (Wrap.wrapOnly line beg e0), ofNat (Wrap.endOf line e0),
                 ofLine (Wrap.erase (Wrap.wrap line beg e0) beg (Wrap.endOf line e0))])
  | _, _ => none

end Driver.C03
