import Driver.Sexp
import XonshVerif.Model.CtxCheck
open Sx
namespace Driver.C01
open CtxCheck TokMap

def codesOf (s : String) : List Nat := s.toList.map Char.toNat
def strOf (l : List Nat) : String := String.ofList (l.map Char.ofNat)

def asCodesStr : Sx → Option (List Nat)
  | .str s => some (codesOf s)
  | _ => none

def decPairs : Sx → Option (List (List Nat × List Nat)) := asListOf (fun
  | .list [a, b] => do pure (← asCodesStr a, ← asCodesStr b)
  | _ => none)

partial def decTgt : Sx → Option Tgt
  | .list [.sym "leaf", tags] => do pure (.leaf (← asListOf asCodesStr tags))
  | .list [.sym "starred", t] => do pure (.starred (← decTgt t))
  | .list [.sym "tuple", .list es] => do pure (.tuple (← es.mapM decTgt))
  | .list [.sym "list", .list es] => do pure (.list (← es.mapM decTgt))
  | _ => none

def decMode : Sx → Option Mode
  | .sym "assign" => some .assign
  | .sym "aug" => some .aug
  | .sym "del" => some .del
  | _ => none

def ofMsg : Option (List Nat) → Sx
  | none => .sym "none"
  | some m => .list [.sym "some", .str (strOf m)]

def handle (op : String) (args : List Sx) : Option Sx :=
  match op, args with
  -- c01.targets rows augMsg emptyMsg recAug ( (mode tgt) … )  ->  ( (xonsh-message-or-none cpython-valid) … )
  | "c01.targets", [rows, augMsg, emptyMsg, recAug, cases] => do
    let c : Cfg := ⟨← decPairs rows, ← asCodesStr augMsg, ← asOpt asCodesStr emptyMsg, ← asBool recAug⟩
    let cs ← asListOf (fun
      | .list [m, t] => do pure (← decMode m, ← decTgt t)
      | _ => none) cases
    pure (.list (cs.map fun (m, t) => .list [ofMsg (notAssignable c t (m == .aug)), ofBool (cpyValid m t), ofBool (noEmptySeq t)]))
  -- c01.toks funny special tokenMap errTok ( op … )  ->  ( (first-match-or-none token-type-or-none) … )
  | "c01.toks", [funny, special, tokenMap, errTok, ops] => do
    let l : Lex := ⟨← asListOf asCodesStr funny, ← decPairs special, ← decPairs tokenMap, ← decPairs errTok⟩
    let os ← asListOf asCodesStr ops
    pure (.list (os.map fun o => .list [ofMsg (firstMatch l.funny o), ofMsg (xonshTok l o)]))
  -- c01.names kwlist kwExtra needWs ( (hasWs word) … )  ->  ( token-type … )
  | "c01.names", [kwlist, kwExtra, needWs, ws] => do
    let kw ← asListOf asCodesStr kwlist
    let ex ← asListOf asCodesStr kwExtra
    let nw ← asListOf asCodesStr needWs
    let cs ← asListOf (fun
      | .list [b, w] => do pure (← asBool b, ← asCodesStr w)
      | _ => none) ws
    pure (.list (cs.map fun (b, w) => .str (strOf (nameTokAt kw ex nw b w))))
  | _, _ => none

end Driver.C01
