#!/bin/sh
# Build the framework from files on disk only (offline): regenerate Gen/*.lean from /repo,
# then build every Lean module (models, lemmas, property theorems) and the driver executable.
set -e
cd "$(dirname "$0")"
/venv/bin/python tools/translate_all.py
cd lean
lake build
echo "setup ok"
