#!/bin/sh
# Build the framework from files on disk only (offline): regenerate Gen/*.lean from /repo for the claimed
# properties, then build their Lean modules (models, lemmas, property theorems) and the driver executable.
# Modules of checks that are still under construction (not in tools/accepted.json) are not built here.
set -e
cd "$(dirname "$0")"
/venv/bin/python tools/translate_all.py
MODS=$(/venv/bin/python tools/accepted_modules.py)
cd lean
lake build xvdriver $MODS
echo "setup ok"
