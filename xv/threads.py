"""Baton-style worker threads: the harness decides the interleaving (one op at a time)."""

import queue
import threading


class Worker:
    """A persistent real thread that executes the callables it is handed, one at a time."""

    def __init__(self, name):
        self.inbox = queue.Queue()
        self.outbox = queue.Queue()
        self.thread = threading.Thread(target=self._loop, name=name, daemon=True)
        self.thread.start()

    def _loop(self):
        while True:
            fn = self.inbox.get()
            if fn is None:
                return
            try:
                self.outbox.put(("ok", fn()))
            except BaseException as e:  # noqa: BLE001
                self.outbox.put(("exc", e))

    def call(self, fn, timeout=60):
        self.inbox.put(fn)
        kind, val = self.outbox.get(timeout=timeout)
        if kind == "exc":
            raise val
        return val

    def stop(self):
        self.inbox.put(None)
        self.thread.join(5)
