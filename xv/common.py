"""Shared machinery for every property check (see DESIGN.md §2-§3).

A property module (xv/props/cXX.py) exposes

    ID = "C14"
    LEVEL = "proof" | "other"
    PROPS_MODULES = ["XonshVerif.Props.C14"]      # Lean modules whose theorems are the obligations
    def translate(ctx): ...                        # optional: regenerate lean/XonshVerif/Gen/* from /repo
    def run(ctx): ...                              # known-finding replays + correspondence
    def search(ctx, reason): ...                   # optional: deeper failing-input search

and reports through the Ctx below.  Ctx.finish() takes the decision of DESIGN.md §3 step 5.
"""

from __future__ import annotations

import atexit
import collections
import fcntl
import hashlib
import json
import os
import random
import re
import shutil
import subprocess
import sys
import time
import traceback
from pathlib import Path

from . import codec

VERIF = Path(__file__).resolve().parent.parent
REPO = Path(os.environ.get("XV_REPO", "/repo"))
LEAN = VERIF / "lean"
DRIVER_EXE = LEAN / ".lake" / "build" / "bin" / "xvdriver"
ALLOWED_AXIOMS = {"propext", "Classical.choice", "Quot.sound"}
_FORBIDDEN = re.compile(
    r"\b(sorry|admit|native_decide|bv_decide|implemented_by)\b|^\s*axiom\s|\bunsafe\s|maxHeartbeats\s+0\b"
)

EXIT_OK, EXIT_VIOLATION, EXIT_INFRA = 0, 1, 2


class InfraError(Exception):
    """Something in the machinery (not in xonsh) failed: exit 2, never a VIOLATION."""


# --------------------------------------------------------------------------- scratch
_scratch = None


def scratch_root() -> Path:
    global _scratch
    if _scratch is None:
        base = Path(os.environ.get("XV_SCRATCH_BASE", "/var/tmp"))
        _scratch = base / f"xv-{os.getpid()}"
        _scratch.mkdir(parents=True, exist_ok=True)
        atexit.register(_cleanup_scratch, os.getpid())
    return _scratch


def _cleanup_scratch(owner_pid):
    # forked children must not delete the parent's scratch dir
    if os.getpid() == owner_pid and _scratch is not None:
        shutil.rmtree(_scratch, ignore_errors=True)


# --------------------------------------------------------------------------- lean
def _strip_comments(text: str) -> str:
    text = re.sub(r"/-.*?-/", lambda m: "\n" * m.group(0).count("\n"), text, flags=re.S)
    return re.sub(r"--.*", "", text)


class lake_lock:
    def __enter__(self):
        d = LEAN / ".lake"
        d.mkdir(exist_ok=True)
        self.f = open(d / "xv.lock", "w")
        fcntl.flock(self.f, fcntl.LOCK_EX)
        return self

    def __exit__(self, *a):
        fcntl.flock(self.f, fcntl.LOCK_UN)
        self.f.close()


def _env_clean():
    e = dict(os.environ)
    e.pop("PYTHONPATH", None)
    return e


def lake_build(targets, timeout=1500):
    with lake_lock():
        p = subprocess.run(
            ["lake", "build", *targets],
            cwd=LEAN,
            capture_output=True,
            text=True,
            timeout=timeout,
            env=_env_clean(),
        )
    return p.returncode == 0, p.stdout + p.stderr


def lean_run_file(path: Path, timeout=600, run=False, stdin=None):
    cmd = ["lake", "env", "lean"] + (["--run"] if run else []) + [str(path)]
    p = subprocess.run(
        cmd, cwd=LEAN, capture_output=True, text=True, timeout=timeout, input=stdin, env=_env_clean()
    )
    return p.returncode, p.stdout, p.stderr


def module_path(mod: str) -> Path:
    return LEAN / (mod.replace(".", "/") + ".lean")


_DECL = re.compile(r"^(?:@\[[^\]]*\]\s*)?(?:private\s+|protected\s+)?(theorem|lemma|example)\b\s*([^\s:({\[]*)")
_TOP = re.compile(
    r"^(?:@\[[^\]]*\]\s*)?(?:private\s+|protected\s+|noncomputable\s+|partial\s+)*"
    r"(theorem|lemma|example|def|abbrev|instance|structure|inductive|namespace|section|end|open|#\w+|set_option|variable|macro|syntax|attribute)\b"
)


def obligations_in(mod: str):
    """(name, first_line, last_line) of each theorem/example in a module file.
    Theorem names are taken as fully qualified when the file uses `namespace`."""
    path = module_path(mod)
    if not path.exists():
        return []
    raw = path.read_text().split("\n")
    lines = _strip_comments(path.read_text()).split("\n")
    out = []
    ns = []
    starts = [i for i, l in enumerate(lines) if _TOP.match(l)]
    for idx, i in enumerate(starts):
        l = lines[i]
        m = re.match(r"^namespace\s+(\S+)", l)
        if m:
            ns.append(m.group(1))
            continue
        if re.match(r"^end\s+\S+", l) and ns:
            ns.pop()
            continue
        m = _DECL.match(l)
        if not m:
            continue
        kind, name = m.group(1), m.group(2)
        end = (starts[idx + 1] - 1) if idx + 1 < len(starts) else len(lines) - 1
        if kind == "example" or not name:
            full = f"example@{mod.split('.')[-1]}:{i + 1}"
        else:
            full = ".".join(ns + [name])
        out.append({"name": full, "kind": kind, "module": mod, "first": i + 1, "last": end + 1})
    del raw
    return out


def forbidden_tokens(mods):
    hits = []
    for mod in mods:
        p = module_path(mod)
        if not p.exists():
            continue
        for n, l in enumerate(_strip_comments(p.read_text()).split("\n"), 1):
            if _FORBIDDEN.search(l):
                hits.append(f"{mod}:{n}: {l.strip()[:120]}")
    return hits


def imports_closure(mods):
    """Transitive `import XonshVerif.*` closure of the given modules (local modules only)."""
    seen, todo = [], list(mods)
    while todo:
        m = todo.pop()
        if m in seen:
            continue
        seen.append(m)
        p = module_path(m)
        if p.exists():
            for mm in re.findall(r"^import\s+(XonshVerif\.\S+)", p.read_text(), flags=re.M):
                todo.append(mm)
    return seen


# --------------------------------------------------------------------------- driver
class Driver:
    """Line-protocol client for the Lean model driver (lean/DriverMain.lean)."""

    def __init__(self):
        if not DRIVER_EXE.exists():
            ok, out = lake_build(["xvdriver"])
            if not ok:
                raise InfraError("xvdriver does not build:\n" + out[-3000:])
        self.p = subprocess.Popen(
            [str(DRIVER_EXE)], stdin=subprocess.PIPE, stdout=subprocess.PIPE, text=True, bufsize=1
        )
        self.calls = 0

    def call(self, op, *args):
        line = codec.encode_line(op, *args)
        self.p.stdin.write(line + "\n")
        self.p.stdin.flush()
        out = self.p.stdout.readline()
        if not out:
            raise InfraError(f"driver died on: {line[:300]}")
        self.calls += 1
        r = codec.decode(out)
        if isinstance(r, list) and r and r[0] == "err":
            raise InfraError(f"driver rejected {line[:300]!r}: {out.strip()}")
        return r

    def batch(self, reqs):
        """reqs: list of (op, *args) tuples -> list of decoded answers (one process round-trip)."""
        lines = [codec.encode_line(*r) for r in reqs]
        p = subprocess.run([str(DRIVER_EXE)], input="\n".join(lines) + "\n", capture_output=True, text=True)
        outs = p.stdout.split("\n")
        if len(outs) < len(lines):
            raise InfraError("driver batch: short output")
        self.calls += len(lines)
        res = []
        for l, o in zip(lines, outs):
            r = codec.decode(o)
            if isinstance(r, list) and r and r[0] == "err":
                raise InfraError(f"driver rejected {l[:300]!r}: {o.strip()}")
            res.append(r)
        return res

    def close(self):
        try:
            self.p.stdin.close()
            self.p.wait(timeout=5)
        except Exception:
            self.p.kill()


# --------------------------------------------------------------------------- known findings
def load_known_findings(prop):
    p = VERIF / "known_findings.json"
    if not p.exists():
        return []
    data = json.loads(p.read_text())
    return [f for f in data.get("findings", []) if f.get("property") == prop]


# --------------------------------------------------------------------------- context
class Ctx:
    def __init__(self, prop: str, tier: str, seed: int, level: str):
        self.prop, self.tier, self.seed, self.level = prop, tier, seed, level
        self.rng = random.Random(f"{prop}:{seed}")
        self.t0 = time.time()
        self.obligations = []  # dicts: name, module, status (ok|failed|blocked), axioms, detail
        self.lean_notes = []
        self.counters = collections.Counter()
        self.distinct = set()
        self.samples = []
        self.spec_failures = []  # {case, observed, why, key}
        self.disagreements = []  # {stream, case, impl, model}
        self.known = load_known_findings(prop)
        self.known_replayed = {}  # key -> bool (still fails)
        self.assumptions = []
        self.trusted_base = [
            "Lean 4.33.0 kernel",
            "axioms: propext, Classical.choice, Quot.sound (audited with #print axioms every run)",
        ]
        self.explanation = ""
        self.fingerprints = {}
        self.extra = {}
        self.streams = collections.OrderedDict()  # name -> dict(evaluations, rule)
        self.translator_errors = []
        self._driver = None
        self.exhaustive = None
        self.checker_cmd = ""

    # -- budget helpers
    def quick(self):
        return self.tier == "quick"

    def n(self, quick, thorough):
        return quick if self.tier == "quick" else thorough

    @property
    def driver(self) -> Driver:
        if self._driver is None:
            self._driver = Driver()
        return self._driver

    # -- bookkeeping
    def count(self, key, n=1):
        self.counters[key] += n

    def case(self, stream, key, nontrivial=True, sample=None):
        """Record one evaluated case of a correspondence/search stream."""
        st = self.streams.setdefault(stream, {"evaluations": 0, "distinct_nontrivial": 0})
        st["evaluations"] += 1
        if nontrivial:
            h = hashlib.sha1(repr((stream, key)).encode("utf-8", "surrogatepass")).digest()[:10]
            if h not in self.distinct:
                self.distinct.add(h)
                st["distinct_nontrivial"] += 1
        if sample is not None and len([s for s in self.samples if s.get("stream") == stream]) < 3:
            self.samples.append({"stream": stream, "case": sample})

    def stream_rule(self, stream, rule):
        self.streams.setdefault(stream, {"evaluations": 0, "distinct_nontrivial": 0})["rule"] = rule

    def disagree(self, stream, case, impl, model):
        self.disagreements.append({"stream": stream, "case": case, "impl": impl, "model": model})

    def spec_failure(self, case, observed, why, key=None):
        """The PROPERTY (not the model) fails on the real code for `case`.
        key = name of the known finding whose classifier matches, or None."""
        self.spec_failures.append({"case": case, "observed": observed, "why": why, "key": key})

    def enough_failures(self, n=3):
        """streams stop early once a few NEW (not known-finding) property failures are in hand"""
        open_keys = {f["key"] for f in self.known if f.get("status") == "open"}
        return len([f for f in self.spec_failures if f["key"] not in open_keys]) >= n

    def replayed(self, key, still_fails, detail=None):
        self.known_replayed[key] = {"still_fails": bool(still_fails), "detail": detail}

    # -- Lean obligations ------------------------------------------------------
    def check_lean(self, props_modules, gen_modules=()):
        """Build the property's Lean modules, list obligations, audit axioms."""
        t = time.time()
        all_mods = list(gen_modules) + list(props_modules)
        obls = []
        for m in all_mods:
            obls += obligations_in(m)
        ok, out = lake_build(all_mods)
        self.checker_cmd = "cd lean && lake build " + " ".join(all_mods) + " && lake env lean <generated #print axioms file>"
        closure = imports_closure(all_mods)
        hits = forbidden_tokens(closure)
        failed_mods = set(re.findall(r"^✖ \[\d+/\d+\] Building (\S+)", out, flags=re.M))
        failed_mods |= set(
            m.replace("/", ".")[: -len(".lean")] for m in re.findall(r"^error: (\S+\.lean):\d+:\d+", out, flags=re.M)
        )
        errs = collections.defaultdict(list)
        for f, ln, msg in re.findall(r"^error: (\S+\.lean):(\d+):\d+: (.*)$", out, flags=re.M):
            errs[f.replace("/", ".")[: -len(".lean")]].append((int(ln), msg))
        for o in obls:
            o["axioms"] = None
            if ok:
                o["status"] = "ok"
            elif o["module"] in failed_mods:
                mine = [msg for (ln, msg) in errs.get(o["module"], []) if o["first"] <= ln <= o["last"]]
                # errors outside every obligation (a broken def/import) block the whole module
                inside_any = set()
                for (ln, msg) in errs.get(o["module"], []):
                    for o2 in obls:
                        if o2["module"] == o["module"] and o2["first"] <= ln <= o2["last"]:
                            inside_any.add((ln, msg))
                outside = [e for e in errs.get(o["module"], []) if e not in inside_any]
                if mine:
                    o["status"], o["detail"] = "failed", mine[0][:300]
                elif outside or not errs.get(o["module"]):
                    o["status"], o["detail"] = "blocked", (outside[0][1][:300] if outside else "module did not build")
                else:
                    o["status"] = "ok"
            else:
                # module not reported as failed: either built, or blocked by a failed import
                p = module_path(o["module"])
                deps = imports_closure([o["module"]])
                if any(d in failed_mods for d in deps):
                    o["status"], o["detail"] = "blocked", "an imported module did not build"
                else:
                    o["status"] = "ok"
                del p
        if not ok and not any(o["status"] != "ok" for o in obls):
            # build failed in a way we could not attribute (e.g. syntax error before any theorem)
            for o in obls:
                o["status"], o["detail"] = "blocked", "lake build failed: " + out[-400:]
        if not ok:
            self.lean_notes.append(out[-4000:])
        # axiom audit (only possible when everything built)
        if ok:
            named = [o for o in obls if o["kind"] != "example"]
            aud = scratch_root() / f"Audit_{self.prop}.lean"
            body = "".join(f"import {m}\n" for m in all_mods) + "".join(
                f"#print axioms {o['name']}\n" for o in named
            )
            aud.write_text(body)
            rc, so, se = lean_run_file(aud)
            txt = so + se
            if rc != 0:
                raise InfraError("axiom audit file failed:\n" + txt[-3000:])
            for o in named:
                m = re.search(
                    r"'" + re.escape(o["name"]) + r"' (does not depend on any axioms|depends on axioms: \[([^\]]*)\])",
                    txt,
                    flags=re.S,
                )
                if not m:
                    o["status"], o["detail"] = "failed", "no #print axioms output"
                    continue
                ax = [] if m.group(2) is None else [a.strip() for a in m.group(2).replace("\n", " ").split(",") if a.strip()]
                o["axioms"] = ax
                bad = [a for a in ax if a not in ALLOWED_AXIOMS]
                if bad:
                    o["status"], o["detail"] = "failed", "non-standard axioms: " + ", ".join(bad)
        # thorough tier: the toolchain's independent re-checker replays the compiled .olean files through the kernel
        if ok and self.tier == "thorough":
            with lake_lock():
                p = subprocess.run(["lake", "env", "leanchecker"] + list(all_mods), cwd=str(LEAN), capture_output=True, text=True, timeout=1800, env=_env_clean())
            self.extra["leanchecker"] = {"modules": list(all_mods), "exit": p.returncode, "tail": (p.stdout + p.stderr)[-400:]}
            if p.returncode != 0:
                for o in obls:
                    o["status"], o["detail"] = "failed", "leanchecker rejected the compiled module: " + (p.stdout + p.stderr)[-300:]
        for h in hits:
            self.lean_notes.append("forbidden token: " + h)
            # a forbidden token voids every obligation of the module it is in, and of its importers
        if hits:
            for o in obls:
                o["status"], o["detail"] = "failed", "forbidden token in the import closure: " + hits[0]
        self.obligations += obls
        self.extra.setdefault("lean_wall_s", 0)
        self.extra["lean_wall_s"] = round(self.extra["lean_wall_s"] + time.time() - t, 2)
        return all(o["status"] == "ok" for o in obls)

    def broken_obligations(self):
        return [o for o in self.obligations if o["status"] != "ok"]

    # -- decision --------------------------------------------------------------
    def finish(self, search=None):
        open_keys = {f["key"] for f in self.known if f.get("status") == "open"}
        lines = []

        def new_failures():
            return [f for f in self.spec_failures if f["key"] not in open_keys]

        broken = self.broken_obligations()
        need_search = bool(broken or self.disagreements or self.translator_errors)
        if need_search and not new_failures() and search is not None:
            reason = (
                "obligations " + ", ".join(o["name"] for o in broken[:5])
                if broken
                else ("translator: " + "; ".join(self.translator_errors[:2]) if self.translator_errors else "correspondence disagreement")
            )
            try:
                search(self, reason)
            except InfraError:
                raise
            except Exception:
                self.lean_notes.append("search crashed:\n" + traceback.format_exc()[-2000:])
        viol = new_failures()
        rc = EXIT_OK
        replay_dir = VERIF / "replays"
        replay_dir.mkdir(exist_ok=True)
        if viol:
            # one replay file per distinct reason (up to 5)
            seen = set()
            for i, f in enumerate(viol):
                sig = f["why"][:40]
                if sig in seen or len(seen) >= 3:
                    continue
                seen.add(sig)
                path = replay_dir / f"{self.prop}-{self.seed}-{len(seen)}.json"
                path.write_text(
                    json.dumps(
                        {
                            "property": self.prop,
                            "kind": "failing-input",
                            "case": f["case"],
                            "observed": f["observed"],
                            "why": f["why"],
                            "matched_fixed_finding": f["key"],
                            "how_to_rerun": f"cd /verif && ./check {self.prop} --replay {path.relative_to(VERIF)}",
                            "broken_obligations": [o["name"] for o in broken],
                        },
                        indent=1,
                        default=repr,
                    )
                )
                lines.append(f"VIOLATION property={self.prop} replay={path}")
            rc = EXIT_VIOLATION
        elif need_search:
            path = replay_dir / f"{self.prop}-{self.seed}-unproved.json"
            path.write_text(
                json.dumps(
                    {
                        "property": self.prop,
                        "kind": "no-failing-input-found",
                        "broken_obligations": [
                            {k: o.get(k) for k in ("name", "module", "status", "detail")} for o in broken
                        ],
                        "translator_errors": self.translator_errors,
                        "correspondence_disagreements": self.disagreements[:10],
                        "lean_output_tail": self.lean_notes[-1:] if self.lean_notes else [],
                        "note": "the theorem(s)/correspondence above no longer check against /repo's current "
                        "source; the failing-input search on the real code found no input violating the property",
                    },
                    indent=1,
                    default=repr,
                )
            )
            lines.append(f"VIOLATION property={self.prop} replay={path} no-failing-input-found")
            rc = EXIT_VIOLATION
        for f in self.known:
            if f.get("status") == "open":
                rep = self.known_replayed.get(f["key"])
                hit = any(sf["key"] == f["key"] for sf in self.spec_failures)
                if (rep and rep["still_fails"]) or hit:
                    lines.append(f"KNOWN-FINDING: property={self.prop} {f['key']}: {f['what']}")
        self.write_evidence(len(viol) if viol else (1 if rc else 0))
        for l in lines:
            print(l, flush=True)
        if self._driver is not None:
            self._driver.close()
        return rc

    def write_evidence(self, violations):
        ev_total = sum(s["evaluations"] for s in self.streams.values())
        dn_total = sum(s["distinct_nontrivial"] for s in self.streams.values())
        obl = self.obligations
        cov = {
            "obligations": len(obl),
            "discharged": sum(1 for o in obl if o["status"] == "ok"),
            "checker_cmd": self.checker_cmd or "cd lean && lake build",
            "trusted_base": self.trusted_base,
            "evaluations": ev_total,
            "distinct_nontrivial": dn_total,
            "rule": "; ".join(f"[{k}] {v.get('rule', '')}" for k, v in self.streams.items()),
            "samples": self.samples[:12] or [{"note": "no correspondence cases were run"}],
            "explanation": self.explanation,
            "streams": self.streams,
            "distribution": dict(sorted(self.counters.items())),
            "obligation_list": [
                {k: o.get(k) for k in ("name", "module", "status", "axioms", "detail") if o.get(k) is not None}
                for o in obl
            ],
            "correspondence_disagreements": len(self.disagreements),
            "disagreement_samples": self.disagreements[:5],
            "property_failures_on_impl": len(self.spec_failures),
            "property_failure_keys": dict(collections.Counter(str(f["key"]) for f in self.spec_failures)),
            "known_findings_replayed": self.known_replayed,
            "fingerprints": self.fingerprints,
            "translator_errors": self.translator_errors,
        }
        if self.exhaustive is not None:
            cov["exhaustive"] = self.exhaustive
        cov.update(self.extra)
        ev = {
            "property_id": self.prop,
            "tier": self.tier,
            "seed": self.seed,
            "level": self.level,
            "coverage": cov,
            "assumptions": self.assumptions,
            "wall_s": round(time.time() - self.t0, 2),
            "violations": violations,
        }
        d = VERIF / "evidence"
        d.mkdir(exist_ok=True)
        (d / f"{self.prop}.json").write_text(json.dumps(ev, indent=1, default=repr, ensure_ascii=True))


# --------------------------------------------------------------------------- misc
def ast_fingerprint(node) -> str:
    import ast

    return hashlib.sha1(ast.dump(node, include_attributes=False).encode()).hexdigest()[:16]


def write_if_changed(path: Path, text: str):
    path.parent.mkdir(parents=True, exist_ok=True)
    if path.exists() and path.read_text() == text:
        return False
    path.write_text(text)
    return True


def shrink_list(xs, still_fails, max_rounds=200):
    """Delta-debugging on a list: smallest sub-list (by removal) that still fails."""
    xs = list(xs)
    n = 2
    rounds = 0
    while len(xs) >= 2 and rounds < max_rounds:
        rounds += 1
        chunk = max(1, len(xs) // n)
        reduced = False
        for i in range(0, len(xs), chunk):
            cand = xs[:i] + xs[i + chunk :]
            if cand and still_fails(cand):
                xs, n, reduced = cand, max(n - 1, 2), True
                break
        if not reduced:
            if chunk == 1:
                break
            n = min(len(xs), n * 2)
    return xs


def setup_repo_imports():
    """Make `import xonsh` resolve to /repo's working tree (never an installed copy)."""
    rp = str(REPO)
    if rp in sys.path:
        sys.path.remove(rp)
    sys.path.insert(0, rp)
    os.environ.setdefault("XONSH_XONSH_VERIF", "1")
    sys.dont_write_bytecode = True


def run_unprivileged(fn, arg, timeout=600):
    """Run fn(arg) in a forked child that has dropped root (uid/gid 65534) and return its (picklable)
    result.  Permission-failure scenarios (chmod 000, unwritable dirs) need this: root bypasses them.
    When the check does not run as root the function is simply called in a forked child as is."""
    import pickle
    import select

    r, w = os.pipe()
    pid = os.fork()
    if pid == 0:
        code = 0
        try:
            os.close(r)
            if os.getuid() == 0:
                os.setgroups([])
                os.setgid(65534)
                os.setuid(65534)
                os.environ["HOME"] = "/nonexistent"
            res = ("ok", fn(arg))
        except BaseException as e:  # noqa: BLE001
            res = ("exc", f"{type(e).__name__}: {e}\n{traceback.format_exc()[-1500:]}")
            code = 1
        try:
            with os.fdopen(w, "wb") as f:
                pickle.dump(res, f)
        finally:
            os._exit(code)
    os.close(w)
    chunks = []
    deadline = time.time() + timeout
    with os.fdopen(r, "rb") as f:
        while True:
            left = deadline - time.time()
            if left <= 0:
                os.kill(pid, 9)
                os.waitpid(pid, 0)
                raise InfraError("unprivileged child timed out")
            ready, _, _ = select.select([f], [], [], min(left, 5))
            if ready:
                b = os.read(f.fileno(), 1 << 20)
                if not b:
                    break
                chunks.append(b)
    os.waitpid(pid, 0)
    if not chunks:
        raise InfraError("unprivileged child died without a result")
    kind, val = pickle.loads(b"".join(chunks))
    if kind == "exc":
        raise InfraError("unprivileged child failed: " + val)
    return val


HANG = {"__hang__": True}


def map_in_child(fn, items, per_item_timeout=30, label="worker"):
    """Run fn(item) for every item in a forked child process (one child for the whole batch; results come back
    as JSON lines) and return the list of results.  If an item does not answer within `per_item_timeout`
    seconds the child (and its process group) is killed, that item's result is `HANG`, and a fresh child
    continues with the next item — so a wedge inside the code under test can never wedge the check.
    fn must return something JSON-serialisable; an exception in fn is returned as {"__exc__": text}."""
    import select

    results = [None] * len(items)
    start = 0
    while start < len(items):
        r, w = os.pipe()
        sys.stdout.flush()
        sys.stderr.flush()
        pid = os.fork()
        if pid == 0:
            try:
                os.close(r)
                os.setpgid(0, 0)
                out = os.fdopen(w, "w")
                for i in range(start, len(items)):
                    try:
                        res = fn(items[i])
                    except BaseException as e:  # noqa: BLE001
                        res = {"__exc__": f"{type(e).__name__}: {e}\n{traceback.format_exc()[-1200:]}"}
                    out.write(json.dumps([i, res]) + "\n")
                    out.flush()
            finally:
                os._exit(0)
        os.close(w)
        buf = b""
        nxt = start
        hung = False
        with os.fdopen(r, "rb", buffering=0) as f:
            while nxt < len(items):
                ready, _, _ = select.select([f], [], [], per_item_timeout)
                if not ready:
                    hung = True
                    break
                b = os.read(f.fileno(), 1 << 20)
                if not b:
                    break
                buf += b
                while b"\n" in buf:
                    line, buf = buf.split(b"\n", 1)
                    i, res = json.loads(line)
                    results[i] = res
                    nxt = i + 1
        try:
            os.killpg(pid, 9)
        except OSError:
            pass
        try:
            os.kill(pid, 9)
        except OSError:
            pass
        os.waitpid(pid, 0)
        if nxt >= len(items):
            break
        # the child stopped answering (hang) or died on item `nxt`
        results[nxt] = HANG if hung else {"__exc__": f"{label}: child died on this item"}
        start = nxt + 1
    return results
