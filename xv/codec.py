"""S-expression line codec shared with lean/Driver/Sexp.lean.

Python value  ->  wire
  int         ->  decimal
  bool        ->  T / F
  None        ->  none
  str         ->  s:<hex utf-8>            (use `codes(s)` for strings with lone surrogates)
  Sym("x")    ->  x
  list/tuple  ->  ( a b c )
"""


class Sym(str):
    """A bare symbol on the wire."""

    def __repr__(self):
        return f"Sym({str.__repr__(self)})"


def codes(s):
    """A Python str as a list of code points (survives lone surrogates)."""
    return [ord(c) for c in s]


def uncodes(l):
    return "".join(chr(c) for c in l)


def some(x):
    return [Sym("some"), x]


def enc(v):
    if isinstance(v, Sym):
        return str(v)
    if v is True:
        return "T"
    if v is False:
        return "F"
    if v is None:
        return "none"
    if isinstance(v, int):
        return str(v)
    if isinstance(v, str):
        return "s:" + v.encode("utf-8").hex()
    if isinstance(v, (list, tuple)):
        if not v:
            return "( )"
        return "( " + " ".join(enc(x) for x in v) + " )"
    raise TypeError(f"cannot encode {type(v)}: {v!r}")


def encode_line(op, *args):
    return " ".join([op] + [enc(a) for a in args])


def _atom(t):
    if t.startswith("s:"):
        try:
            return bytes.fromhex(t[2:]).decode("utf-8")
        except ValueError:
            return Sym(t)
    if t == "T":
        return True
    if t == "F":
        return False
    if t == "none":
        return None
    try:
        return int(t)
    except ValueError:
        return Sym(t)


def decode(line):
    toks = line.split()
    stack = [[]]
    for t in toks:
        if t == "(":
            stack.append([])
        elif t == ")":
            top = stack.pop()
            stack[-1].append(top)
        else:
            stack[-1].append(_atom(t))
    if len(stack) != 1:
        raise ValueError(f"unbalanced sexp: {line!r}")
    out = stack[0]
    if len(out) != 1:
        raise ValueError(f"expected one sexp: {line!r}")
    return out[0]
