"""C01 generators: (b) random `ast` trees of the running interpreter's grammar -> ast.unparse, (c) token-level rewrites.

Everything random comes from the `rng` passed in.  Trees are valid by construction (a final ast.parse of the unparsed text
filters the rare exception), cover every statement / expression / pattern / type-parameter kind of Python 3.12 and keep
`return`/`yield`/`await`/`break` in places where compile() accepts them, so that the compile() clause is exercised too."""

from __future__ import annotations

import ast
import io
import keyword
import re
import tokenize

_ASCII_NAMES = [
    "a", "b", "c", "x", "y", "z", "e", "o", "p", "err", "out", "all", "foo", "bar_1", "_", "__x", "match", "case", "type", "self",
    "cls", "i", "j", "n", "T", "K", "print", "ls", "cd", "echo", "exit", "async_", "lambda_", "_1",
]
# non-ASCII identifiers are rarer: letters that are their own NFKC form, and a few that are not (µ, ﬁ)
NAMES = _ASCII_NAMES * 4 + ["ä", "данные", "名前", "ä", "данные", "名前", "µ", "ﬁ"]
ATTRS = ["a", "b", "x", "real", "append", "match", "case", "type", "_p", "__d__", "é", "e", "out"]
STRS = ["", "a", "it's", 'say "hi"', "tab\there", "nl\nnl", "back\\slash", "{braces}", "é€😀", "\x00\x7f", "%s %d", "'''", '"""', "a b  c", "#nocomment", "$HOME", "@(x)", "`g`", "1>2", "\\N{DASH}", "\u2028"]
BYTES = [b"", b"a", b"\x00\xff", b"it's", b'"q"', b"\\", b"a\nb"]
BINOPS = [ast.Add, ast.Sub, ast.Mult, ast.MatMult, ast.Div, ast.Mod, ast.Pow, ast.LShift, ast.RShift, ast.BitOr, ast.BitXor, ast.BitAnd, ast.FloorDiv]
UNOPS = [ast.Invert, ast.Not, ast.UAdd, ast.USub]
CMPOPS = [ast.Eq, ast.NotEq, ast.Lt, ast.LtE, ast.Gt, ast.GtE, ast.Is, ast.IsNot, ast.In, ast.NotIn]


class Gen:
    def __init__(self, rng, in_func=False, in_async=False, in_loop=False):
        self.r = rng
        self.in_func, self.in_async, self.in_loop = in_func, in_async, in_loop
        self.kinds = set()

    # ------------------------------------------------------------------ helpers
    def ch(self, xs):
        return xs[self.r.randrange(len(xs))]

    def p(self, q):
        return self.r.random() < q

    def name(self):
        return self.ch(NAMES)

    def Name(self, ctx=None):
        return ast.Name(id=self.name(), ctx=ctx or ast.Load())

    def many(self, f, lo, hi, *a):
        return [f(*a) for _ in range(self.r.randint(lo, hi))]

    # ------------------------------------------------------------------ expressions
    def const(self):
        k = self.r.randrange(12)
        if k == 0:
            v = self.ch([0, 1, 2, 7, 10, 255, 1 << 40, 10**30, 0o17, 0xFF, 1_000])
        elif k == 1:
            v = self.ch([0.0, 1.5, 1e10, 1e-7, 3.14, 1e308, 5e-324, 0.1, 1e999])
        elif k == 2:
            v = self.ch([1j, 0j, 2.5j, 1e3j])
        elif k in (3, 4, 5):
            v = self.ch(STRS)
        elif k == 6:
            v = self.ch(BYTES)
        elif k == 7:
            v = None
        elif k == 8:
            v = self.ch([True, False])
        elif k == 9:
            v = ...
        else:
            v = self.r.randrange(100)
        c = ast.Constant(value=v)
        if isinstance(v, str) and self.p(0.1):
            c.kind = "u"
        return c

    def atom(self):
        return self.Name() if self.p(0.6) else self.const()

    def expr(self, d):
        """any expression (no bare Starred / Slice)"""
        if d <= 0:
            return self.atom()
        k = self.r.randrange(27)
        f = [
            self.e_boolop, self.e_named, self.e_binop, self.e_unary, self.e_lambda, self.e_ifexp, self.e_dict, self.e_set,
            self.e_listcomp, self.e_setcomp, self.e_dictcomp, self.e_genexp, self.e_await, self.e_yield, self.e_yieldfrom,
            self.e_compare, self.e_call, self.e_fstring, self.e_attr, self.e_subscript, self.e_list, self.e_tuple,
            self.e_call, self.e_attr, self.e_binop, self.e_compare, self.e_fstring,
        ][k]
        e = f(d - 1)
        self.kinds.add(type(e).__name__)
        return e

    def e_boolop(self, d):
        return ast.BoolOp(op=self.ch([ast.And, ast.Or])(), values=self.many(self.expr, 2, 3, d))

    def e_named(self, d):
        return ast.NamedExpr(target=self.Name(ast.Store()), value=self.expr(d))

    def e_binop(self, d):
        return ast.BinOp(left=self.expr(d), op=self.ch(BINOPS)(), right=self.expr(d))

    def e_unary(self, d):
        return ast.UnaryOp(op=self.ch(UNOPS)(), operand=self.expr(d))

    def e_lambda(self, d):
        g = Gen(self.r, True, False, False)
        g.kinds = self.kinds
        return ast.Lambda(args=self.arguments(d, annotations=False), body=g.expr(d) if not self.p(0.1) else ast.Yield(value=None))

    def e_ifexp(self, d):
        return ast.IfExp(test=self.expr(d), body=self.expr(d), orelse=self.expr(d))

    def e_dict(self, d):
        n = self.r.randint(0, 3)
        keys, vals = [], []
        for _ in range(n):
            if self.p(0.2):
                keys.append(None)
            else:
                keys.append(self.expr(d))
            vals.append(self.expr(d))
        return ast.Dict(keys=keys, values=vals)

    def star_or_expr(self, d, q=0.2):
        return ast.Starred(value=self.expr(d), ctx=ast.Load()) if self.p(q) else self.expr(d)

    def e_set(self, d):
        return ast.Set(elts=self.many(self.star_or_expr, 1, 3, d))

    def e_list(self, d):
        return ast.List(elts=self.many(self.star_or_expr, 0, 3, d), ctx=ast.Load())

    def e_tuple(self, d):
        return ast.Tuple(elts=self.many(self.star_or_expr, 0, 3, d), ctx=ast.Load())

    def comps(self, d):
        out = []
        for _ in range(self.r.randint(1, 2)):
            out.append(
                ast.comprehension(
                    target=self.target(d, star_ok=False), iter=self.expr(d), ifs=self.many(self.expr, 0, 2, d),
                    is_async=1 if (self.in_async and self.p(0.3)) else 0,
                )
            )
        return out

    def e_listcomp(self, d):
        return ast.ListComp(elt=self.expr(d), generators=self.comps(d))

    def e_setcomp(self, d):
        return ast.SetComp(elt=self.expr(d), generators=self.comps(d))

    def e_dictcomp(self, d):
        return ast.DictComp(key=self.expr(d), value=self.expr(d), generators=self.comps(d))

    def e_genexp(self, d):
        return ast.GeneratorExp(elt=self.expr(d), generators=self.comps(d))

    def e_await(self, d):
        if not self.in_async:
            return self.e_call(d)
        return ast.Await(value=self.expr(d))

    def e_yield(self, d):
        if not self.in_func:
            return self.e_attr(d)
        return ast.Yield(value=self.expr(d) if self.p(0.7) else None)

    def e_yieldfrom(self, d):
        if not self.in_func or self.in_async:
            return self.e_subscript(d)
        return ast.YieldFrom(value=self.expr(d))

    def e_compare(self, d):
        n = self.r.randint(1, 3)
        return ast.Compare(left=self.expr(d), ops=[self.ch(CMPOPS)() for _ in range(n)], comparators=[self.expr(d) for _ in range(n)])

    def e_call(self, d):
        args, kws = [], []
        for _ in range(self.r.randint(0, 3)):
            args.append(self.star_or_expr(d, 0.25))
        for _ in range(self.r.randint(0, 2)):
            kws.append(ast.keyword(arg=None if self.p(0.25) else self.name(), value=self.expr(d)))
        if len(args) == 1 and not kws and self.p(0.3):
            args = [self.e_genexp(d)]
        return ast.Call(func=self.expr(d), args=args, keywords=kws)

    def e_fstring(self, d):
        vals = []
        for _ in range(self.r.randint(0, 4)):
            if self.p(0.4):
                if vals and isinstance(vals[-1], ast.Constant):
                    continue
                vals.append(ast.Constant(value=self.ch(STRS + ["x", " = ", "{{", "}}", "a:b", "!r"])))
            else:
                spec = None
                if self.p(0.35):
                    sv = [ast.Constant(value=self.ch([">10", "x", ".3f", "^", "", "{{", "0>4d", "%Y-%m"]))]
                    if self.p(0.4):
                        sv.append(ast.FormattedValue(value=self.expr(min(d, 1)), conversion=-1, format_spec=None))
                        if self.p(0.4):
                            sv.append(ast.Constant(value=self.ch(["d", ".2f", "s"])))
                    sv = [s for s in sv if not (isinstance(s, ast.Constant) and s.value == "")]
                    spec = ast.JoinedStr(values=sv)
                vals.append(ast.FormattedValue(value=self.expr(min(d, 2)), conversion=self.ch([-1, -1, 114, 115, 97]), format_spec=spec))
        return ast.JoinedStr(values=vals)

    def e_attr(self, d):
        return ast.Attribute(value=self.expr(d), attr=self.ch(ATTRS), ctx=ast.Load())

    def slice_part(self, d):
        if self.p(0.4):
            return ast.Slice(
                lower=self.expr(d) if self.p(0.5) else None, upper=self.expr(d) if self.p(0.5) else None, step=self.expr(d) if self.p(0.3) else None
            )
        return self.expr(d)

    def e_subscript(self, d, ctx=None):
        k = self.r.random()
        if k < 0.55:
            sl = self.slice_part(d)
        elif k < 0.9:
            sl = ast.Tuple(elts=[self.slice_part(d) if self.p(0.8) else ast.Starred(value=self.expr(d), ctx=ast.Load()) for _ in range(self.r.randint(1, 3))], ctx=ast.Load())
        else:
            sl = ast.Tuple(elts=[], ctx=ast.Load())
        return ast.Subscript(value=self.expr(d), slice=sl, ctx=ctx or ast.Load())

    # ------------------------------------------------------------------ targets
    def target(self, d, star_ok=True, top=True):
        k = self.r.random()
        if d <= 0 or k < 0.45:
            return self.Name(ast.Store())
        if k < 0.6:
            return ast.Attribute(value=self.expr(d - 1), attr=self.ch(ATTRS), ctx=ast.Store())
        if k < 0.72:
            return self.e_subscript(d - 1, ast.Store())
        n = self.r.randint(0 if self.p(0.15) else 1, 3)
        elts = [self.target(d - 1, True, False) for _ in range(n)]
        if star_ok or not top:
            if elts and self.p(0.3):
                i = self.r.randrange(len(elts))
                elts[i] = ast.Starred(value=elts[i], ctx=ast.Store())
        return (ast.Tuple if self.p(0.6) else ast.List)(elts=elts, ctx=ast.Store())

    def del_target(self, d):
        k = self.r.random()
        if d <= 0 or k < 0.5:
            return self.Name(ast.Del())
        if k < 0.65:
            return ast.Attribute(value=self.expr(d - 1), attr=self.ch(ATTRS), ctx=ast.Del())
        if k < 0.8:
            return self.e_subscript(d - 1, ast.Del())
        return (ast.Tuple if self.p(0.6) else ast.List)(elts=self.many(self.del_target, 0 if self.p(0.2) else 1, 3, d - 1), ctx=ast.Del())

    # ------------------------------------------------------------------ arguments
    def arg(self, d, ann):
        return ast.arg(arg=self.name(), annotation=self.expr(min(d, 1)) if (ann and self.p(0.5)) else None)

    def arguments(self, d, annotations=True):
        used = set()

        def fresh(ann=annotations):
            for _ in range(30):
                a = self.arg(d, ann)
                if a.arg not in used:
                    used.add(a.arg)
                    return a
            a.arg = f"v{len(used)}"
            used.add(a.arg)
            return a

        posonly = [fresh() for _ in range(self.r.randint(0, 2))] if self.p(0.3) else []
        args = [fresh() for _ in range(self.r.randint(0, 3))]
        npos = len(posonly) + len(args)
        ndef = self.r.randint(0, npos) if self.p(0.6) else 0
        defaults = [self.expr(min(d, 1)) for _ in range(ndef)]
        vararg = fresh() if self.p(0.35) else None
        kwonly = [fresh() for _ in range(self.r.randint(0, 2))] if self.p(0.35) else []
        kw_defaults = [self.expr(min(d, 1)) if self.p(0.5) else None for _ in kwonly]
        kwarg = fresh() if self.p(0.35) else None
        return ast.arguments(posonlyargs=posonly, args=args, vararg=vararg, kwonlyargs=kwonly, kw_defaults=kw_defaults, kwarg=kwarg, defaults=defaults)

    def type_params(self, d):
        if not self.p(0.2):
            return []
        out, used = [], set()
        for _ in range(self.r.randint(1, 3)):
            n = self.ch(["T", "K", "V", "P", "Ts", "match", "a"])
            if n in used:
                continue
            used.add(n)
            k = self.r.random()
            if k < 0.6:
                b = None
                if self.p(0.4):
                    b = self.expr(min(d, 1)) if self.p(0.6) else ast.Tuple(elts=[self.Name(), self.Name()], ctx=ast.Load())
                    if isinstance(b, (ast.NamedExpr, ast.Yield, ast.YieldFrom, ast.Await)):
                        b = self.Name()
                out.append(ast.TypeVar(name=n, bound=b))
            elif k < 0.8:
                out.append(ast.ParamSpec(name=n))
            else:
                out.append(ast.TypeVarTuple(name=n))
        return out

    # ------------------------------------------------------------------ patterns
    def pattern(self, d, top=True):
        k = self.r.randrange(9) if d > 0 else self.r.randrange(4)
        if k == 0:
            v = self.ch([ast.Constant(value=self.ch([0, 1, -0, 2.5, "s", b"b", ""])), ast.Attribute(value=self.Name(), attr=self.ch(ATTRS), ctx=ast.Load()),
                         ast.UnaryOp(op=ast.USub(), operand=ast.Constant(value=self.ch([1, 2.0, 3j]))),
                         ast.BinOp(left=ast.Constant(value=1), op=self.ch([ast.Add, ast.Sub])(), right=ast.Constant(value=2j)),
                         ast.BinOp(left=ast.UnaryOp(op=ast.USub(), operand=ast.Constant(value=1.5)), op=ast.Add(), right=ast.Constant(value=1j))])
            return ast.MatchValue(value=v)
        if k == 1:
            return ast.MatchSingleton(value=self.ch([None, True, False]))
        if k in (2, 3):
            nm = self.ch(["x", "y", "rest", "match", "case", "type", None, None])
            return ast.MatchAs(pattern=None, name=nm)
        if k == 4:
            pats = self.many(self.pattern, 0, 3, d - 1, False)
            if pats and self.p(0.4):
                pats[self.r.randrange(len(pats))] = ast.MatchStar(name=self.ch(["rest", None, "xs"]))
            return ast.MatchSequence(patterns=pats)
        if k == 5:
            n = self.r.randint(0, 2)
            keys = [self.ch([ast.Constant(value=self.ch(["k", 1, b"b", None, True])), ast.Attribute(value=self.Name(), attr="K", ctx=ast.Load())]) for _ in range(n)]
            return ast.MatchMapping(keys=keys, patterns=[self.pattern(d - 1, False) for _ in range(n)], rest=self.ch([None, None, "rest"]))
        if k == 6:
            cls = self.ch([self.Name(), ast.Attribute(value=self.Name(), attr="C", ctx=ast.Load())])
            nk = self.r.randint(0, 2)
            kw = []
            for _ in range(nk):
                a = self.ch(ATTRS)
                if a not in kw:
                    kw.append(a)
            return ast.MatchClass(cls=cls, patterns=self.many(self.pattern, 0, 2, d - 1, False), kwd_attrs=kw, kwd_patterns=[self.pattern(d - 1, False) for _ in kw])
        if k == 7:
            inner = self.pattern(d - 1, False)
            if isinstance(inner, ast.MatchAs) and inner.pattern is None and inner.name is None and False:
                pass
            if isinstance(inner, (ast.MatchStar,)):
                inner = ast.MatchAs(pattern=None, name=None)
            return ast.MatchAs(pattern=inner, name=self.ch(["v", "w", "case"]))
        pats = self.many(self.pattern, 2, 3, d - 1, False)
        return ast.MatchOr(patterns=pats)

    # ------------------------------------------------------------------ statements
    def body(self, d, lo=1, hi=3):
        out = self.many(self.stmt, lo, hi, d)
        return out or [ast.Pass()]

    def sub(self, **kw):
        g = Gen(self.r, kw.get("in_func", self.in_func), kw.get("in_async", self.in_async), kw.get("in_loop", self.in_loop))
        g.kinds = self.kinds
        return g

    def stmt(self, d):
        simple = [self.s_expr, self.s_assign, self.s_augassign, self.s_annassign, self.s_delete, self.s_return, self.s_raise, self.s_assert,
                  self.s_import, self.s_importfrom, self.s_global, self.s_pass, self.s_break, self.s_typealias, self.s_expr, self.s_assign]
        compound = [self.s_funcdef, self.s_classdef, self.s_for, self.s_while, self.s_if, self.s_with, self.s_match, self.s_try, self.s_trystar, self.s_funcdef, self.s_if, self.s_with]
        f = self.ch(simple) if (d <= 0 or self.p(0.5)) else self.ch(compound)
        s = f(d - 1 if d > 0 else 0)
        self.kinds.add(type(s).__name__)
        return s

    def s_expr(self, d):
        return ast.Expr(value=self.expr(d + 1))

    def s_assign(self, d):
        return ast.Assign(targets=self.many(self.target, 1, 2, d + 1), value=self.rhs(d + 1))

    def rhs(self, d):
        if self.p(0.25):
            return self.e_tuple(d)
        return self.expr(d)

    def s_augassign(self, d):
        t = self.ch([self.Name(ast.Store()), ast.Attribute(value=self.expr(d), attr=self.ch(ATTRS), ctx=ast.Store()), self.e_subscript(d, ast.Store())])
        return ast.AugAssign(target=t, op=self.ch(BINOPS)(), value=self.rhs(d + 1))

    def s_annassign(self, d):
        k = self.r.random()
        if k < 0.5:
            t, simple = self.Name(ast.Store()), 1
        elif k < 0.6:
            t, simple = self.Name(ast.Store()), 0
        elif k < 0.8:
            t, simple = ast.Attribute(value=self.expr(d), attr=self.ch(ATTRS), ctx=ast.Store()), 0
        else:
            t, simple = self.e_subscript(d, ast.Store()), 0
        return ast.AnnAssign(target=t, annotation=self.expr(d), value=self.rhs(d) if self.p(0.6) else None, simple=simple)

    def s_delete(self, d):
        return ast.Delete(targets=self.many(self.del_target, 1, 3, d))

    def s_return(self, d):
        if not self.in_func:
            return self.s_expr(d)
        return ast.Return(value=self.rhs(d + 1) if self.p(0.8) else None)

    def s_raise(self, d):
        if self.p(0.2):
            return ast.Raise(exc=None, cause=None)
        return ast.Raise(exc=self.expr(d), cause=self.expr(d) if self.p(0.3) else None)

    def s_assert(self, d):
        return ast.Assert(test=self.expr(d + 1), msg=self.expr(d) if self.p(0.4) else None)

    def dotted(self):
        return ".".join(self.ch(["os", "sys", "a", "b", "pkg", "match", "type", "x_y", "é"]) for _ in range(self.r.randint(1, 3)))

    def s_import(self, d):
        return ast.Import(names=[ast.alias(name=self.dotted(), asname=self.name() if self.p(0.3) else None) for _ in range(self.r.randint(1, 3))])

    def s_importfrom(self, d):
        level = self.ch([0, 0, 0, 1, 2, 3, 4, 7])
        mod = self.dotted() if (level == 0 or self.p(0.6)) else None
        if self.p(0.1) and not self.in_func:
            names = [ast.alias(name="*", asname=None)]
        else:
            names = [ast.alias(name=self.name(), asname=self.name() if self.p(0.3) else None) for _ in range(self.r.randint(1, 3))]
        return ast.ImportFrom(module=mod, names=names, level=level)

    def s_global(self, d):
        if self.in_func and self.p(0.5):
            return ast.Nonlocal(names=self.many(lambda: self.ch(["g1", "g2", "g3"]), 1, 2))
        return ast.Global(names=self.many(lambda: self.ch(["g1", "g2", "g3"]), 1, 2))

    def s_pass(self, d):
        return ast.Pass()

    def s_break(self, d):
        if not self.in_loop:
            return ast.Pass()
        return self.ch([ast.Break, ast.Continue])()

    def s_typealias(self, d):
        return ast.TypeAlias(name=ast.Name(id=self.ch(["A", "Alias", "match", "type", "T"]), ctx=ast.Store()), type_params=self.type_params(d), value=self.expr(d))

    def decorators(self, d):
        out = []
        for _ in range(self.r.randint(0, 2) if self.p(0.4) else 0):
            k = self.r.random()
            if k < 0.4:
                e = self.Name()
                for _ in range(self.r.randint(0, 2)):
                    e = ast.Attribute(value=e, attr=self.ch(ATTRS), ctx=ast.Load())
                if self.p(0.5):
                    e = ast.Call(func=e, args=self.many(self.expr, 0, 2, min(d, 1)), keywords=[])
            else:
                e = self.expr(min(d, 2))
                if isinstance(e, (ast.Yield, ast.YieldFrom, ast.Await)):
                    e = self.Name()
            out.append(e)
        return out

    def s_funcdef(self, d):
        is_async = self.p(0.3)
        g = self.sub(in_func=True, in_async=is_async, in_loop=False)
        cls = ast.AsyncFunctionDef if is_async else ast.FunctionDef
        return cls(name=self.name(), args=self.arguments(d), body=g.body(d), decorator_list=self.decorators(d),
                   returns=self.expr(min(d, 1)) if self.p(0.3) else None, type_comment=None, type_params=self.type_params(d))

    def s_classdef(self, d):
        g = self.sub(in_func=False, in_async=False, in_loop=False)
        bases = [self.star_or_expr(min(d, 1), 0.1) for _ in range(self.r.randint(0, 2))]
        kws = [ast.keyword(arg=self.ch(["metaclass", "k", None]), value=self.expr(min(d, 1)))] if self.p(0.2) else []
        for b in bases:
            for n in ast.walk(b):
                if isinstance(n, (ast.Yield, ast.YieldFrom, ast.Await, ast.NamedExpr)):
                    bases = []
        return ast.ClassDef(name=self.name(), bases=bases, keywords=kws, body=g.body(d), decorator_list=self.decorators(d), type_params=self.type_params(d))

    def s_for(self, d):
        is_async = self.in_async and self.p(0.4)
        g = self.sub(in_loop=True)
        it = self.rhs(d)
        return (ast.AsyncFor if is_async else ast.For)(target=self.target(d), iter=it, body=g.body(d), orelse=self.body(d, 0, 1) if self.p(0.25) else [], type_comment=None)

    def s_while(self, d):
        g = self.sub(in_loop=True)
        return ast.While(test=self.expr(d + 1), body=g.body(d), orelse=self.body(d, 0, 1) if self.p(0.25) else [])

    def s_if(self, d):
        orelse = []
        k = self.r.random()
        if k < 0.3:
            orelse = self.body(d, 1, 2)
        elif k < 0.6:
            orelse = [self.s_if(d - 1 if d > 0 else 0)]
        return ast.If(test=self.expr(d + 1), body=self.body(d), orelse=orelse)

    def s_with(self, d):
        is_async = self.in_async and self.p(0.4)
        items = [ast.withitem(context_expr=self.expr(d), optional_vars=self.target(min(d, 1), star_ok=True) if self.p(0.5) else None) for _ in range(self.r.randint(1, 3))]
        return (ast.AsyncWith if is_async else ast.With)(items=items, body=self.body(d), type_comment=None)

    def s_match(self, d):
        cases = []
        for _ in range(self.r.randint(1, 3)):
            pat = self.pattern(2)
            cases.append(ast.match_case(pattern=pat, guard=self.expr(1) if self.p(0.3) else None, body=self.body(d, 1, 2)))
        return ast.Match(subject=self.rhs(d), cases=cases)

    def handlers(self, d, star):
        hs = []
        for _ in range(self.r.randint(1, 2)):
            ty = self.expr(1) if (star or self.p(0.8)) else None
            if isinstance(ty, (ast.Yield, ast.YieldFrom, ast.Await)):
                ty = self.Name()
            nm = self.name() if (ty is not None and self.p(0.5)) else None
            hs.append(ast.ExceptHandler(type=ty, name=nm, body=self.body(d, 1, 2)))
        # a bare except must be last
        hs.sort(key=lambda h: h.type is None)
        if sum(h.type is None for h in hs) > 1:
            hs = hs[:1]
        return hs

    def s_try(self, d):
        k = self.r.random()
        if k < 0.2:
            return ast.Try(body=self.body(d), handlers=[], orelse=[], finalbody=self.body(d, 1, 1))
        return ast.Try(body=self.body(d), handlers=self.handlers(d, False), orelse=self.body(d, 1, 1) if self.p(0.3) else [], finalbody=self.body(d, 1, 1) if self.p(0.3) else [])

    def s_trystar(self, d):
        g = self.sub(in_loop=False)  # break/continue/return are not allowed in except* blocks
        g.in_func = False
        hs = g.handlers(d, True)
        return ast.TryStar(body=self.body(d), handlers=hs, orelse=self.body(d, 1, 1) if self.p(0.3) else [], finalbody=self.body(d, 1, 1) if self.p(0.3) else [])


def gen_program(rng, mode="exec", depth=3):
    """-> source text accepted by CPython in `mode` (or None)"""
    g = Gen(rng)
    if mode == "eval":
        node = g.expr(depth)
        tree = ast.Expression(body=node)
    elif mode == "single":
        tree = ast.Interactive(body=[g.stmt(depth)])
    else:
        tree = ast.Module(body=g.body(depth, 1, 3), type_ignores=[])
    try:
        src = ast.unparse(ast.fix_missing_locations(tree))
    except Exception:  # noqa: BLE001  (unparse rejects a few impossible trees, e.g. f-string nesting too deep)
        return None, g.kinds
    if mode == "single":
        src += "\n"
        if "\n" in src.rstrip("\n"):
            src += "\n"  # a compound statement at the prompt ends with an empty line
    elif mode == "exec":
        src += "\n"
    try:
        ast.parse(src, mode=mode)
    except (SyntaxError, ValueError, RecursionError, MemoryError):
        return None, g.kinds
    return src, g.kinds


# ====================================================================== (c) token-level rewrites
def _toks(src):
    return list(tokenize.generate_tokens(io.StringIO(src).readline))


def rw_indent(src, rng):
    """re-indent every block with another unit: 1/2/3/8 spaces or tabs (consistently)"""
    unit = rng.choice([" ", "  ", "   ", "        ", "\t"])
    try:
        toks = _toks(src)
    except (tokenize.TokenError, IndentationError, SyntaxError):
        return None
    lines = src.splitlines(keepends=True)
    level = 0
    new_indent = {}
    depth_at = {}
    # the logical lines that start a statement are those whose first token follows NEWLINE/INDENT/DEDENT
    start = True
    for t in toks:
        if t.type == tokenize.INDENT:
            level += 1
            continue
        if t.type == tokenize.DEDENT:
            level -= 1
            continue
        if t.type in (tokenize.NL, tokenize.COMMENT):
            continue
        if start and t.type not in (tokenize.NEWLINE, tokenize.ENDMARKER):
            depth_at[t.start[0]] = level
            start = False
        if t.type == tokenize.NEWLINE:
            start = True
    out = []
    for i, l in enumerate(lines, 1):
        if i in depth_at:
            out.append(unit * depth_at[i] + l.lstrip(" \t"))
        else:
            out.append(l)  # continuation / string / blank / comment lines keep their text
    return "".join(out)


def rw_backslash(src, rng):
    """break lines with a backslash before a random operator / keyword token that is not inside brackets"""
    try:
        toks = _toks(src)
    except (tokenize.TokenError, IndentationError, SyntaxError):
        return None
    depth = 0
    cuts = []
    fdepth = 0
    for i, t in enumerate(toks):
        if t.type == tokenize.FSTRING_START:
            fdepth += 1
        elif t.type == tokenize.FSTRING_END:
            fdepth -= 1
        if fdepth:
            continue
        if t.type == tokenize.OP and t.string in "([{":
            depth += 1
        elif t.type == tokenize.OP and t.string in ")]}":
            depth -= 1
        elif depth == 0 and i > 0 and toks[i - 1].type not in (tokenize.NEWLINE, tokenize.INDENT, tokenize.DEDENT, tokenize.NL, tokenize.COMMENT, tokenize.ENCODING) and (
            (t.type == tokenize.OP and t.string not in (":", ";")) or (t.type == tokenize.NAME and t.string in ("and", "or", "in", "if", "else", "is", "not", "for", "as", "import"))
        ) and t.start[0] == toks[i - 1].end[0]:
            cuts.append(t)
    if not cuts:
        return None
    rng.shuffle(cuts)
    cuts = sorted(cuts[: rng.randint(1, 3)], key=lambda t: t.start, reverse=True)
    lines = src.splitlines(keepends=True)
    for t in cuts:
        l = lines[t.start[0] - 1]
        lines[t.start[0] - 1] = l[: t.start[1]] + "\\\n" + rng.choice(["", "  ", "        ", "\t"]) + l[t.start[1] :]
    return "".join(lines)


def rw_paren_continuation(src, rng):
    """put a newline (and sometimes a comment) after random tokens inside brackets"""
    try:
        toks = _toks(src)
    except (tokenize.TokenError, IndentationError, SyntaxError):
        return None
    depth = 0
    cuts = []
    fdepth = 0
    for t in toks:
        if t.type == tokenize.FSTRING_START:
            fdepth += 1
        elif t.type == tokenize.FSTRING_END:
            fdepth -= 1
        if fdepth:
            continue
        if t.type == tokenize.OP and t.string in "([{":
            depth += 1
            cuts.append(t)
        elif t.type == tokenize.OP and t.string in ")]}":
            depth -= 1
        elif depth > 0 and t.type == tokenize.OP and t.string == ",":
            cuts.append(t)
    if not cuts:
        return None
    rng.shuffle(cuts)
    cuts = sorted(cuts[: rng.randint(1, 4)], key=lambda t: t.end, reverse=True)
    lines = src.splitlines(keepends=True)
    for t in cuts:
        l = lines[t.end[0] - 1]
        lines[t.end[0] - 1] = l[: t.end[1]] + rng.choice(["", "  # c", " #"]) + "\n" + rng.choice(["", " ", "      ", "\t"]) + l[t.end[1] :].lstrip(" ")
    return "".join(lines)


def rw_spacing(src, rng):
    """remove or widen the blanks around operators: `a>=b`, `1>2`, `e>1`, `x if y else-1`, `a  +  b`"""
    try:
        toks = _toks(src)
    except (tokenize.TokenError, IndentationError, SyntaxError):
        return None
    squeeze = rng.random() < 0.7
    out = []
    prev = None
    fdepth = 0
    for t in toks:
        if t.type in (tokenize.ENCODING, tokenize.ENDMARKER):
            continue
        if prev is not None and t.type not in (tokenize.INDENT, tokenize.DEDENT):
            if t.start[0] == prev.end[0]:
                gap = t.start[1] - prev.end[1]
                between_words = prev.type in (tokenize.NAME, tokenize.NUMBER) and t.type in (tokenize.NAME, tokenize.NUMBER, tokenize.STRING, tokenize.FSTRING_START)
                if fdepth or t.type == tokenize.COMMENT:
                    out.append(" " * gap)
                elif squeeze:
                    # `1 .real`, `1 if` … : a number followed by a name or a dot needs its blank
                    keep = between_words or (prev.type == tokenize.NUMBER and t.string[:1] in ".") or (prev.type == tokenize.OP and t.type == tokenize.OP and gap > 0 and prev.string not in ")]}" and t.string not in "([{")
                    if prev.type == tokenize.OP and t.type == tokenize.OP and gap > 0 and (prev.string in "([{,:" or t.string in ")]},:([{"):
                        keep = False
                    out.append(" " * gap if keep else "")
                else:
                    out.append(" " * (gap + (2 if gap else 0)))
            elif t.type not in (tokenize.NEWLINE, tokenize.NL) and prev.type != tokenize.NL and prev.type != tokenize.NEWLINE and prev.type != tokenize.COMMENT:
                pass
        if t.type == tokenize.FSTRING_START:
            fdepth += 1
        elif t.type == tokenize.FSTRING_END:
            fdepth -= 1
        if t.type == tokenize.INDENT or t.type == tokenize.DEDENT:
            continue
        if prev is not None and t.start[0] != prev.end[0] or prev is None:
            # first token of a physical line: keep its leading text (indentation) from the source line
            out.append(t.line[: t.start[1]] if t.type not in (tokenize.NEWLINE,) else "")
        out.append(t.string)
        prev = t
    return "".join(out)


_PREFIXES = ["", "r", "R", "u", "U", "b", "B", "br", "Br", "bR", "BR", "rb", "rB", "Rb", "RB", "f", "F", "fr", "Fr", "fR", "FR", "rf", "rF", "Rf", "RF"]


def rw_string_prefix(src, rng):
    """re-spell string literals: other quote style / triple quotes / raw / prefix case and order (meaning-preserving when the
    body has no backslash, no quote and no newline, which is checked)"""
    try:
        toks = _toks(src)
    except (tokenize.TokenError, IndentationError, SyntaxError):
        return None
    cands = [t for t in toks if t.type == tokenize.STRING and t.start[0] == t.end[0]]
    fs = [t for t in toks if t.type == tokenize.FSTRING_START]
    if not cands and not fs:
        return None
    lines = src.splitlines(keepends=True)
    edits = []
    for t in cands:
        m = re.match(r"(?i)([rbu]*)('''|\"\"\"|'|\")(.*)\2$", t.string, flags=re.S)
        if not m or rng.random() < 0.3:
            continue
        pre, q, body = m.groups()
        if "\\" in body or "'" in body or '"' in body or "\n" in body:
            # only the prefix spelling may change
            alts = [p for p in _PREFIXES if sorted(p.lower()) == sorted(pre.lower())]
            new = rng.choice(alts) + q + body + q
        else:
            kind = "b" if "b" in pre.lower() else ""
            alts = [p for p in _PREFIXES if ("b" in p.lower()) == bool(kind) and "f" not in p.lower() and (kind or True)]
            if "u" in pre.lower():
                alts = ["u", "U"]
            nq = rng.choice(["'", '"', "'''", '"""'])
            new = rng.choice(alts) + nq + body + nq
        edits.append((t.start, t.end, new))
    for t in fs:
        if rng.random() < 0.5:
            continue
        m = re.match(r"(?i)([rf]+)(.*)$", t.string, flags=re.S)
        pre, q = m.groups()
        alts = [p for p in _PREFIXES if sorted(p.lower()) == sorted(pre.lower())]
        edits.append((t.start, t.end, rng.choice(alts) + q))
    for (s, e, new) in sorted(edits, reverse=True):
        l = lines[s[0] - 1]
        lines[s[0] - 1] = l[: s[1]] + new + l[e[1] :]
    return "".join(lines)


def rw_trailing_comma(src, rng):
    """add a trailing comma before closing brackets of calls / displays / parameter lists / subscripts where the meaning is kept"""
    try:
        tree = ast.parse(src)
        toks = _toks(src)
    except (SyntaxError, ValueError, tokenize.TokenError, IndentationError):
        return None
    # closing brackets preceded by something other than an opening bracket or a comma
    ok_close = set()
    for n in ast.walk(tree):
        if isinstance(n, ast.Call) and (n.args or n.keywords) and not (len(n.args) == 1 and isinstance(n.args[0], ast.GeneratorExp) and not n.keywords):
            ok_close.add((n.end_lineno, n.end_col_offset))
        elif isinstance(n, (ast.List, ast.Set, ast.Dict)) and (getattr(n, "elts", None) or getattr(n, "keys", None)):
            ok_close.add((n.end_lineno, n.end_col_offset))
        elif isinstance(n, ast.Tuple) and len(n.elts) >= 2:
            ok_close.add((n.end_lineno, n.end_col_offset))
    stack = []
    edits = []
    prev = None
    for t in toks:
        if t.type == tokenize.OP and t.string in "([{":
            stack.append(t)
        elif t.type == tokenize.OP and t.string in ")]}":
            if stack:
                stack.pop()
            if (t.end[0], len(t.line[: t.end[1]].encode())) in ok_close and prev is not None and prev.string not in ("(", "[", "{", ",") and rng.random() < 0.6:
                edits.append(prev.end)
        if t.type not in (tokenize.NL, tokenize.COMMENT):
            prev = t
    if not edits:
        return None
    lines = src.splitlines(keepends=True)
    for (ln, col) in sorted(set(edits), reverse=True):
        l = lines[ln - 1]
        lines[ln - 1] = l[:col] + "," + l[col:]
    return "".join(lines)


def rw_unparen_tuple(src, rng):
    """drop the brackets of tuples where Python allows a bare tuple: assignment values, return / yield values, for-loop iterables and
    targets, subscripts, `in` lists of comprehensions are left alone"""
    try:
        tree = ast.parse(src)
    except (SyntaxError, ValueError):
        return None
    spots = []
    for n in ast.walk(tree):
        vals = []
        if isinstance(n, (ast.Assign, ast.AugAssign, ast.AnnAssign, ast.Return)) and n.value is not None:
            vals.append(n.value)
        if isinstance(n, ast.Assign):
            vals += n.targets
        if isinstance(n, (ast.For, ast.AsyncFor)):
            vals += [n.iter, n.target]
        if isinstance(n, ast.Expr):
            vals.append(n.value.value if isinstance(n.value, ast.Yield) and n.value.value is not None else n.value)
        if isinstance(n, ast.Subscript):
            vals.append(n.slice)
        if isinstance(n, ast.Match):
            vals.append(n.subject)
        for v in vals:
            if isinstance(v, ast.Tuple) and v.elts and v.lineno == v.end_lineno:
                spots.append(v)
    if not spots:
        return None
    lines = src.splitlines(keepends=True)
    done = False
    for v in sorted(spots, key=lambda v: (v.lineno, v.col_offset), reverse=True):
        if rng.random() < 0.3:
            continue
        lb = lines[v.lineno - 1].encode()
        seg = lb[v.col_offset : v.end_col_offset]
        if not (seg.startswith(b"(") and seg.endswith(b")")):
            continue
        inner = seg[1:-1]
        if b"\n" in inner:
            continue
        lines[v.lineno - 1] = (lb[: v.col_offset] + inner + lb[v.end_col_offset :]).decode()
        done = True
    return "".join(lines) if done else None


def rw_semicolons(src, rng):
    """join consecutive simple statements of a block with `;` and put one-statement suites on the header line"""
    try:
        tree = ast.parse(src)
    except (SyntaxError, ValueError):
        return None
    lines = src.splitlines(keepends=True)
    simple = (ast.Expr, ast.Assign, ast.AugAssign, ast.AnnAssign, ast.Return, ast.Delete, ast.Pass, ast.Break, ast.Continue, ast.Raise, ast.Assert, ast.Import, ast.ImportFrom, ast.Global, ast.Nonlocal, ast.TypeAlias)
    edits = []
    for n in ast.walk(tree):
        for f in ("body", "orelse", "finalbody"):
            b = getattr(n, f, None)
            if not isinstance(b, list) or not b or not isinstance(b[0], ast.stmt):
                continue
            for s1, s2 in zip(b, b[1:]):
                if isinstance(s1, simple) and isinstance(s2, simple) and s1.end_lineno + 1 == s2.lineno and s1.lineno == s1.end_lineno and s2.lineno == s2.end_lineno and rng.random() < 0.4:
                    edits.append((s1.end_lineno, s2.lineno))
    if not edits:
        return None
    joined = set()
    for a, b in sorted(set(edits), reverse=True):
        if a in joined or b in joined:
            continue
        la, lb_ = lines[a - 1], lines[b - 1]
        if la.rstrip("\n").rstrip().endswith("\\") or "#" in la:
            continue
        lines[a - 1] = la.rstrip("\n") + rng.choice(["; ", ";", " ;  "]) + lb_.lstrip(" \t")
        lines[b - 1] = ""
        joined.update((a, b))
    return "".join(lines)


REWRITES = {
    "indent": rw_indent,
    "backslash": rw_backslash,
    "paren-continuation": rw_paren_continuation,
    "spacing": rw_spacing,
    "string-prefix": rw_string_prefix,
    "trailing-comma": rw_trailing_comma,
    "bare-tuple": rw_unparen_tuple,
    "semicolons": rw_semicolons,
}


def rewrite(src, rng, name=None):
    """-> (rewrite name, new source) with new source accepted by CPython and parsing to the SAME tree as `src`
    (string-prefix rewrites may change `kind`), or (name, None)"""
    name = name or rng.choice(list(REWRITES))
    try:
        new = REWRITES[name](src, rng)
    except Exception:  # noqa: BLE001  (a rewrite that trips over exotic input is simply skipped)
        return name, None
    if not new or new == src:
        return name, None
    try:
        a = ast.parse(new)
        b = ast.parse(src)
    except (SyntaxError, ValueError, RecursionError, MemoryError):
        return name, None
    if name not in ("string-prefix",) and ast.dump(a) != ast.dump(b):
        return name, None
    return name, new


# hand-written token-level corner cases (each is valid Python; grouped by the corner they probe)
CORNERS = [
    # redirect look-alikes: names / digits the xonsh tokenizer knows as stream names, glued to > and >>
    "1>2\n", "1>=1\n", "1>>2\n", "2>1\n", "2>>1\n", "a>b\n", "a>=b\n", "a>>b\n", "e>1\n", "e>o\n", "o>e\n", "err>out\n", "out>err\n", "all>p\n", "a>p\n", "e>p\n",
    "x = 1>2\n", "x = e>>o\n", "x = [e>1 for e in es]\n", "if a>b: pass\n", "x = a>-b\n", "x = o>=e\n", "x = err>=out\n", "x = out>>err\n", "x = all>=1\n", "f(a>b, e>=o)\n",
    "x = 1<2\n", "x = a<b\n", "x = a<=b\n", "x = a<<b\n", "x = 2>1\n", "x = a&b\n", "x = a&1>2\n", "x = a|b\n", "x = a or b\n",
    "lambda a,b: a>=b\n", "assert a>=b, a\n", "while e>0: e-=1\n",
    # numbers
    "x = 0xFF + 0o17 + 0b11 + 1_000 + 1e3 + 1E-3 + 1.j + .5 + 5. + 0_0 + 1_0.0_1e+1_0\n", "x = 1 if y else 2\n", "x = 0XaB\n", "x = 1 .real\n", "x = 1..real\n", "x = 1.e1.real\n", "x = 00\n", "x = 0.0j\n",
    # strings
    "x = 'a' 'b'\n", "x = 'a' \"b\" '''c''' \"\"\"d\"\"\"\n", "x = ('a'\n     'b')\n", "x = 'a' \\\n  'b'\n", "x = rb'\\d' Rb'\\d' BR'\\d'\n", "x = r'\\d' R'\\d' u'u' U'U'\n", "x = '''a\nb'''\n", "x = 'a\\\nb'\n",
    "x = b'a' b'b'\n", "x = 'a' f'{b}' 'c'\n", "x = f'' ''\n", "x = '' f''\n", "x = u'a' 'b'\n", "x = 'a' u'b'\n", "x = '\\N{BULLET}'\n", "x = '\\u00e9\\U0001F600\\x41\\101\\n'\n",
    # f-strings (PEP 701)
    "f'{x}'\n", "f'{x!r}'\n", "f'{x!s:>10}'\n", "f'{x:{w}}'\n", "f'{x:{w}.{p}}'\n", "f'{x=}'\n", "f'{x = }'\n", "f'{x=!r}'\n", "f'{x=:>5}'\n", "f'{{}}'\n", "f'{{{x}}}'\n", "f'a{x}b{y}c'\n",
    "f'{x:%Y-%m-%d}'\n", "f'{d[\"k\"]}'\n", "f'{d['k']}'\n", "f\"{d[\"k\"]}\"\n", "f'{f'{x}'}'\n", "f'{f'{f'{x}'}'}'\n", "f'{x!r:{y!s}}'\n", "f'''{\nx\n}'''\n", "f'''{x # c\n}'''\n",
    "f'{(lambda: 1)}'\n", "f'{x:{'>'}{10}}'\n", "f'{a if b else c}'\n", "f'{x:=5}'\n", "f'{(x:=5)}'\n", "f'{*a,}'\n", "f'{a, b}'\n", "def g():\n    return f'{yield}'\n",
    "f'{x}' f'{y}'\n", "f'\\N{BULLET}{x}'\n", "f'\\n{x}\\t'\n", "fr'\\d{x}'\n", "rf'\\{x}'\n", "Rf'{x}'\n", "F'{x}'\n", "f'{x!a}'\n", "f'{ x }'\n", "f'{x }'\n", "f'{x:}'\n", "f'{x!r:}'\n", "f'{\"a\" \"b\"}'\n",
    "f'{x:>{w}}'\n", "f'{{'\n", "f'}}'\n", "f'{x:a{y}b}'\n", "async def g():\n    return f'{await x}'\n", "f'{not x}'\n", "f'{-x}'\n", "f'{x!r}{y!s}{z!a}'\n",
    "f'{a[(b:=1)]}'\n", "f'{a:{b:{c}}}'\n", "f'{\"\\n\"}'\n", "f'{'\\n'}'\n", "f\"{'a' if x else \"b\"}\"\n", "f'{x:#x}'\n", "f'{1:{2:{3}}}'\n", "f'''{'''x'''}'''\n",
    # continuation / indentation
    "if x:\n\ty = 1\n\tz = 2\n", "if x:\n        y = 1\n", "if x:\n y = 1\nelse:\n        z = 2\n", "if x:\n  if y:\n      z = 1\n  w = 2\n", "x = (1 +\n2)\n", "x = [\n1,\n2,\n]\n", "x = {\n'a': 1,\n}\n", "x = 1 + \\\n    2\n",
    "def f(\n    a,\n    b,\n):\n    pass\n", "x = 1  # c\n", "# only a comment\n", "\n\nx = 1\n\n\n", "x = 1\n\n\n# trailing comment\n", "if x:\n    # c\n    y = 1\n    # c2\nz = 1\n", "if x:\n    y = 1\n\n    z = 2\n",
    "if x:\n    pass\n# c\nelse:\n    pass\n", "class A:\n\n    x = 1\n\n\n    def f(self):\n\n        pass\n", "if x: pass\nelif y: pass\nelse: pass\n", "for x in y: pass\nelse: pass\n", "while x: break\nelse: pass\n", "try: pass\nfinally: pass\n",
    "x = 1; y = 2\n", "x = 1;\n", "x = 1 ;y = 2;\n", "if x: y = 1; z = 2\n", "if x:\n    y = 1; z = 2;\n", "x = (\n# c\n1\n)\n", "x = (1,\n# c\n)\n", "x \\\n= 1\n", "x = [1,\n     2]; y = 3\n", "if x:\n    y = [\n1]\n",
    "x = 1\\\n+2\n", "assert x, \\\n  y\n", "from a import (b,\n c)\n", "from a import (b, c,)\n", "with a as b, \\\n     c as d:\n    pass\n", "if (a and\n    b):\n    pass\n", "if 1:\n\tx = 1\n", "x = 1\r\ny = 2\r\n", "x = 1\n\x0c\ny = 2\n",
    "if x:\n    y = 1\n    \n    z = 2\n", "if x:\n    y = 1\n  # odd comment\n    z = 2\n", "def f():\n    '''doc'''\n", "def f():\n    return\n", "def f(): return\n", "class C: pass\n", "class C(): pass\n", "class C(A, B, metaclass=M): pass\n",
    # trailing commas / annotation positions / parameters
    "f(a,)\n", "f(a, b,)\n", "f(*a,)\n", "f(**a,)\n", "f(a=1,)\n", "f(x for x in y)\n", "f((x for x in y),)\n", "def f(a,): pass\n", "def f(*a,): pass\n" , "def f(**a,): pass\n", "def f(a, /,): pass\n", "def f(*, a,): pass\n", "lambda a,: a\n", "lambda *a,: a\n",
    "(a,)\n", "[a,]\n", "{a,}\n", "{a: 1,}\n", "a,\n", "a, b,\n", "x = a,\n", "x = a, b,\n", "x[a,]\n", "x[a, b,]\n", "del a,\n", "del a, b,\n", "del (a, b)\n", "del [a, b]\n", "for x in a,: pass\n", "for x, in a: pass\n", "import a.b as c, d\n",
    "from . import a\n", "from .. import a\n", "from ... import a\n", "from .... import a\n", "from .a import b\n", "from ...a.b import c as d, e\n", "from . import (a, b,)\n", "from a import *\n", "from .import a\n", "from. import a\n", "from ...import a\n",
    "x: int\n", "x: int = 1\n", "(x): int = 1\n", "x.y: int = 1\n", "x[0]: int\n", "x: 'T' = None\n", "def g():\n    x: int = yield\n", "x: tuple = 1, 2\n", "x: tuple = *a, b\n", "x: list[int] = []\n",
    "def f(a: int, b: str = 's', *args: int, c: int, d: int = 1, **kw: int) -> int: pass\n", "def f(a, b=1, /, c=2, *, d=3, **k): pass\n", "def f(a: int = 1, /): pass\n", "def f(*, a: int = 1): pass\n", "def f(a, *args: int, **kw: int): pass\n",
    "def f(self, *a: T, **k: T) -> None: ...\n", "def f(*a: *Ts): pass\n", "def f() -> None: pass\n", "lambda: (yield)\n", "lambda *a, b=1, **k: a\n", "lambda a, /, b: a\n", "lambda a=1, /, b=2: a\n",
    "async def f():\n    async with a as b, c: pass\n    async for x in y: pass\n    await z\n    return [x async for x in y]\n",
    "def f[T](a: T) -> T: pass\n", "def f[T: int, *Ts, **P](): pass\n", "class C[T]: pass\n", "class C[T: (int, str)](B): pass\n", "type A = int\n", "type A[T] = list[T]\n", "type = 1\n", "type.x = 1\n", "type(x)\n", "print(type)\n", "x = type\n", "type A[*Ts, **P] = int\n",
    "match x:\n    case 1: pass\n", "match = 1\n", "match.x\n", "match(x)\n", "match[x]\n", "match, case = 1, 2\n", "case = 1\n", "match x, y:\n    case a, b: pass\n", "match (x):\n    case (a): pass\n", "match x:\n    case [a, *b]: pass\n    case {'k': v, **r}: pass\n    case C(a, b=c): pass\n    case 1 | 2 as d: pass\n    case None: pass\n    case _: pass\n",
    "match x:\n    case -1: pass\n    case 1+2j: pass\n    case -1-2j: pass\n    case 'a' 'b': pass\n    case a.b: pass\n    case (a, b): pass\n    case (a,): pass\n    case []: pass\n    case [[]]: pass\n    case (): pass\n    case {}: pass\n    case C(): pass\n",
    "match x:\n    case a if a > 1: pass\n", "match x:\n    case [a, b, *_]: pass\n    case (1, 2) | [3, 4]: pass\n    case {1: _, 2: _}: pass\n    case str() | bytes(): pass\n", "match x:\n    case case: pass\n" , "match match:\n    case match: pass\n", "match -x:\n    case _: pass\n", "match *a, b:\n    case _: pass\n", "match [x]:\n    case _: pass\n", "match {x}:\n    case _: pass\n", "match x.y:\n    case _: pass\n",
    "try: pass\nexcept* E: pass\n", "try: pass\nexcept* (A, B) as e: pass\n", "try: pass\nexcept A: pass\nexcept (B, C) as e: pass\nexcept: pass\nelse: pass\nfinally: pass\n", "try: pass\nexcept A as e: pass\n",
    "with a: pass\n", "with a as b: pass\n", "with a, b: pass\n", "with a as b, c as d: pass\n", "with (a): pass\n", "with (a, b): pass\n", "with (a as b): pass\n", "with (a as b, c as d): pass\n", "with (a as b, c as d,): pass\n", "with (a, b) as c: pass\n", "with a as (b, c): pass\n", "with a as [b, c]: pass\n", "with a as b.c: pass\n", "with a as b[0]: pass\n", "with (\n    a as b,\n    c as d,\n):\n    pass\n",
    "@a\ndef f(): pass\n", "@a.b\ndef f(): pass\n", "@a.b()\ndef f(): pass\n", "@a(1)(2)\ndef f(): pass\n", "@a[0]\ndef f(): pass\n", "@(a)\ndef f(): pass\n", "@a or b\ndef f(): pass\n", "@lambda f: f\ndef f(): pass\n", "@x.y.z\nclass C: pass\n", "@a if b else c\ndef f(): pass\n",
    # operators and precedence, every operator token
    "x = a + b - c * d / e // f % g @ h ** i\n", "x = a << b >> c & d | e ^ f\n", "x = ~a\n", "x = -a ** -b\n", "x = not a\n", "x = a if b else c if d else e\n", "x = a < b <= c == d != e > f >= g\n", "x = a is b is not c in d not in e\n", "x = a and b or c and not d\n",
    "x += 1; x -= 1; x *= 1; x /= 1; x //= 1; x %= 1; x @= 1; x **= 1; x <<= 1; x >>= 1; x &= 1; x |= 1; x ^= 1\n", "x = (y := 1)\n", "x = a[1:2:3]\n", "x = a[::]\n", "x = a[:, ...]\n", "x = a.b.c\n", "x = a()()\n", "def f() -> a: pass\n",
    "x = a!=b\n", "x = a != b\n", "x = a if b else(c)\n", "x = (a)if(b)else(c)\n", "x=[a]if{b}else(c)\n", "x = a**-b\n", "x = a--b\n", "x = a+-+-b\n", "x = a*-b\n", "x = a@b@c\n", "x = a@-b\n" , "x = -a@b\n", "x @= a@b\n",
    "x = ...\n", "x = (...).real\n", "x = a. b\n", "x = a .b\n", "x = a . b\n", "x = a.\\\nb\n", "print(a.real, 1.0.real)\n", "x = a if b else lambda: c\n", "x = lambda: (yield)\n", "x = [*a]\n", "x = *a,\n", "x = *a, b\n", "x = a, *b\n", "x = (*a,)\n",
    "x = {**a}\n", "x = {**a, **b}\n", "x = {*a, *b}\n", "x = {a, *b}\n", "x = {a: b, **c}\n", "x = {a: b for a, b in c}\n", "x = {a for a in b}\n", "x = [a for a in b if c if d for e in f]\n", "x = (a for a in b)\n", "x = [a for a in b]\n",
    "() = ()\n", "[] = []\n", "() = x\n", "[] = x\n", "(a, b) = x\n", "[a, b] = x\n", "a, (b, c) = x\n", "a, [b, *c] = x\n", "*a, = x\n", "(*a,) = x\n", "[*a] = x\n", "a = b = c\n", "a, b = c, d = e\n", "a.b = c\n", "a[b] = c\n", "a[b:c] = d\n", "a.b.c[d].e = f\n", "(a) = 1\n", "(a.b) = 1\n", "((a)) = 1\n", "(a), b = 1, 2\n",
    "del ()\n", "del []\n", "del a\n", "del a.b\n", "del a[b]\n", "del a[b:c]\n", "del (a)\n", "del (a), b\n", "del [a, (b, c)]\n", "for () in x: pass\n", "for [] in x: pass\n", "[1 for () in x]\n", "with a as (): pass\n", "for a.b in x: pass\n", "for a[b] in x: pass\n", "for (a) in x: pass\n",
    "global a\n", "global a, b\n", "def f():\n    nonlocal a\n", "assert a\n", "assert a, b\n", "assert (a, b)\n", "raise\n", "raise a\n", "raise a from b\n", "def f():\n    return a, b\n", "def f():\n    return *a, b\n", "def f():\n    yield\n    yield a\n    yield a, b\n    yield *a, b\n    x = yield\n    x = yield a\n    yield from a\n    x = yield from a\n",
    "pass\n", "while 1: break\n", "while 1: continue\n", "import a\n", "import a.b.c\n", "import a as b\n", "import a, b\n", "x = None\n", "x = True\n", "x = False\n", "x = __debug__\n", "x = _\n", "_ = 1\n",
    "print(a)\n", "print(a, file=b)\n", "print >>a, b\n", "exec('x')\n", "x = a\n", "ls\n", "ls -l\n", "ls - l\n", "echo > out.x\n", "cd / a\n", "a | b\n", "a and b\n", "a; b\n", "a & b\n", "x = a @ b\n", "a @ b\n",
    # non-ASCII identifiers
    "ä = 1\n", "данные = 1\n", "名前 = 1\n", "µ = 1\n", "ﬁ = 1\n", "x = ａ\n", "x.é = 1\n", "def é(ñ): pass\n", "import é\n", "x = 'é'\n", "x = b'e'\n", "class Ü: pass\n", "e\u0301 = 1\n", "x = a\u00b7b\n", "℘ = 1\n", "x = 'a\u2028b'\n",
]


# ====================================================================== string-prefix × body-shape grid (systematic, not sampled)
def all_string_prefixes():
    """every legal string prefix of the running interpreter in EVERY case permutation and letter order ('' r R u U b B f F br Br bR
    BR rb … fr Fr fR FR rf …): tokenize's own table"""
    return sorted(tokenize._all_string_prefixes(), key=lambda p: (len(p), p.lower(), p))


# body shapes as written between the quotes; Q = the literal's own quote character, P = the other quote character
_BODY_SHAPES = [
    "", "abc", "a b", "a\\nb", "\\\\", "a\\\\", "\\d", "C:\\dir\\name", "a\\Qb", "\\Q", "aPb", "\\x41\\101", "{{", "}}", "{{x}}", "{{}}",
    # replacement fields (plain text for non-f literals)
    "{x}", "a{x}b{y}c", "{x!r}", "{x!s:>5}", "{x:>5}", "{x:{w}}", "{x:{w}.{p}}", "{x:a{w}b}", "{x=}", "{x = }", "{x=:>5}", "{x=!r}", "{{{x}}}", "{{{x}}}}}",
    "{d[PkP]}", "{f(PaP)}", "{x}{y}", "{ x }", "{x:}", "{x:%Y-%m}", "{x!a}",
    # backslashes next to braces and quotes
    "\\{x}", "C:\\{name}", "a\\{x}b", "{x}\\d", "\\\\{x}", "\\d{x}", "\\Q{x}", "{x}\\Q", "{x:\\d}", "\\{{x}}", "\\N{BULLET}", "\\N{BULLET}{x}", "\\n{x}\\t", "{x}\\\\",
    "{P\\nP}", "{x:{P>P}}", "{x + 1}", "{fP{y}P}", "{x if y else z}", "{(lambda: 1)()}", "{x,}", "{*a,}",
]


def string_grid():
    """-> [(description, source)]: every prefix spelling × every body shape × the four quote styles, as `v = <literal>`; kept when
    CPython accepts the text (warnings about invalid escapes are not errors)"""
    import warnings

    out = []
    for pre in all_string_prefixes():
        for q in ("'", '"', "'''", '"""'):
            other = '"' if q[0] == "'" else "'"
            for shape in _BODY_SHAPES:
                body = shape.replace("Q", q[0]).replace("P", other)
                if "b" in pre.lower() and not body.isascii():
                    continue
                src = f"v = {pre}{q}{body}{q}\n"
                try:
                    with warnings.catch_warnings():
                        warnings.simplefilter("ignore")
                        ast.parse(src)
                except (SyntaxError, ValueError):
                    continue
                out.append((f"grid {pre or '(none)'} {q}", src))
    return out
