"""C17 — `xonsh format` never changes what a program means, and is idempotent.

Layout of this module
  Impl            the code under test (formatter, its CLI, the real tokenizer, xonsh's parser), loaded once per process
  tree_diffs …    where two syntax trees differ, and in which context (subprocess arguments, macro bodies, f-string parts …)
  flips_of …      the separators the formatter's forced rules inserted / removed relative to the source (from the Lean model's
                  piece list) and the re-assembly of counterfactual outputs with some of them put back
  Judge           one source text -> correspondence (Lean model on the real token stream vs format_source) + the property
                  oracle (parse tree of output vs input, second pass, comment texts, rejection of untokenisable input);
                  every failure is attributed to a known finding ONLY by that finding's own classifier, else it is new
  cli_check       `xonsh format FILE` in a scratch directory: default / --check / --diff
  streams         directed inputs, random texts for _finalize, the merge relation vs the real tokenizer, damaged programs,
                  generated programs (large and small), every source file and doc snippet of /repo
  Gen             the program generator
"""

from __future__ import annotations

import ast
import contextlib
import io
import json
import os
import re
import signal
import uuid

from .. import common
from ..codec import Sym

ID = "C17"
LEVEL = "other"
GEN_MODULES = ["XonshVerif.Gen.FormatTables"]
PROPS_MODULES = ["XonshVerif.Props.C17"]
TECHNIQUE = (
    "Lean 4 proof over a model of the formatter's token re-emission (run loop, _space_between, _raw_between, _render_token, _finalize; rule "
    "tables and the tokenizer's complete operator / redirect languages translated from the source every run) + differential correspondence on "
    "the REAL tokenizer's token streams + property oracle on the real code (xonsh's own parser on input and output, second pass, comment "
    "texts, CLI path) over every source file of /repo and generated programs; failures attributed to known mechanisms by counterfactual re-assembly"
)
LEVEL_TEXT = (
    "partial: PROVED for ALL texts / token sequences / lexical contexts over the model (Model/Format.lean, tables translated from "
    "xonsh/formatter/core.py and xonsh/parsers/tokenize.py on every run): _finalize is idempotent (C17_finalize_idem); when no token text has "
    "a blank before a newline or at its end _finalize edits separators only and every token text survives verbatim, and the hypothesis is "
    "needed (C17_finalize_token_safe, _cex = the multi-line string with a blank-terminated line); the run loop emits every real token exactly "
    "once, in order, and nothing else but whitespace, so only whitespace changes (C17_tokens_emitted, C17_seps_are_ws, C17_only_ws_changes); a "
    "pair of tokens glued by a forced rule can never read back as a different token, over the complete operator tables, with the two real "
    "exceptions proved as counterexamples (C17_no_merge, _cex_braces, _cex_slice); outside macro bodies the spacing decision depends only on the "
    "tokens, the lexical context and whether there was a gap, so re-emitted text gets the same separators (C17_space_stable, "
    "C17_continuation_stable). ONLY TIED / SEARCHED, not proved: the main clause itself — that the output parses to the same tree and that a "
    "second pass changes nothing — because it rests on xonsh's tokenizer (regex scanner) and parser (LALR automaton + actions), which are not "
    "modelled: the Lean model is run on the real tokenizer's token stream and compared with the real format_source on every .py/.xsh/doc "
    "snippet of /repo and on generated programs (correspondence), and on the same inputs the property is checked on the real code: "
    "Parser tree of output vs input (context-free phase of Execer.parse, so bare subprocess lines have trees), format(format(s)) == format(s), "
    "comment texts, untokenisable input => FormatError and `xonsh format FILE` (default / --check / --diff) never rewrites it. The unchanged "
    "code violates the property in the ways listed as open under C17 in known_findings.json (each keyed by its mechanism and recognised only by its own classifier)."
)
LEVEL_NOTE = (
    "Trusted: Lean kernel + standard axioms; translator/c17.py; the harness (generators, tree comparison, classifiers). Not modelled: the "
    "tokenizer and the parser (the model consumes the real token stream; the oracle is xonsh's own parser); the context-aware second phase of "
    "Execer.parse (depends on run-time bindings) is outside the observation. _comment_indent's arithmetic is modelled in double precision "
    "(Lean Float) to be faithful to the source; no theorem depends on its value. Findings about subprocess words are statements about the "
    "pinned rule tables: with any other table such a failure counts as new."
)

TABLE_NAMES = ("_OPENERS", "_CLOSERS", "_ALWAYS_SPACED", "_PY_KEYWORDS", "_LINE_START_PYTHON_NAMES", "_PY_AFTER_LEADING_NAME", "_PY_INFIX_KEYWORDS")


# ------------------------------------------------------------------ the implementation under test
class Impl:
    """everything that touches /repo's code, loaded once"""

    _inst = None

    @classmethod
    def get(cls):
        if cls._inst is None:
            cls._inst = cls()
        return cls._inst

    def __init__(self):
        common.setup_repo_imports()
        import xonsh.execer as xexecer
        import xonsh.formatter.cli as cli
        import xonsh.formatter.core as core
        from xonsh.built_ins import XSH
        from xonsh.environ import Env
        from xonsh.parsers import tokenize as tkz

        self.core, self.cli, self.tkz, self.xexecer = core, cli, tkz, xexecer
        self.home = str(common.scratch_root() / "c17-home")
        os.makedirs(self.home, exist_ok=True)
        XSH.env = Env(XONSH_DEBUG=0, HOME=self.home, PATH=[], XONSH_DATA_DIR=self.home)
        self.execer = xexecer.Execer()
        XSH.execer = self.execer
        for obj, attr in ((self.execer, "_parse_ctx_free"), (core, "format_source"), (core, "_Formatter"), (cli, "main"), (tkz, "tokenize")):
            if not hasattr(obj, attr):  # the observation points of this check: without them it must not pretend to have looked
                raise common.InfraError(f"xonsh no longer has {getattr(obj, '__name__', type(obj).__name__)}.{attr}; the C17 harness has to be adapted")
        self.tables = [sorted(getattr(core, n)) for n in TABLE_NAMES]
        self.indent = core.DEFAULT_INDENT
        # Which repairs does the running implementation have?  Probed on the witnesses of the findings they repair; the Lean model
        # is run in the same variant (Model/Format.lean `Variant`), so the check is about the code that is there.
        def _probe(fn):
            try:
                return bool(fn())
            except Exception:  # noqa: BLE001
                return False

        self.variant = [
            _probe(lambda: core.format_source("echo a,b\n") == "echo a,b\n"),  # guard: subprocess text is left alone
            _probe(lambda: core._Formatter("x")._finalize("a\\\n\n") == "a\\\n\n"),  # eofFix: final backslash keeps its line end
            _probe(lambda: core.format_source('x = """a  \nb"""\n') == 'x = """a  \nb"""\n'),  # litFix: literal lines not stripped
        ]
        # does _iter_tokens tell the tokenizer that the bytes are UTF-8 (no coding cookie applied to decoded text)?
        self.cookie_ignored = _probe(lambda: core.format_source("# -*- coding: latin-1 -*-\nx = '\u00e9'\n").endswith("'\u00e9'\n"))

    # -- the real tokenizer, exactly as _Formatter._iter_tokens calls it
    def tokens(self, src):
        if src and not src.endswith("\n"):
            src += "\n"
        out = []
        kw = {"encoding": "utf-8"} if self.cookie_ignored else {}
        for t in self.tkz.tokenize(io.BytesIO(src.encode("utf-8")).readline, tolerant=False, **kw):
            out.append([Sym(self.tkz.tok_name.get(t.type, "OTHER")), t.string, t.start[0], t.start[1], t.end[0], t.end[1]])
        return src, out

    def tokenizes(self, src):
        try:
            self.tokens(src)
            return True, None
        except (self.tkz.TokenError, IndentationError, SyntaxError) as e:
            # (SyntaxError: detect_encoding on an invalid coding cookie)
            return False, f"{type(e).__name__}: {e}"

    def format(self, src):
        """('ok', text) | ('FormatError', msg) | ('crash', repr)"""
        try:
            return ("ok", self.core.format_source(src))
        except self.core.FormatError as e:
            return ("FormatError", str(e)[:200])
        except BaseException as e:  # noqa: BLE001
            if isinstance(e, (KeyboardInterrupt, CpuTimeout)):
                raise
            return ("crash", f"{type(e).__name__}: {e}"[:300])

    def comments(self, src):
        try:
            _, toks = self.tokens(src)
        except Exception:  # noqa: BLE001
            return None
        return [t[1].strip() for t in toks if str(t[0]) == "COMMENT"]

    # -- what the program means: xonsh's own parser
    def parse(self, src, keep=False, names=()):
        """('tree', dump, dump, (tree, tree)) | ('none', why)
        The context-free tree: Parser.parse, with the Execer's wrapping of the lines that are not Python (bare subprocess
        commands) — Execer._parse_ctx_free, the first phase of Execer.parse.  The context-aware second phase (which re-reads
        windows of the source text depending on which names are bound at run time) is NOT part of the observation: the
        property is about Parser.parse."""
        ex = self.execer
        try:
            tree, _inp = ex._parse_ctx_free(src, mode="exec", filename="<c17>")
            if tree is None:
                return ("tree", "None", "None", (None, None))
            d1 = ast.dump(tree, include_attributes=False)
            return ("tree", d1, d1, (tree, tree))
        except SyntaxError as e:
            return ("none", "SyntaxError: " + str(e)[:120])
        except RecursionError:
            return ("none", "RecursionError")
        except CpuTimeout:
            raise
        except Exception as e:  # noqa: BLE001
            return ("none", f"parser crashed: {type(e).__name__}: {e}"[:160])


class CpuTimeout(Exception):
    pass


@contextlib.contextmanager
def cpu_limit(seconds):
    """xonsh's parser has input-dependent blow-ups (its recovery loop re-parses the whole text per wrapped line);
    a case that burns more than `seconds` of CPU is skipped and counted, never judged"""

    def on(*_):
        raise CpuTimeout()

    old = signal.signal(signal.SIGVTALRM, on)
    signal.setitimer(signal.ITIMER_VIRTUAL, seconds)
    try:
        yield
    finally:
        signal.setitimer(signal.ITIMER_VIRTUAL, 0)
        signal.signal(signal.SIGVTALRM, old)


# ------------------------------------------------------------------ the model
def model_fmt(ctx, impl, src):
    s, toks = impl.tokens(src)
    r = ctx.driver.call("c17.fmt", impl.variant, impl.tables, impl.indent, s, toks)
    return {"text": r[0], "safe": r[1], "src_seps_ws": r[2], "toks_clean": r[3]}


def model_pieces(ctx, impl, src):
    s, toks = impl.tokens(src)
    r = ctx.driver.call("c17.pieces", impl.variant, impl.tables, impl.indent, s, toks)
    return [{"tok": p[0], "rule": str(p[1]), "src": p[2], "text": p[3]} for p in r], toks, s


# ------------------------------------------------------------------ where do two trees differ?
def _xonsh_attr(node):
    if isinstance(node, ast.Call) and isinstance(node.func, ast.Attribute) and isinstance(node.func.value, ast.Name) and node.func.value.id == "__xonsh__":
        return node.func.attr
    return None


def tree_diffs(a, b, ctxs=()):
    """minimal differing sub-trees of two ASTs, each with the chain of enclosing `__xonsh__.<helper>(…)` calls / JoinedStr"""
    if type(a) is not type(b):
        yield (ctxs, a, b)
        return
    if isinstance(a, ast.AST):
        c = ctxs
        xa = _xonsh_attr(a)
        if xa is not None:
            c = ctxs + (xa,)
        elif isinstance(a, ast.JoinedStr):
            c = ctxs + ("JoinedStr",)
        for f in a._fields:
            yield from tree_diffs(getattr(a, f, None), getattr(b, f, None), c + ("format_spec",) if f == "format_spec" else c)
    elif isinstance(a, list):
        if len(a) != len(b):
            yield (ctxs, a, b)
        else:
            for x, y in zip(a, b):
                yield from tree_diffs(x, y, ctxs)
    elif a != b:
        yield (ctxs, a, b)


def diff_class(ctxs, a):
    if any(c.startswith("subproc_") for c in ctxs):
        return "subproc-args"
    if "enter_macro" in ctxs:
        return "block-macro-body"
    if "call_macro" in ctxs:
        return "macro-call-args"
    if "JoinedStr" in ctxs:
        return "fstring-literal"
    if isinstance(a, (str, bytes)):
        return "string-literal"
    return "python-structure"


def diff_summary(trees_in, trees_out):
    """set of classes of the differences between input and output trees (both the context-free and the transformed tree)"""
    out = set()
    detail = []
    for ti, to in zip(trees_in, trees_out):
        for ctxs, a, b in tree_diffs(ti, to):
            k = diff_class(ctxs, a)
            out.add(k)
            if len(detail) < 4:
                detail.append({"class": k, "in": _short(a), "out": _short(b)})
    return out, detail


def _short(x):
    if isinstance(x, ast.AST):
        return ast.dump(x, include_attributes=False)[:160]
    if isinstance(x, list):
        return "[" + ", ".join(_short(y) for y in x)[:200] + "]"
    return repr(x)[:160]


# ------------------------------------------------------------------ pieces, flips and counterfactual re-assembly
STRUCTURAL = {"ENCODING", "ENDMARKER", "INDENT", "DEDENT", "NEWLINE", "NL"}
# separators chosen by _space_between's forced rules (everything except "keep the source's gap / no gap")
FORCED = {"opener", "closer", "commaB", "commaA", "colonB", "colonSlice", "colonA", "eq", "always", "kw", "comment", "contSub", "contPy", "rawCont"}
RULE_CLASS = {"commaA": "comma", "commaB": "comma", "colonA": "colon", "colonB": "colon", "colonSlice": "colon", "eq": "eq", "always": "operator", "kw": "keyword",
              "opener": "bracket", "closer": "bracket", "contSub": "continuation", "contPy": "continuation", "rawCont": "continuation"}


def finalize_py(segs, variant=(False, False, False)):
    """_finalize of the implementation's variant, re-stated (used only to assemble counterfactual outputs).
    segs = [(text, is_token)]"""
    keep, pos = set(), 0
    for t, is_tok in segs:
        if is_tok and variant[2]:
            j = t.find("\n", 1)
            while j != -1:
                keep.add(pos + j)
                j = t.find("\n", j + 1)
        pos += len(t)
    out, pos = [], 0
    for ln in "".join(t for t, _ in segs).split("\n"):
        end = pos + len(ln)
        out.append(ln if end in keep else ln.rstrip(" \t"))
        pos = end + 1
    body = "\n".join(out).rstrip("\n")
    return body + ("\n\n" if variant[1] and body.endswith(("\\", "\\\r")) else "\n")


def real_tokens(toks):
    out = []
    for t in toks:
        k = str(t[0])
        if k == "ENDMARKER":
            break
        if k not in STRUCTURAL:
            out.append(t)
    return out


def _real_end(t):
    s = t[1]
    k = s.count("\n")
    if k == 0:
        return t[2], t[3] + len(s)
    return t[2] + k, len(s.rsplit("\n", 1)[-1])


def flips_of(pieces, toks, src):
    """separators produced by a forced rule whose presence differs from the source's (a blank inserted where the source
    had none, or removed where it had one): [{i, rule, prev, cur, gap, fstr}]"""
    lines = src.split("\n")
    starts = [0]
    for ln in lines:
        starts.append(starts[-1] + len(ln) + 1)
    rt = real_tokens(toks)
    out = []
    k = -1  # index of the real token a tok piece stands for
    depth = 0
    in_f = []
    for t in rt:
        kind = str(t[0])
        if kind == "FSTRING_START":
            depth += 1
        in_f.append(depth > 0)
        if kind == "FSTRING_END":
            depth = max(0, depth - 1)
    for i, p in enumerate(pieces):
        if p["tok"]:
            k += 1
            continue
        if p["rule"] not in FORCED or k < 0 or k + 1 >= len(rt):
            continue
        prev, cur = rt[k], rt[k + 1]
        if p["rule"] in ("comment",):
            continue  # the padding of a comment is dealt with on the input side (comment_lead_variant)
        el, ec = _real_end(prev)
        if el != cur[2] or ec > cur[3] or el - 1 >= len(lines):
            continue
        gap = lines[el - 1][ec : cur[3]]
        # inside a macro body every blank counts: there the continuation rule "flips" whenever it changes the text at all
        if (gap == "") != (p["text"] == "") or (p["rule"] == "rawCont" and gap != p["text"]):
            out.append({"i": i, "rule": p["rule"], "prev": prev[1], "cur": cur[1], "gap": gap, "fstr": in_f[k] and in_f[k + 1], "line": cur[2],
                        "prev_kind": str(prev[0]), "cur_kind": str(cur[0])})
    return out


def assemble(pieces, repl, variant=(False, False, False)):
    return finalize_py([(repl.get(i, p["text"]), p["tok"]) for i, p in enumerate(pieces)], variant)


def flip_class(f):
    """the mechanism a flip belongs to"""
    r = f["rule"]
    if r == "rawCont":
        return "macro-continuation"
    if f["cur"] in ("\\\n", "\\\r\n") and f["gap"] == "":
        return "continuation"  # a blank forced between a word and the backslash-newline that continues it
    if f["fstr"]:
        if r in ("opener", "closer") and f["prev"] == f["cur"] and f["prev"] in ("{", "}"):
            return "fstring-brace"
        if r == "colonA" and f["cur"] == "{":
            return "fstring-spec"
    return RULE_CLASS.get(r)


# ------------------------------------------------------------------ top-level chunks
_CLAUSES = {"else", "elif", "except", "finally"}


def chunks_of(impl, src):
    """split a source into its top-level statements (decorators and else/elif/except/finally clauses stay with their
    statement); returns a list of source fragments whose concatenation is the source"""
    try:
        s, toks = impl.tokens(src)
    except Exception:  # noqa: BLE001
        return [src]
    lines = s.split("\n")
    level = depth = 0
    at_start = True
    starts = []
    prev_first = None
    for t in toks:
        k = str(t[0])
        if k == "INDENT":
            level += 1
        elif k == "DEDENT":
            level -= 1
        elif k == "NEWLINE":
            at_start = True
        elif k in ("NL", "ENCODING", "ENDMARKER", "COMMENT"):
            pass
        else:
            if at_start and level == 0 and depth == 0 and t[3] == 0:
                first = t[1]
                if not (first in _CLAUSES or prev_first == "@") or not starts:
                    starts.append(t[2])
                prev_first = first
            at_start = False
            if k == "OP":
                if t[1] in ("(", "[", "{", "$(", "$[", "${", "!(", "![", "@(", "@!(", "@$("):
                    depth += 1
                elif t[1] in (")", "]", "}"):
                    depth = max(0, depth - 1)
    if len(starts) <= 1:
        return [src]
    out = []
    bounds = [1] + starts[1:] + [len(lines) + 1]
    for a, b in zip(bounds, bounds[1:]):
        frag = "\n".join(lines[a - 1 : b - 1])
        if b <= len(lines):
            frag += "\n"
        out.append(frag)
    return [c for c in out if c]


def comment_lead_variant(impl, src):
    """the source with every comment (as the formatter's tokenizer sees it, `#` error tokens included) led by a blank;
    None when every comment already is"""
    try:
        s, toks = impl.tokens(src)
    except Exception:  # noqa: BLE001
        return None
    lines = s.split("\n")
    seen = set()
    changed = False
    for t in toks:
        k = str(t[0])
        if not (k == "COMMENT" or (k == "ERRORTOKEN" and t[1] == "#")):
            continue
        ln, col = t[2] - 1, t[3] + (len(t[1]) - len(t[1].lstrip()))
        if ln in seen or ln >= len(lines):
            continue
        seen.add(ln)
        line = lines[ln]
        head = line[:col]
        if not head.strip() or head.endswith(" "):
            continue
        lines[ln] = head.rstrip("\t ") + "  " + line[col:]
        changed = True
    if not changed:
        return None
    out = "\n".join(lines)
    return out if src.endswith("\n") else out[:-1]


_COOKIE = re.compile(r"^[ \t\f]*#.*?coding[:=][ \t]*([-\w.]+)", re.ASCII)


def cookie_variant(src):
    """the source with the coding cookie of its first two lines made unrecognisable (`coding` -> `c0ding`); None if there is none
    or it names UTF-8"""
    lines = src.split("\n")
    for i in range(min(2, len(lines))):
        m = _COOKIE.match(lines[i])
        if m and m.group(1).lower().replace("_", "-") not in ("utf-8", "utf8"):
            lines[i] = lines[i].replace("coding", "c0ding", 1)
            return "\n".join(lines)
    return None


def trigger_variant(src):
    """the source with every backslash-continuation line that begins (after its blanks) with a subprocess opener joined to the
    line it continues (a backslash-newline between tokens is whitespace); None when there is no such line.  A physical line
    whose first characters are `$(` `$[` `![` `!(` switches the tokenizer to subprocess-comment mode: whether such a
    continuation line starts in column 0 is up to the formatter's re-indentation, in both directions"""
    out = re.sub(r"(?<=[ \t])\\\r?\n[ \t]*(?=\$\(|\$\[|!\[|!\()", "", src)
    out = re.sub(r"\\\r?\n[ \t]*(?=\$\(|\$\[|!\[|!\()", " ", out)
    return out if out != src else None


# ------------------------------------------------------------------ judging one source text
WHY_MEANING = "the formatted text does not parse (xonsh's own parser) to the same syntax tree as the input"
WHY_IDEM = "formatting the formatter's own output again changes it"
WHY_REFMT = "the formatter's own output is rejected by the formatter (it cannot be tokenised)"
WHY_COMMENT = "comment text is not preserved"
WHY_REJECT = "input that cannot be tokenised was not rejected with the formatter's error"
WHY_ACCEPT = "the formatter raised on input the tokenizer accepts"


def _only_trailing_blanks_removed(a, b):
    """b is a with (some) runs of blanks directly before a newline deleted — what _finalize does inside a literal"""
    if isinstance(a, bytes) and isinstance(b, bytes):
        a, b = a.decode("latin-1"), b.decode("latin-1")
    if not (isinstance(a, str) and isinstance(b, str)) or a == b:
        return False
    parts = re.split(r"([ \t]+)(?=\n)", a)
    pat = "".join(("(?:" + re.escape(p) + ")?") if i % 2 else re.escape(p) for i, p in enumerate(parts))
    return re.fullmatch(pat, b, flags=re.S) is not None


def _no_comment_lines(s):
    return "\n".join(ln for ln in s.split("\n") if not ln.lstrip().startswith("#"))


def _strip_ws(s):
    return "".join(s.split()) if isinstance(s, str) else s


class Judge:
    def __init__(self, impl, driver, pinned_ok=True):
        self.impl, self.driver, self.pinned_ok = impl, driver, pinned_ok
        self.meaning = True  # apply the parse oracle (switched off for deliberately damaged inputs: they are not programs)

    # -- model access
    def m_fmt(self, src):
        s, toks = self.impl.tokens(src)
        r = self.driver.call("c17.fmt", self.impl.variant, self.impl.tables, self.impl.indent, s, toks)
        return {"text": r[0], "safe": r[1], "src_seps_ws": r[2], "toks_clean": r[3]}

    def m_pieces(self, src):
        s, toks = self.impl.tokens(src)
        r = self.driver.call("c17.pieces", self.impl.variant, self.impl.tables, self.impl.indent, s, toks)
        return [{"tok": p[0], "rule": str(p[1]), "src": p[2], "text": p[3]} for p in r], toks, s

    # -- one text, no localisation
    def whole(self, src, names=(), meaning=None):
        meaning = self.meaning if meaning is None else meaning
        impl = self.impl
        res = {"status": None, "counts": {}, "disagree": None, "failures": [], "out": None, "src": src, "assumption_breaks": []}

        def count(k):
            res["counts"][k] = res["counts"].get(k, 0) + 1

        def fail(kind, why, observed, key=None):
            res["failures"].append({"kind": kind, "why": why, "observed": observed, "key": key, "src": src, "m_ok": res.get("m_ok", False)})

        ok_tok, tokerr = impl.tokenizes(src)
        f = impl.format(src)
        if not ok_tok:
            res["status"] = "rejected"
            count("untokenisable")
            if f[0] != "FormatError":
                # known: an invalid coding cookie makes detect_encoding raise SyntaxError, which _iter_tokens does not convert
                key = "invalid-coding-cookie-escapes-as-syntaxerror" if (f[0] == "crash" and f[1].startswith("SyntaxError") and "encoding" in f[1] and "encoding" in str(tokerr)) else None
                fail("reject", WHY_REJECT, {"tokenizer": tokerr, "format_source": f}, key)
            return res
        if f[0] != "ok":
            res["status"] = "raised"
            fail("accept", WHY_ACCEPT, {"format_source": f})
            return res
        out = f[1]
        res["status"], res["out"] = "formatted", out
        if src == "":
            if out != "":
                fail("meaning", WHY_MEANING, {"out": out})
            return res
        # correspondence
        m = self.m_fmt(src)
        m_ok = m["text"] == out
        res["m_ok"] = m_ok
        if not m_ok:
            res["disagree"] = {"impl": out[-400:], "model": m["text"][-400:], "first_difference": _first_diff(out, m["text"])}
        if not m["src_seps_ws"]:
            res["assumption_breaks"].append("a separator copied from the source is not whitespace (token positions incoherent with the text)")
        count("changed" if out != src else "unchanged")
        ctxt = {"src": src, "out": out, "m_ok": m_ok, "m": m, "names": names, "pieces": None}
        # idempotence
        f2 = impl.format(out)
        if not meaning:
            # deliberately damaged text that still tokenises is no program: what the second pass does to it is counted, not judged
            if f2[0] not in ("ok", "FormatError"):
                fail("accept", WHY_ACCEPT, {"second_pass": f2})
            elif f2 != ("ok", out):
                count("damaged-text-second-pass-differs (observed, not judged)")
            return res
        if f2[0] != "ok":
            for key in self.key_refmt(ctxt, f2):
                fail("refmt", WHY_REFMT, {"second_pass": f2, "first_pass_tail": out[-120:]}, key)
        elif f2[1] != out:
            fail("idem", WHY_IDEM, {"first_difference": _first_diff(out, f2[1])}, self.key_idem(ctxt, f2[1]))
        # comments
        ci, co = impl.comments(src), impl.comments(out)
        if co is not None and ci != co:
            fail("comments", WHY_COMMENT, {"in": ci[:8], "out": co[:8]}, None)
        # meaning
        pi = impl.parse(src, keep=True, names=names)
        if pi[0] == "none":
            count("input-is-not-a-program")
            res["parse_in"] = pi[1]
            return res
        count("input-parses")
        po = impl.parse(out, keep=True, names=names)
        if po[0] == "none" or pi[1:3] != po[1:3]:
            for key, detail in self.keys_meaning(ctxt, pi, po):
                fail("meaning", WHY_MEANING, detail, key)
        res["_trees"] = (pi, po)
        return res

    # -- a program: judged as a whole; when it fails, the failing top-level statements are judged on their own (so that each
    #    reported failing input exhibits as few mechanisms as possible) and the remainder is judged again as a program
    def judge_located(self, src, names=()):
        r = self.whole(src, names)
        r.pop("_trees", None)
        if not r["failures"] or r["status"] != "formatted":
            return r
        chunks = chunks_of(self.impl, src)
        if len(chunks) < 2:
            return r
        subs = [self.whole(c, names) for c in chunks]
        bad = [i for i, s in enumerate(subs) if s["failures"]]
        if not bad:
            return r  # fails only in context: reported as the whole program
        rest = "".join(c for i, c in enumerate(chunks) if i not in bad)
        rr = self.whole(rest, names) if rest.strip() else None
        found = [f for i in bad for f in subs[i]["failures"]] + (rr["failures"] if rr else [])
        covered = {f["kind"] for f in found}
        r["failures"] = found + [f for f in r["failures"] if f["kind"] not in covered]
        r["localised"] = len(bad)
        for x in subs + ([rr] if rr else []):
            x.pop("_trees", None)
            if x.get("disagree") and not r["disagree"]:
                r["disagree"] = dict(x["disagree"], src=x["src"])
        return r

    def shrink(self, f, names, budget=120):
        """a smaller input with an unclassified failure of the same kind (lines first, then blank-separated words)"""
        kind = f["kind"]
        calls = [0]

        def still(text):
            if calls[0] >= budget or not text.strip():
                return None
            calls[0] += 1
            try:
                r = self.whole(text, names)
            except CpuTimeout:
                return None
            if r["status"] != "formatted":
                return None
            return next((g for g in r["failures"] if g["kind"] == kind and g["key"] is None), None)

        best = f
        lines = f["src"].split("\n")
        holder = {}

        def pred_lines(ls):
            g = still("\n".join(ls))
            if g is not None:
                holder["g"] = g
            return g is not None

        if len(lines) > 1:
            small = common.shrink_list(lines, pred_lines, max_rounds=60)
            if "g" in holder and len(small) < len(lines):
                best = holder["g"]
        # words of the remaining text
        text = best["src"]
        words = re.split(r"( +)", text)
        holder.clear()

        def pred_words(ws):
            g = still("".join(ws))
            if g is not None:
                holder["g"] = g
            return g is not None

        if 2 < len(words) < 400:
            small = common.shrink_list(words, pred_words, max_rounds=60)
            if "g" in holder and len(small) < len(words):
                best = holder["g"]
        return best

    def input_side_key(self, f, names):
        """input-side mechanisms: the failure disappears when the input is changed in exactly one respect.
        * a comment that is not led by a blank (TAB or nothing before `#`): whether such a `#` starts a comment depends on the
          tokenizer's subprocess-comment mode, which differs between the formatter's pass, its second pass and the parser's lexer;
        * a form feed (xonsh's parser reads what follows a form-feed line differently);
        * a backslash-continuation line that begins (after its blanks) with `$(` `$[` `![` `!(`: a physical line whose first
          characters are such an opener switches the tokenizer to subprocess-comment mode for the rest of the text; the formatter
          re-indents the line (into or out of column 0), so its second pass and the parser tokenise the rest differently;
        * CR-LF line ends: NEWLINE / NL tokens are emitted as "\\n", also inside a macro body, whose raw text changes;
        * a PEP 263 coding cookie in the first two lines: _iter_tokens hands UTF-8 bytes to a tokenizer that decodes them with
          the cookie's codec, so every non-ASCII character comes out garbled."""
        if not f.get("m_ok"):
            return None  # like every other classifier: only when the faithful model predicts the implementation's output
        for key, variant in (("comment-not-led-by-a-blank", lambda t: comment_lead_variant(self.impl, t)),
                             ("form-feed-changes-how-the-parser-reads-the-input", lambda t: t.replace("\f", "") if "\f" in t else None),
                             ("subproc-comment-mode-trigger-moved-by-reindent", trigger_variant),
                             ("crlf-inside-raw-text-becomes-lf", lambda t: t.replace("\r\n", "\n") if "\r\n" in t else None),
                             ("coding-cookie-applied-to-decoded-text", cookie_variant)):
            s2 = variant(f["src"])
            if s2 is None:
                continue
            r2 = self.whole(s2, names)
            if r2["status"] == "formatted" and not any(g["key"] is None and g["kind"] == f["kind"] for g in r2["failures"]):
                return key
        return None

    def judge(self, src, names=(), shrink=True):
        r = self.judge_located(src, names)
        out = []
        for f in r["failures"]:
            if f["key"] is None and f["kind"] in ("meaning", "idem", "comments", "refmt"):
                f["key"] = self.input_side_key(f, names)
                if f["key"] is None and shrink and len(f["src"]) > 60:
                    orig = f["src"]
                    f = dict(self.shrink(f, names))
                    f["key"] = self.input_side_key(f, names)
                    if f["src"] != orig:
                        f["shrunk_from"] = orig
            out.append(f)
        r["failures"] = out
        return r

    # -- the flips of the first pass (only meaningful when the model reproduces the implementation's output)
    def flips(self, ctxt):
        if ctxt["pieces"] is None:
            ps, toks, s = self.m_pieces(ctxt["src"])
            ctxt["pieces"] = ps
            ctxt["flips"] = flips_of(ps, toks, s)
            ctxt["toks"] = toks
        return ctxt["pieces"], ctxt["flips"]

    def revert(self, ctxt, classes, only_lines=None, only_class=None):
        """the output with the flips of the given classes put back as in the source (for `only_class`: only its flips on `only_lines`)"""
        ps, fl = self.flips(ctxt)
        return assemble(ps, {f["i"]: f["gap"] for f in fl if flip_class(f) in classes and (flip_class(f) != only_class or f["line"] in only_lines)},
                        self.impl.variant)

    def subproc_lines(self, ctxt, tree):
        """physical lines of the input that belong to a logical line which the input's tree holds as a subprocess command
        (the Execer wrapped it, or it is written with $() ![] …)"""
        if "sublines" not in ctxt:
            starts = {n.lineno for n in ast.walk(tree) if _xonsh_attr(n) and _xonsh_attr(n).startswith("subproc_") and hasattr(n, "lineno")} if tree is not None else set()
            lines, cur_start, at_start = set(), None, True
            for t in ctxt["toks"]:
                k = str(t[0])
                if k in ("ENCODING", "INDENT", "DEDENT", "NL", "COMMENT", "ENDMARKER"):
                    continue
                if k == "NEWLINE":
                    at_start = True
                    continue
                if at_start:
                    cur_start, at_start = t[2], False
                if cur_start in starts:
                    lines.update(range(t[2], t[4] + 1))
            ctxt["sublines"] = lines
        return ctxt["sublines"]

    # -- known mechanisms for "the output cannot be formatted again"
    def key_refmt(self, ctxt, f2):
        """the mechanisms (all of them known findings) whose neutralisation makes the output tokenisable again, or [None]"""
        if not ctxt["m_ok"]:
            return [None]
        self.flips(ctxt)
        cands = []
        if self.eof_newline_lost(ctxt):
            cands.append("eof-newline")
        if any(flip_class(f) == "fstring-brace" for f in ctxt["flips"]):
            cands.append("fstring-brace")
        # an UNTERMINATED f-string is not detected when blanks precede its prefix (the tokenizer's early f-string test looks at
        # the text from the blanks on): the prefix becomes a NAME, the quote an ERRORTOKEN, no error; the formatter glues
        # `( rf"…` into `(rf"…`, where the same tokenizer does detect it and raises
        if f2 is not None and "f-string" in str(f2[1]):
            rt = real_tokens(ctxt["toks"])
            fpre = {"f", "rf", "fr", "pf", "fp", "frp", "rfp"}
            for x, y in zip(rt, rt[1:]):
                if str(y[0]) == "ERRORTOKEN" and y[1] in ("'", '"') and str(x[0]) == "NAME" and x[1].lower() in fpre and (x[4], x[5]) == (y[2], y[3]):
                    return ["unterminated-fstring-goes-unnoticed-after-a-blank"]
        names = {"eof-newline": "eof-continuation-loses-final-newline", "fstring-brace": "fstring-nested-braces-glued"}
        for k in range(1, len(cands) + 1):
            import itertools

            for sub in itertools.combinations(cands, k):
                if self.impl.tokenizes(self.counterfactual(ctxt, set(sub)))[0]:
                    return [names[c] for c in sub]
        return [None]

    def key_idem(self, ctxt, out2):
        if not ctxt["m_ok"]:
            return None
        ps, fl = self.flips(ctxt)
        # (a) braces of a nested replacement field were glued into an escape
        if any(flip_class(f) == "fstring-brace" for f in fl):
            alt = self.revert(ctxt, {"fstring-brace"})
            if self.impl.tokenizes(alt)[0]:
                return "fstring-nested-braces-glued"
        # (c) a blank that the tokenizer reports as an ERRORTOKEN (it does so for the blank before an unterminated quote) is
        #     emitted as token text and ALSO gets a gap in front: every pass adds one more blank there
        try:
            _, toks2 = self.impl.tokens(ctxt["out"])
        except Exception:  # noqa: BLE001
            toks2 = []
        if any(str(t[0]) == "ERRORTOKEN" and t[1] in (" ", "\t", "\f") for t in toks2) and _strip_ws(ctxt["out"]) == _strip_ws(out2):
            return "blank-errortoken-gains-a-blank-per-pass"
        # (b) a comment inside brackets whose token starts with a blank (tokenizer in subprocess-comment mode):
        #     its column is reported one short, so every pass moves it one column to the left
        o1, o2 = ctxt["out"].split("\n"), out2.split("\n")
        if len(o1) == len(o2):
            diff = [(a, b) for a, b in zip(o1, o2) if a != b]
            if diff and all(a.lstrip().startswith("#") and a.lstrip() == b.lstrip() and len(a) - len(a.lstrip()) == len(b) - len(b.lstrip()) + 1 for a, b in diff):
                try:
                    _, toks2 = self.impl.tokens(ctxt["out"])
                    if any(str(t[0]) == "COMMENT" and t[1].startswith(" ") for t in toks2):
                        return "bracket-comment-drifts-left-in-subproc-comment-mode"
                except Exception:  # noqa: BLE001
                    pass
        return None

    # -- tree differences
    def value_key(self, ctxs, a, b):
        """known mechanisms recognisable from the two differing leaf values alone"""
        cls = diff_class(ctxs, a)
        if cls != "block-macro-body" and _only_trailing_blanks_removed(a, b):
            # (repaired _finalize: lines ending inside a token are left alone — proved token-safe in the model — so what is still
            #  stripped are the blanks that end a line of a macro call's raw text, between tokens)
            return "raw-macro-line-trailing-blanks-stripped" if self.impl.variant[2] else "literal-trailing-blanks-stripped"
        if "JoinedStr" in ctxs and isinstance(a, str) and isinstance(b, str) and "format_spec" not in ctxs:
            if _strip_ws(a) == _strip_ws(b) and a.rstrip().endswith("="):
                return "fstring-debug-expression-respaced"
        if cls == "block-macro-body" and isinstance(a, str) and isinstance(b, str):
            # only whitespace changed, or a comment-only line was moved in / out of the block by its own column
            if _strip_ws(a) == _strip_ws(b) or _strip_ws(_no_comment_lines(a)) == _strip_ws(_no_comment_lines(b)):
                return "block-macro-body-reformatted"
        return None

    def unexplained(self, pi, po, ctxt):
        """(differences no value-level classifier explains, keys of the explained ones)"""
        un, keys = [], {}
        for ti, to in zip(pi[3][:1], po[3][:1]):
            for ctxs, a, b in tree_diffs(ti, to):
                k = self.value_key(ctxs, a, b) if ctxt["m_ok"] else None
                if k is None:
                    un.append((diff_class(ctxs, a), _short(a), _short(b)))
                else:
                    keys.setdefault(k, {"class": diff_class(ctxs, a), "in": _short(a), "out": _short(b)})
        return un, keys

    RESPACE = ("comma", "colon", "operator", "eq", "keyword", "bracket", "continuation")

    def eof_newline_lost(self, ctxt):
        """_finalize's `rstrip("\\n")` removed the line end(s) that followed a final backslash-newline: the text the run loop
        emitted ends in backslash, newline and at least one more newline; the output ends in backslash-newline"""
        ps, _ = self.flips(ctxt)
        pre = "\n".join(ln.rstrip(" \t") for ln in "".join(p["text"] for p in ps).replace("\r\n", "\n").split("\n"))
        body = pre.rstrip("\n")
        return body.endswith("\\") and len(pre) - len(body) >= 2 and ctxt["out"].endswith(("\\\n", "\\\r\n"))

    def counterfactual(self, ctxt, classes):
        """the output the formatter would have produced had it left the separators of the given mechanisms as in the source"""
        t = self.revert(ctxt, classes - {"eof-newline"})
        return t + "\n" if "eof-newline" in classes else t

    def keys_meaning(self, ctxt, pi, po):
        """[(known-finding key or None, detail)] for a formatted text whose tree differs from the input's (po may be unparsable)"""
        if po[0] == "tree":
            un, keys = self.unexplained(pi, po, ctxt)
            detail = {"differences": [{"class": c, "in": a, "out": b} for c, a, b in un[:3]]}
        else:
            un, keys = [("output-unparsable", "", po[1])], {}
            detail = {"output_parse": po[1]}
        out = [(k, d) for k, d in keys.items()]
        if not un:
            return out
        if not ctxt["m_ok"] or not self.pinned_ok:
            return out + [(None, detail)]
        ps, fl = self.flips(ctxt)
        present = {flip_class(f) for f in fl} - {None}
        if self.eof_newline_lost(ctxt):
            present.add("eof-newline")
        if not present:
            return out + [(None, detail)]

        def left(classes):
            alt = self.impl.parse(self.counterfactual(ctxt, classes), keep=True, names=ctxt["names"])
            if alt[0] != "tree":
                return [("output-unparsable", "", alt[1])], {}
            return self.unexplained(pi, alt, ctxt)

        un_all, keys_all = left(present)
        if un_all:
            return out + [(None, detail)]
        for k, d in keys_all.items():
            if k not in keys:
                out.append((k, d))
        # which mechanisms are needed, and which differences does each one account for (those that stay when it alone is kept)?
        needed = []
        for c in sorted(present):
            un_c = left(present - {c})[0]
            if un_c:
                needed.append((c, un_c))
        if not needed:
            needed = [(sorted(present)[0], un)]
        for c, un_c in needed:
            classes_un = {k for k, _, _ in un_c}
            ex = next((f for f in fl if flip_class(f) == c), None)
            d = {"differences": [{"class": k, "in": a, "out": b} for k, a, b in un_c[:2]], "rule": ex["rule"] if ex else None,
                 "between": [ex["prev"], ex["cur"]] if ex else None}
            if c == "macro-continuation":
                # the continuation line of a macro body is re-indented although its blanks are part of the raw argument
                key = "macro-body-continuation-reindented" if classes_un <= {"macro-call-args", "subproc-args"} else None
            elif c == "continuation":
                # a backslash-newline directly inside a word joins its halves (xonsh's lexer, both modes); the re-indented
                # continuation line splits the word
                key = "word-continued-across-backslash-newline-is-split"
            elif c in self.RESPACE:
                # Python spacing rules moved the word boundaries of subprocess-mode text: either the differences this rule class
                # accounts for lie in subprocess argument lists, or (output unparsable) putting back its flips on the lines the
                # Execer reads as subprocess commands is enough.  A change of Python structure is something else.
                key = None
                # (repaired code: in recognised subprocess text nothing is forced any more, so what is left of this mechanism is the
                #  statement heuristic not recognising a command — `./x.sh a,b`, `@(cmd) a:b` — one finding whatever the rule)
                name = "subproc-statement-not-recognised" if (self.impl.variant[0] and c != "eq") else "subproc-words-respaced-" + c
                if classes_un <= {"subproc-args", "macro-call-args"}:
                    key = name
                elif classes_un <= {"subproc-args", "macro-call-args", "output-unparsable", "python-structure"}:
                    sub = self.subproc_lines(ctxt, pi[3][0])
                    if sub:
                        t = self.revert(ctxt, present - {"eof-newline"}, only_lines=sub, only_class=c)
                        alt = self.impl.parse(t + ("\n" if "eof-newline" in present else ""), keep=True, names=ctxt["names"])
                        if alt[0] == "tree" and not self.unexplained(pi, alt, ctxt)[0]:
                            key = name
            elif c == "fstring-brace":
                key = "fstring-nested-braces-glued"
            elif c == "fstring-spec":
                key = "fstring-format-spec-gets-a-blank"
            elif c == "eof-newline":
                key = "eof-continuation-loses-final-newline"
            else:
                key = None
            out.append((key, d))
        return out


def _first_diff(a, b):
    i = 0
    n = min(len(a), len(b))
    while i < n and a[i] == b[i]:
        i += 1
    return {"at": i, "impl": a[max(0, i - 40) : i + 40], "other": b[max(0, i - 40) : i + 40]}


# ------------------------------------------------------------------ the command-line path (xonsh/formatter/cli.py)
WHY_CLI = "the command-line path (xonsh format FILE) did not leave the file as the property demands"


def cli_check(impl, src, workdir):
    """run cli.main on a scratch file in the three modes; returns a list of problems (empty = as demanded)"""
    problems = []
    os.makedirs(workdir, exist_ok=True)
    path = os.path.join(workdir, f"f-{uuid.uuid4().hex[:8]}.xsh")
    data = src.encode("utf-8")
    # what the CLI reads (text mode: universal newlines)
    with open(path, "wb") as fh:
        fh.write(data)
    with open(path, encoding="utf-8") as fh:
        as_read = fh.read()
    want = impl.format(as_read)
    ok_tok = impl.tokenizes(as_read)[0]

    def run(args):
        with open(path, "wb") as fh:
            fh.write(data)
        so, se = io.StringIO(), io.StringIO()
        try:
            with contextlib.redirect_stdout(so), contextlib.redirect_stderr(se):
                rc = impl.cli.main(args + [path])
        except SystemExit as e:
            rc = ("SystemExit", e.code)
        except BaseException as e:  # noqa: BLE001
            if isinstance(e, (KeyboardInterrupt, CpuTimeout)):
                raise
            rc = ("raised", f"{type(e).__name__}: {e}"[:200])
        with open(path, "rb") as fh:
            after = fh.read()
        return rc, after, so.getvalue(), se.getvalue()

    try:
        for mode in ([], ["--check"], ["--diff"]):
            rc, after, so, se = run(["-q"] + mode)
            if not ok_tok or want[0] != "ok":
                # cannot be tokenised: rejected with an error, never rewritten
                if after != data:
                    problems.append({"mode": mode, "problem": "a file that cannot be tokenised was rewritten", "rc": rc})
                elif rc != impl.cli.EXIT_ERROR:
                    problems.append({"mode": mode, "problem": "a file that cannot be tokenised was not reported as an error", "rc": rc, "stderr": se[-200:]})
                continue
            changed = want[1] != as_read
            if mode:
                if after != data:
                    problems.append({"mode": mode, "problem": "--check/--diff modified the file", "rc": rc})
                if rc != (impl.cli.EXIT_CHANGED if changed else impl.cli.EXIT_OK):
                    problems.append({"mode": mode, "problem": "wrong exit status", "rc": rc, "changed": changed})
                if mode == ["--diff"] and bool(so.strip()) != changed:
                    problems.append({"mode": mode, "problem": "diff output does not match whether the file would change", "rc": rc})
            else:
                expect = want[1].encode("utf-8") if changed else data
                if after != expect:
                    problems.append({"mode": mode, "problem": "the file does not hold format_source's result", "rc": rc, "first_difference": _first_diff(after.decode("utf-8", "replace"), expect.decode("utf-8", "replace"))})
                if rc != impl.cli.EXIT_OK:
                    problems.append({"mode": mode, "problem": "wrong exit status", "rc": rc})
    finally:
        with contextlib.suppress(OSError):
            os.unlink(path)
    return problems


_CLI_CHILD = r"""
import sys
sys.dont_write_bytecode = True
sys.path.insert(0, sys.argv[1])
import io, contextlib, locale
from xonsh.formatter.cli import main
print("ENC", locale.getpreferredencoding(False))
for path in sys.argv[2:]:
    try:
        with contextlib.redirect_stderr(io.StringIO()), contextlib.redirect_stdout(io.StringIO()):
            rc = main(["-q", path])
        print("RC", rc)
    except BaseException as e:
        print("RAISED", type(e).__name__, str(e).encode("ascii", "backslashreplace").decode()[:150].replace("\n", " "))
"""


def stream_cli_locale(ctx, n):
    """`xonsh format FILE` (in place) in a CHILD interpreter whose locale encoding is not UTF-8"""
    import subprocess
    import sys

    name = "cli-foreign-locale"
    ctx.stream_rule(
        name,
        "the real xonsh.formatter.cli.main, in-place mode, run in a child interpreter under LC_ALL=C PYTHONCOERCECLOCALE=0 PYTHONUTF8=0 "
        "(locale encoding ASCII) on scratch files with non-ASCII content (identifiers, strings, comments, subprocess words; generated "
        "programs, directed inputs, and damaged ones that cannot be tokenised): afterwards the bytes on disk must be format_source's result "
        "encoded as UTF-8 (the file is read as UTF-8 whatever the locale), exit status 0; for untokenisable input the bytes must be untouched "
        "and the status 123; a file is never left truncated or empty; non-trivial = formatting changes the file",
    )
    impl = Impl.get()
    srcs = [s for s in DIRECTED if not s.isascii()] + ["x = 'é'   \n", "名 = 1 ;print(名)\n", "echo é  ü,ö\n", "# ü\nx=1\n", 'x = """é\n', "名 = (1,\n", "s = 'ü\n"]
    tries = 0
    while len(srcs) < n and tries < 40 * n:
        tries += 1
        g = Gen(ctx.rng, small=True)
        t = g.program().replace("\r", "")
        if t.isascii():
            continue
        srcs.append(damage(ctx.rng, t) if tries % 7 == 0 else t)
    srcs = [t for t in srcs if _utf8_ok(t)]
    work = os.path.join(impl.home, "cli-locale")
    os.makedirs(work, exist_ok=True)
    paths = []
    for i, t in enumerate(srcs):
        pth = os.path.join(work, f"f{i}.xsh")
        with open(pth, "wb") as fh:
            fh.write(t.encode("utf-8"))
        paths.append(pth)
    env = {"LC_ALL": "C", "LANG": "C", "PYTHONCOERCECLOCALE": "0", "PYTHONUTF8": "0", "PYTHONIOENCODING": "utf-8", "PATH": os.environ.get("PATH", ""),
           "HOME": impl.home, "XONSH_XONSH_VERIF": "1"}
    out = []
    for k in range(0, len(paths), 200):
        pr = subprocess.run([sys.executable, "-c", _CLI_CHILD, str(common.REPO)] + paths[k : k + 200], env=env, capture_output=True, text=True, timeout=900)
        lines = [ln for ln in pr.stdout.split("\n") if ln.startswith(("RC", "RAISED", "ENC"))]
        enc = [ln for ln in lines if ln.startswith("ENC")]
        if not enc or "utf" in enc[0].lower():
            raise common.InfraError(f"the child interpreter's locale encoding is {enc[:1]} (a non-UTF-8 one is needed): {pr.stderr[-300:]}")
        res = [ln for ln in lines if not ln.startswith("ENC")]
        if len(res) != len(paths[k : k + 200]):
            raise common.InfraError("cli child: short output: " + pr.stderr[-400:])
        out += res
    ctx.extra["cli_child_locale_encoding"] = enc[0][4:]
    for t, pth, rcline in zip(srcs, paths, out):
        with open(pth, "rb") as fh:
            after = fh.read()
        data = t.encode("utf-8")
        as_read = io.TextIOWrapper(io.BytesIO(data), encoding="utf-8").read()
        want = impl.format(as_read)
        ok_tok = impl.tokenizes(as_read)[0]
        changed = want[0] == "ok" and want[1] != as_read
        ctx.case(name, t, changed, {"src": t, "child": rcline} if len(t) < 200 else None)
        problem = None
        if not ok_tok or want[0] != "ok":
            if after != data:
                problem = "a file that cannot be tokenised was rewritten"
            elif rcline != f"RC {impl.cli.EXIT_ERROR}":
                problem = "a file that cannot be tokenised was not reported as an error (exit 123)"
        else:
            expect = want[1].encode("utf-8") if changed else data
            if after != expect:
                problem = "the file does not hold format_source's result encoded as UTF-8" + (" (left truncated / empty)" if len(after) < len(expect) // 2 or not after else "")
            elif rcline != f"RC {impl.cli.EXIT_OK}":
                problem = "wrong exit status / exception"
        if problem:
            ctx.count(f"{name}/failure/cli/NEW")
            ctx.spec_failure({"stream": name, "src": t[:3000], "kind": "cli", "locale": "LC_ALL=C PYTHONCOERCECLOCALE=0 PYTHONUTF8=0"},
                             {"problem": problem, "child": rcline, "bytes_before": len(data), "bytes_after": len(after),
                              "first_difference": _first_diff(after.decode("utf-8", "replace"), (want[1] if want[0] == "ok" else as_read))}, WHY_CLI, None)
        with contextlib.suppress(OSError):
            os.unlink(pth)


def _utf8_ok(t):
    try:
        t.encode("utf-8")
        return True
    except UnicodeEncodeError:
        return False


# ------------------------------------------------------------------ worker processes
_WORKER = {}


def _judge():
    if "judge" not in _WORKER or _WORKER.get("pid") != os.getpid():
        impl = Impl.get()
        # the worker's own model driver; its stderr goes nowhere (when the pool is torn down early the driver would
        # otherwise report the closed pipe)
        saved = os.dup(2)
        devnull = os.open(os.devnull, os.O_WRONLY)
        try:
            os.dup2(devnull, 2)
            drv = common.Driver()
        finally:
            os.dup2(saved, 2)
            os.close(saved)
            os.close(devnull)
        _WORKER["judge"] = Judge(impl, drv, pinned_ok=tables_pinned(impl))
        _WORKER["pid"] = os.getpid()
    return _WORKER["judge"]


def _work(task):
    """task = {stream, id, src, names, cli, cpu}: judged in a worker; the result is plain data"""
    J = _judge()
    out = {"task": {k: task[k] for k in ("stream", "id")}, "features": task.get("features", []), "len": len(task["src"])}
    try:
        with cpu_limit(task.get("cpu", 60)):
            J.meaning = not task.get("damaged")
            r = J.judge(task["src"], task.get("names", ()))
            if task.get("cli"):
                probs = cli_check(J.impl, task["src"], os.path.join(J.impl.home, "cli"))
                for p in probs:
                    # (the same known finding seen through the CLI: the SyntaxError is not caught by cli.main either; the file is
                    #  left alone but the run dies instead of reporting the file and exiting 123)
                    key = "invalid-coding-cookie-escapes-as-syntaxerror" if ("SyntaxError" in str(p.get("rc")) and "encoding" in str(p.get("rc")) and "rewritten" not in p["problem"]) else None
                    r["failures"].append({"kind": "cli", "why": WHY_CLI, "observed": p, "key": key, "src": task["src"]})
                r["counts"]["cli-checked"] = 1
        r.pop("_trees", None)
        out.update(r)
        out["src"] = task["src"] if len(task["src"]) < 4000 else None
    except CpuTimeout:
        out.update({"status": "skipped-cpu-limit", "counts": {}, "failures": [], "disagree": None})
    except common.InfraError as e:
        out.update({"status": "infra", "error": str(e)[:300], "counts": {}, "failures": [], "disagree": None})
    except Exception:  # noqa: BLE001 — an exception nobody anticipated: infrastructure, never a verdict
        import traceback

        out.update({"status": "infra", "error": "worker crashed on " + repr(task["src"][:200]) + ":\n" + traceback.format_exc()[-1500:], "counts": {}, "failures": [], "disagree": None})
    return out


def run_tasks(ctx, tasks, procs=None):
    """judge the tasks (in worker processes when there are many) and book the results"""
    import multiprocessing as mp

    if not tasks:
        return
    Impl.get()
    procs = procs or max(1, min(10, (os.cpu_count() or 4) - 4, len(tasks) // 4))
    if procs > 1:
        pool = mp.get_context("fork").Pool(procs)
        it = pool.imap(_work, tasks, chunksize=1)
    else:
        pool, it = None, map(_work, tasks)
    done = False
    try:
        for res in it:
            book(ctx, res)
            if ctx.enough_failures(6):
                break
        else:
            done = True
    finally:
        if pool is not None:
            if done:
                pool.close()
            else:
                pool.terminate()
            pool.join()


def book(ctx, res):
    stream = res["task"]["stream"]
    if res["status"] == "infra":
        raise common.InfraError(res.get("error", "worker failed"))
    ctx.count(f"{stream}/status/{res['status']}")
    if res["status"] == "skipped-cpu-limit":
        ctx.case(stream, res["task"]["id"], False)
        return
    for k, v in res["counts"].items():
        ctx.count(f"{stream}/{k}", v)
    for f in res.get("features", []):
        ctx.count(f"feature/{f}")
    for a in res.get("assumption_breaks", []):
        ctx.count(f"{stream}/assumption-break: {a}")
    nontrivial = res["status"] == "rejected" or (res.get("out") is not None and res.get("out") != res.get("src"))
    sample = None
    if res.get("src") is not None and len(res["src"]) < 300:
        sample = {"src": res["src"], "status": res["status"], "formatted": res.get("out")}
    ctx.case(stream, res["task"]["id"], bool(nontrivial), sample)
    if res.get("disagree"):
        ctx.disagree(stream, {"id": res["task"]["id"], "src": (res["disagree"].get("src") or res.get("src") or "")[:1500]}, res["disagree"].get("impl"), res["disagree"].get("model"))
    if res.get("localised"):
        ctx.count(f"{stream}/failing-statements-judged-on-their-own", res["localised"])
    for f in res["failures"]:
        if f["key"] is None and os.environ.get("XV_C17_DUMP"):
            with open(os.environ["XV_C17_DUMP"], "a") as fh:  # debugging aid: every unclassified failure of a run
                fh.write(json.dumps({"stream": stream, "id": res["task"]["id"], "kind": f["kind"], "src": f["src"], "observed": f["observed"], "shrunk_from": f.get("shrunk_from")}, default=repr) + "\n")
        ctx.count(f"{stream}/failure/{f['kind']}/{f['key'] or 'NEW'}")
        ctx.spec_failure({"stream": stream, "id": res["task"]["id"], "src": f["src"][:3000], "kind": f["kind"]}, f["observed"], f["why"], f["key"])


# ------------------------------------------------------------------ the rule tables the known findings were established against
# The findings "subprocess words re-spaced by rule class X" are statements about THESE tables (which tokens force a blank).  With
# any other table a re-spacing failure is a new failure, whatever rule produced it.
PINNED_TABLES = {
    "_OPENERS": ["!(", "![", "$(", "$[", "${", "(", "@!(", "@$(", "@(", "[", "{"],
    "_CLOSERS": [")", "]", "}"],
    "_ALWAYS_SPACED": ["!=", "%=", "&=", "**=", "*=", "+=", "-=", "->", "//=", "/=", ":=", "<<=", "<=", "==", ">=", ">>=", "@=", "^=", "|="],
    "_PY_KEYWORDS": ["and", "as", "assert", "async", "await", "class", "def", "del", "elif", "else", "except", "finally", "for", "from", "global", "if", "import", "in", "is", "lambda", "nonlocal", "not", "or", "raise", "return", "try", "while", "with", "yield"],
    "_LINE_START_PYTHON_NAMES": ["False", "None", "True", "and", "as", "assert", "async", "await", "case", "class", "def", "del", "elif", "else", "except", "finally", "for", "from", "global", "if", "import", "in", "is", "lambda", "match", "nonlocal", "not", "or", "raise", "return", "try", "type", "while", "with", "yield"],
    "_PY_AFTER_LEADING_NAME": ["!=", "%", "%=", "&", "&=", "(", "*", "**", "**=", "*=", "+", "+=", ",", "-=", "->", ".", "/", "//", "//=", "/=", ":", ":=", ";", "<", "<<", "<<=", "<=", "=", "==", ">", ">=", ">>", ">>=", "@=", "[", "^", "^=", "|", "|="],
    "_PY_INFIX_KEYWORDS": ["and", "in", "is", "not", "or"],
}


def tables_pinned(impl):
    return impl.tables == [PINNED_TABLES[n] for n in TABLE_NAMES] and impl.indent == "    "


# ------------------------------------------------------------------ corpora
def repo_sources():
    """every .xsh/.py file of /repo (tests, xontrib, xompletions, xonsh itself, …) and the code snippets of its documentation"""
    out = []
    root = str(common.REPO)
    for dp, dns, fns in os.walk(root):
        dns[:] = sorted(d for d in dns if d not in (".git", "__pycache__", "node_modules"))
        for fn in sorted(fns):
            p = os.path.join(dp, fn)
            rel = os.path.relpath(p, root)
            if fn.endswith((".py", ".xsh", ".xonshrc")):
                try:
                    with open(p, encoding="utf-8") as fh:
                        out.append((rel, fh.read()))
                except (OSError, UnicodeDecodeError):
                    continue
            elif fn.endswith((".rst", ".md")):
                try:
                    with open(p, encoding="utf-8") as fh:
                        text = fh.read()
                except (OSError, UnicodeDecodeError):
                    continue
                for i, sn in enumerate(doc_snippets(text)):
                    out.append((f"{rel}#snippet{i}", sn))
    return out


def doc_snippets(text):
    import textwrap

    lines = text.split("\n")
    i, n = 0, len(lines)
    while i < n:
        m = re.match(r"^(\s*)\.\. code-block:: *(xonshcon|xonsh|python|xsh|py)\s*$", lines[i])
        if not m:
            i += 1
            continue
        base = len(m.group(1))
        lang = m.group(2)
        i += 1
        body = []
        while i < n and (not lines[i].strip() or len(lines[i]) - len(lines[i].lstrip()) > base):
            body.append(lines[i])
            i += 1
        block = textwrap.dedent("\n".join(body)).strip("\n")
        if not block.strip():
            continue
        if lang != "xonshcon":
            yield block + "\n"
            continue
        cur = None
        for ln in block.split("\n"):
            if ln.startswith(("@ ", ">>> ")):
                if cur:
                    yield "\n".join(cur) + "\n"
                cur = [ln.split(" ", 1)[1]]
            elif cur is not None and (ln.startswith("  ") or ln.startswith("... ")):
                cur.append(ln[2:] if ln.startswith("  ") else ln[4:])
            else:
                if cur:
                    yield "\n".join(cur) + "\n"
                cur = None
        if cur:
            yield "\n".join(cur) + "\n"


# ------------------------------------------------------------------ directed inputs (always run; the nasty corners on purpose)
DIRECTED = [
    "x=1\n", "x  =   1\n", "f(a=1)\n", "def f(x=1): pass\n", "lambda x=1: x\n", "a==b\n", "(a:=1)\n", "def f()->None: pass\n", "x = [1 ,2 , 3]\n", "d = {'a' : 1}\n",
    "a[1 : 2]\n", "a[1:2, ::3]\n", "if(x):\n  pass\n", "x = not(a)\n", "x = a if(b)else c\n", "print(1) ; print(2)\n", "import os,sys\n", "x = (\n    1,\n    2,\n)\n",
    "x = [\n  1,  # one\n      2,\n]\n", "def f(\n        a,\n        b,\n):\n    return a\n", "class A:\n\n\n\n    x = 1\n\n\n\n\n    y = 2\n", "\n\n\nx = 1\n\n\n\n\ny = 2\n",
    "if x:\n\ty = 1\n\tif z:\n\t\tw = 2\n", "if x:\n  y = 1\n  if z:\n    w = 2\n", "if x:\n        y = 1\n", "if x:\n    y = 1\n  # odd comment\nz = 2\n", "x = 1  \n", "x = 1\t\n", "x = 1",
    "# only a comment", "#!/usr/bin/env xonsh\n# -*- coding: utf-8 -*-\nx = 1\n", "x = 1 # c\n", "x = 1#c\n", "x = 1      # c\n", "x = 1\t# c\n", "x = 'a'  'b'\n", "x = '''a\nb'''\n",
    'x = """a  \nb"""\n', 'x = """a\t\nb"""\n', 's = """\n  \n"""\n', "x = b'''a  \nb'''\n", 'x = r"""a \n"""\n', 'x = f"""a  \n{y} \n"""\n', "def f():\n    '''Doc.  \n\n    More.   \n    '''\n",
    'x = "a \\\n b"\n', "x = 1 + \\\n    2\n", "x = 1 + \\\n2\n", "if a and \\\n   b:\n    pass\n", "ls -l \\\n   -a\n", "ls -l\\\n-a\n", "echo a \\\n\n", "x = 1 \\\n\n",
    'f"{x}"\n', 'f"{x!r:>10}"\n', 'f"{x = }"\n', 'f"{x=}"\n', 'f"{ x }"\n', 'f"{x:{w}.{p}f}"\n', 'f"{ {1: 2}[1] }"\n', 'f"{{a}} {b}"\n', "f'{d[\"k\"]}'\n", 'f"{x:=^10}"\n', 'f"{(y := 5)}"\n',
    'f"""m {x}\n  l2 {y}\n"""\n', "f'''{\nx +\n  y}'''\n", 'rf"\\d{x}"\n', 'f"{$HOME}"\n', 'f"{$(echo hi)}"\n', 'f"{x,}"\n', 'f"{x:%Y-%m-%d}"\n', 'F"{x}" f"{y}"\n',
    "ls -l\n", "ls  -la   /tmp\n", "echo a   b\n", "echo a,b\n", "echo a:b\n", "echo a=b\n", "echo x==y\n", "pip install x>=1\n", "curl http://example.com/a?b=1\n", "chown user:group f\n",
    "docker run -p 80:80 img\n", "git log --format=%h:%s\n", "./x.sh a,b\n", "./x.sh a=b\n", "~/bin/t a:b\n", "$HOME/bin/t a,b\n", "@(cmd) a,b\n", "echo if(x)\n", "echo a | grep b\n", "ls -la|wc\n",
    "echo a&&echo b\n", "echo a && echo b || echo c\n", "echo a and echo b\n", "echo a > f.txt\n", "echo a 2>&1\n", "echo a e>o\n", "echo a >> log\n", "cat < in\n", "sleep 1 &\n", "echo a ; echo b\n",
    "echo a;echo b\n", "echo 'a  b'  \"c  d\"\n", "echo $HOME/x\n", "echo ${'HOME'}\n", "echo @(x)y\n", "echo @(x) y\n", "echo @([1, 2])\n", "echo $(ls   -l)\n", "echo @$(which ls)\n", "ls *.py **/*.txt\n",
    "ls `a.*`\n", "ls g`*.py`\n", "cd ..\n", "cd -\n", "ls?\n", "ls??\n", "x?\n", "x = $(ls   -l)\n", "x = !(ls   -l)\n", "![ls   -l]\n", "$[ls   -l]\n", "x = $(echo a,b)\n", "x = $(echo a:b)\n",
    "x = !(echo a  ==b)\n", "for i in range(3):\n    echo @(i)  a\n", "if $(which ls):\n    ls -l  a,b\n", "$X = 1\n", "$X=1\n", "${'X'} = 1\n", "$PATH.append('/x')\n", "del $X\n",
    'f!("""a\nb"""  +  y)\n', 'f!("""a\nb\nc"""  +  y)\n', 'echo! """a\nb\nc"""   d\n', "r = f!(x, '''s\n  t\n u'''   if  z   else  w)\n", 'g!(f"""p {x}\nq\nr"""   %   i)\n',
    "echo! a   b  \n", "echo! a,b  c:d\n", "echo!  x  =  1\n", "f!(x  +  y, 'a  b')\n", "r = f!(  a ,b )\n", "with! ctx:\n    a  =  1\n", "with! ctx:\n    echo a   b\n\n\n\n    x = 1   # c\n",
    "with! Block() as b:\n    raw   text\n", "@deco\ndef f(): pass\n", "@aliases.register('n')\ndef _n(args):\n    echo @(args)\n", "async def f():\n    await g()\n", "x = yield\n",
    "match x:\n    case 1:\n        pass\n", "try:\n    pass\nexcept* E:\n    pass\n", "x: int = 1\n", "x : int=1\n", "def f(a, /, b, *, c=1, **k) -> int: ...\n", "print(*a, **k)\n", "a, *b = c\n", "x = -1\n",
    "x = a - -b\n", "x = a ** -b\n", "x = ~a\n", "x = a if b else c\n", "x = [i for i in y if i]\n", "x = {k: v for k, v in y}\n", "x = lambda: 0\n", "x = a @ b\n", "x @= b\n", "x = 1_000 + 0x1F + 1e5 + 1. + .5 + 2j\n",
    "x = ...\n", "x = a.b.c\n", "x = a . b\n", "x = 1 .real\n", "x = a<b\n", "x = a>b\n", "x = a >= b\n", "x = a<=b\n", "x = a<<b\n", "x = a>>b\n", "x = a|b\n", "x = a&b\n", "x = a^b\n", "x = a//b\n", "x = a%b\n",
    "x = 1;\n", "x = 1 ;y = 2\n", "global a,b\n", "assert x,'m'\n", "raise E from e\n", "from a import (b,\n    c)\n", "from . import x\n", "from .. m import y\n", "é = 'ü'\n", "名 = 1\n",
    "# -*- coding: latin-1 -*-\nx = '\u00e9 \u00fc'\n", "# vim: set fileencoding=cp1252 :\ny = \"\u00e9\"  # \u00fc\n", "./x.sh a,b c:d\n", "@(cmd) a,b\n",
    "rm @($(find . -name a,b).split())\n", "y = ${$(echo HOME:x).strip()}\n", "echo @(f($(ls a,b  k=v), 'c,d')) e:f\n", "echo $(echo @(f(a,b)) c,d x>=1)\n",
    "echo @$(which @(x) a:b) c,d\n", "z = f($(echo @([1 ,2]) a,b), 3)\n", "echo @($(echo @($(ls a,b)) c:d)) e=f\n", "x = $(echo ${'A' + 'B'} a,b ${$(echo c:d)})\n",
    "$(ls)\nx = 1 # c\n", "![ls]\nx = [\n    1,\n    # c\n    2,\n]\n", "$[ls]\nx = (\n  # c\n  1)\n", "x = 1\n\f\ny = 2\n", "x = 1\r\ny = 2\r\n", "if x:\r\n    y = 1\r\n",
    "x = {\n}\n", "x = [\n\n\n    1,\n\n\n    2]\n", "f(\n    a,\n\n    b)\n", "x = (1,\n     2,\n     3)\n", "x = f(a,\n      b)\n", "x = [\n\t1,\n\t2,\n]\n",
    "x = \\\n  1\n", "with a as b, \\\n     c as d:\n    pass\n", "x = (a  # c\n     + b)\n", "def f(): return 1\n", "if x: y = 1\n", "else_ = 1\n", "in_ = 2; is_ = 3\n", "lambda_ = 1\n",
]

MALFORMED = [
    "# -*- coding: nonsense -*-\nx = 1\n", '"""', "'''abc", 'x = """a\nb', "x = (1,\n", "y = [\n", "z = {", 'f"{', "s = f'''a{x}\n", 'f"}"', "f'{x'", 'f"{x:{"', "if x:\n    y = 1\n  z = 2\n", "  x = 1\n y = 2\n", "x = 1 \\", "x = 1 \\\n",
    "def f(:\n", "x = 'abc\n", 'x = "abc\n', "if x:\n\ty = 1\n        z = 2\n   w = 3\n", "x = (\n'''\n", "\x00", "x = 1\x00\n", "x = $(\n", "x = ![\n", "echo $(ls\n", "f'''{'''", 'f"{x}',
]


# ------------------------------------------------------------------ streams
def stream_directed(ctx):
    name = "directed"
    ctx.stream_rule(
        name,
        f"{len(DIRECTED)} hand-written inputs, one per spacing rule / syntactic context (assignment vs keyword '=', slices, lambda defaults, every "
        "f-string field form, every subprocess operator and redirect, macros, block macros, continuation lines, tab/2/4/8 indents, blank-line "
        "runs, comment forms, CR-LF, form feed, no final newline) and the CLI path on each: real tokenizer -> Lean model vs format_source "
        "(correspondence); Parser tree of output vs input, second pass, comment texts, CLI file contents (oracle); non-trivial = the text changes",
    )
    run_tasks(ctx, [{"stream": name, "id": i, "src": s, "cli": True, "cpu": 30} for i, s in enumerate(DIRECTED)])


def stream_malformed(ctx, n):
    name = "malformed"
    ctx.stream_rule(
        name,
        f"{len(MALFORMED)} hand-written untokenisable inputs and generated programs damaged at random (unterminated strings / f-strings / brackets, "
        "broken dedents, stray characters, EOF after a backslash, deleted spans): the real tokenizer decides whether the input can be tokenised; "
        "if not, format_source must raise FormatError and `xonsh format FILE` (default, --check, --diff; scratch dir) must exit 123 and leave the "
        "bytes alone; if it still tokenises: correspondence with the model, the CLI path, and the second pass must not crash (whether it changes "
        "such text again is counted, not judged, and the parse oracle is not applied: damaged text is not a program); non-trivial = the input "
        "is untokenisable",
    )
    tasks = [{"stream": name, "id": f"h{i}", "src": s, "cli": True, "cpu": 30} for i, s in enumerate(MALFORMED)]
    for i in range(n):
        g = Gen(ctx.rng, small=True)
        tasks.append({"stream": name, "id": i, "src": damage(ctx.rng, g.program().replace("\r", "")), "cli": i % 2 == 0, "cpu": 40, "features": ["damaged"], "damaged": True})
    run_tasks(ctx, tasks)


def stream_generated(ctx, n, name="generated-programs", small=False, cli_every=5):
    ctx.stream_rule(
        name,
        "random programs: nested blocks (if/for/while/def/class/try/with/with!, decorators, one-line bodies, docstrings) over Python statements "
        "(assignments incl. $ENV targets, augmented, annotated, calls with keywords/star args, slices, lambdas, comprehensions, walrus, ternaries, "
        "chained comparisons, numbers of every base, strings of every prefix incl. multi-line ones with blank-terminated lines, f-strings with "
        "conversions / format specs / nested fields / debug '=' / multi-line fields), subprocess lines (flags, paths, globs, URLs, user:group, a,b, "
        "x>=1, quoted args, @() $() ${}  @$(), pipes, && || and or, redirects, background), alias and function macros, help '?', captured "
        "subprocesses inside expressions; every optional gap rendered under a per-program style (none / one / several blanks / tabs / mixed), "
        "backslash continuations at random gaps, indentation unit TAB/2/3/4/8 blanks, blank-line runs of 0-5 (some holding blanks), comment lines "
        "at aligned and odd columns, inline comments with odd padding, bracketed multi-line literals with comments, shebang/coding lines, endings "
        "with / without / several newlines or a continuation, a few CR-LF and form-feed files.  Judged as a whole and, when failing, statement by "
        "statement; non-trivial = formatting changes the text",
    )
    tasks = []
    for i in range(n):
        g = Gen(ctx.rng, small=small)
        src = g.program()
        tasks.append({"stream": name, "id": i, "src": src, "cli": i % cli_every == 0, "cpu": 60, "features": sorted(g.features)})
    run_tasks(ctx, tasks)


def stream_corpus(ctx, n_parse, max_len):
    name = "repo-corpus"
    srcs = repo_sources()
    ctx.stream_rule(
        name,
        f"every .py/.xsh file under /repo (xonsh itself, xontrib, xompletions, tests, docs) and every xonsh/python code block of its .rst/.md "
        f"documentation ({len(srcs)} texts this run): Lean model vs format_source on the real token stream for ALL of them; the parse / second-pass "
        f"/ comment oracle on all snippets and .xsh files and on {n_parse if n_parse else 'all'} of the .py files (xonsh's parser needs seconds per file)"
        f"{' not longer than ' + str(max_len) + ' characters' if max_len else ''}; non-trivial = formatting changes the text",
    )
    J = Judge(Impl.get(), ctx.driver, pinned_ok=tables_pinned(Impl.get()))
    impl = J.impl
    small, big = [], []
    for rel, text in srcs:
        (small if (not rel.endswith(".py") or "#snippet" in rel) else big).append((rel, text))
    ctx.rng.shuffle(big)
    chosen = [x for x in big if not max_len or len(x[1]) <= max_len]
    chosen = chosen[:n_parse] if n_parse else chosen
    chosen_names = {r for r, _ in chosen}
    # correspondence only, for the files whose parse is not affordable in this tier
    for rel, text in big:
        if rel in chosen_names or not text:
            continue
        f = impl.format(text)
        if f[0] != "ok":
            ctx.count(f"{name}/not-formatted/{f[0]}")
            ok_tok = impl.tokenizes(text)[0]
            if ok_tok or f[0] != "FormatError":
                ctx.spec_failure({"stream": name, "file": rel}, {"format_source": f, "tokenizes": ok_tok}, WHY_ACCEPT if ok_tok else WHY_REJECT, None)
            ctx.case(name, rel, True)
            continue
        m = J.m_fmt(text)
        ctx.case(name, rel, f[1] != text)
        ctx.count(f"{name}/correspondence-only")
        if m["text"] != f[1]:
            ctx.disagree(name, {"file": rel}, _first_diff(f[1], m["text"]), "see first_difference")
        f2 = impl.format(f[1])
        if f2 != f:
            r = J.judge(text)
            for x in r["failures"]:
                if x["kind"] in ("idem", "refmt"):
                    ctx.count(f"{name}/failure/{x['kind']}/{x['key'] or 'NEW'}")
                    ctx.spec_failure({"stream": name, "file": rel, "src": x["src"][:3000], "kind": x["kind"]}, x["observed"], x["why"], x["key"])
    tasks = [{"stream": name, "id": rel, "src": text, "cli": False, "cpu": 240} for rel, text in small + chosen]
    run_tasks(ctx, tasks)


def stream_finalize(ctx, n):
    name = "finalize"
    ctx.stream_rule(
        name,
        "random texts over {blank, TAB, newline, CR, form feed, letters, quotes}: the real _Formatter._finalize vs the Lean `finalize` (right-to-left "
        "fold) vs the Lean reference form (split / rstrip / join, literally the source's expression); non-trivial = the text changes",
    )
    impl = Impl.get()
    fm = impl.core._Formatter("x")
    alpha = [" ", " ", "\t", "\n", "\n", "\r", "\f", "a", "b", '"', "'", "#", "\\", "é"]
    for i in range(n):
        k = ctx.rng.randint(0, 40)
        t = "".join(ctx.rng.choice(alpha) for _ in range(k))
        real = fm._finalize(t)
        m = ctx.driver.call("c17.finalize", impl.variant[1], t)
        ctx.case(name, t, real != t, {"text": t, "finalized": real} if i < 3 else None)
        if m[0] != real or m[1] != real:
            ctx.disagree(name, {"text": t}, real, {"fold": m[0], "reference": m[1]})
        if fm._finalize(real) != real:
            ctx.spec_failure({"stream": name, "text": t}, {"once": real, "twice": fm._finalize(real)}, "_finalize is not idempotent", None)


# ------------------------------------------------------------------ known findings, run, search, replay
def replay_known(ctx):
    J = Judge(Impl.get(), ctx.driver, pinned_ok=tables_pinned(Impl.get()))
    for f in ctx.known:
        w = f["witness"]
        r = J.judge(w["src"], shrink=False)
        hit = [x for x in r["failures"] if x["key"] == f["key"]]
        other = [x for x in r["failures"] if x["key"] != f["key"]]
        ctx.replayed(f["key"], bool(hit), {"src": w["src"], "formatted": r.get("out"), "observed": hit[0]["observed"] if hit else None})
        if r.get("disagree"):
            ctx.disagree("known-witness", {"src": w["src"]}, r["disagree"].get("impl"), r["disagree"].get("model"))
        for x in hit[:1]:
            ctx.spec_failure({"stream": "known-witness", "src": w["src"], "kind": x["kind"]}, x["observed"], f["what"], f["key"])
        for x in other:
            ctx.spec_failure({"stream": "known-witness", "src": x["src"], "kind": x["kind"]}, x["observed"], x["why"], x["key"])


def translate(ctx):
    from translator import c17 as tr

    text, fps, errors = tr.generate(common.REPO)
    common.write_if_changed(common.module_path("XonshVerif.Gen.FormatTables"), text)
    ctx.fingerprints.update(fps)
    ctx.translator_errors += errors
    ctx.trusted_base.append("translator/c17.py (dumps the formatter's rule tables and enumerates the tokenizer's operator / redirect regexes into Lean lists)")


def run(ctx):
    impl = Impl.get()
    ctx.trusted_base += [
        "the harness xv/props/c17.py (generators, tree comparison, classifiers of known findings)",
        "xonsh's own tokenizer and parser are the observers: the model takes the REAL token stream as input, the oracle is xonsh's Parser (context-free phase of Execer.parse)",
    ]
    ctx.assumptions += [
        "token boundaries depend only on the text and on where whitespace separates it (so: same token texts, separators only where needed => same token sequence): assumed by the step from the theorems to tree preservation, exercised by the oracle on every case",
        "separators copied from the source (line prefixes inside brackets, macro bodies) are whitespace, i.e. the tokenizer's positions are coherent with the text: checked on every case (`assumption-break` counters)",
        "the context-aware second phase of Execer.parse (depends on the names bound at run time and re-reads source windows) is outside the observation",
    ]
    ctx.explanation = EXPLANATION
    ctx.extra["rule_tables_match_pinned"] = tables_pinned(impl)
    ctx.extra["implementation_variant"] = {"subprocess_text_guard": impl.variant[0], "eof_backslash_keeps_line_end": impl.variant[1],
                                           "literal_lines_not_stripped": impl.variant[2], "coding_cookie_ignored": impl.cookie_ignored}
    replay_known(ctx)
    stream_directed(ctx)
    stream_finalize(ctx, ctx.n(300, 5000))
    stream_merges(ctx, ctx.n(3000, 40000))
    stream_malformed(ctx, ctx.n(120, 1500))
    stream_generated(ctx, ctx.n(150, 2000))
    stream_generated(ctx, ctx.n(400, 6000), name="generated-small", small=True, cli_every=10)
    stream_cli_locale(ctx, ctx.n(60, 600))
    stream_corpus(ctx, ctx.n(25, 0), ctx.n(12000, 0))


def search(ctx, reason):
    ctx.extra["search_reason"] = reason
    stream_generated(ctx, ctx.n(400, 1500), name="search:generated-small", small=True)
    stream_generated(ctx, ctx.n(150, 600), name="search:generated-programs")


def replay(ctx, path):
    r = json.loads(open(path).read())
    c = r["case"]
    if "src" not in c:
        print("this replay has no source text; re-run ./check C17 with the same seed")
        return common.EXIT_INFRA
    J = Judge(Impl.get(), ctx.driver, pinned_ok=tables_pinned(Impl.get()))
    res = J.judge(c["src"], shrink=False)
    print("input:    ", repr(c["src"]))
    print("formatted:", repr(res.get("out")))
    known = {f["key"] for f in ctx.known if f.get("status") == "open"}
    bad = False
    for f in res["failures"]:
        print(f"  {f['kind']}: {f['why']}  [{f['key'] or 'not a known finding'}]  {json.dumps(f['observed'], default=repr)[:600]}")
        bad = bad or f["key"] not in known
    if res.get("disagree"):
        print("  model and implementation disagree:", res["disagree"])
        bad = True
    print(f"VIOLATION property={ID} replay={path}" if bad else "property holds on this input (or only known findings show)")
    return common.EXIT_VIOLATION if bad else common.EXIT_OK


EXPLANATION = (
    "Model lean/XonshVerif/Model/Format.lean (run loop of _Formatter over the real token stream, separators tagged with the rule that chose "
    "them), tables Gen/FormatTables.lean regenerated from /repo, theorems Props/C17.lean. Proved clauses: finalize idempotent / token-safe "
    "(+cex), only whitespace changes, every token emitted once in order, forced glue never merges tokens (+2 cex), spacing stable under "
    "re-emission. Searched clauses (not theorems): tree preservation, idempotence of the whole formatter, rejection of untokenisable input, CLI "
    "never rewrites it. A failing case is attributed to a known finding only when the model reproduces the implementation's output AND the "
    "finding's own classifier holds (value-level predicates for literal / f-string / block-macro differences; for re-spaced subprocess words: "
    "putting back the blanks that the forced rules inserted or removed restores the input's tree, leave-one-out names the rule class, rule "
    "tables equal the pinned ones; input-side counterfactuals for comment leads and form feeds); anything else is reported as a violation."
)


def stream_merges(ctx, n):
    name = "merge-relation"
    ctx.stream_rule(
        name,
        "the Lean relation `merges` (would writing token b directly after token a read back as something else?) against the REAL tokenizer: "
        "a and b range over every string of the tokenizer's operator / bracket / redirect regexes (enumerated from the live patterns) and a "
        "vocabulary of names, keywords, string prefixes, numbers of every form, strings, `$` `@` `!` `?`; a pair really merges when tokenising "
        "a+b does not give [a, b]; every real merge must be flagged by `merges` (it may flag more: it is an over-approximation, and the "
        "theorem C17_no_merge is about everything it flags); non-trivial = the pair really merges",
    )
    impl = Impl.get()
    from translator import c17 as tr

    ops = set()
    for pat in (impl.tkz.Operator, impl.tkz.Bracket, impl.tkz.Special, impl.tkz.IORedirect):
        try:
            ops |= {s for s in tr.language(pat) if s and "\n" not in s}
        except tr.NotFinite:
            ctx.count(f"{name}/regex-not-finite")
    ops = sorted(ops)
    vocab = ops + ["a", "x1", "_y", "é", "if", "in", "is", "not", "or", "and", "lambda", "f", "rb", "r", "b", "u", "p", "fr", "e", "err", "out", "all", "o", "1", "2", "10", "0x1F", "1e5",
                   "1.", ".5", "1_000", "2j", "0", "'a'", '"b"', "''", '""', "'''t'''", '"""t"""', "$", "$X", "@", "!", "?", "`a`", "g`*`", "$(", "@(", "...", ".."]

    def toks(s):
        try:
            return [t[1] for t in real_tokens(impl.tokens(s)[1])]
        except Exception:  # noqa: BLE001
            return None

    single = {v for v in vocab if toks(v) == [v]}
    pairs = [(a, b) for a in sorted(single) for b in sorted(single)]
    ctx.rng.shuffle(pairs)
    reqs, keep = [], []
    for a, b in pairs[:n]:
        got = toks(a + b)
        real = got != [a, b]
        reqs.append(("c17.merges", ops, a, b))
        keep.append((a, b, real, got))
    for (a, b, real, got), m in zip(keep, ctx.driver.batch(reqs)):
        ctx.case(name, (a, b), real, {"a": a, "b": b, "a+b tokenises as": got, "model_merges": m} if real and len(ctx.samples) < 40 else None)
        ctx.count(f"{name}/{'real-merge' if real else 'no-merge'}/{'flagged' if m else 'not-flagged'}")
        if real and not m:
            ctx.disagree(name, {"a": a, "b": b}, {"a+b tokenises as": got}, "merges = false")


# ====================================================================== program generator
# Templates use two gap markers:
#   OG  an OPTIONAL gap   — any amount of blanks, including none, is allowed there by the language
#   RG  a REQUIRED gap    — at least one blank (subprocess arguments, keywords next to names)
# Everything else in a template is literal text.  `Gen.render` resolves the markers under a spacing style and never lets two
# pieces of text merge into a different token when it picks "no blank".
OG = "\x01"
RG = "\x02"

WORD = "abcdefghijklmnopqrstuvwxyzABCDEFGHIJKLMNOPQRSTUVWXYZ0123456789_"
OPCH = "+-*/%&|^<>=!~@$?:."

PY_NAMES = ["a", "b", "c", "x", "y", "z", "foo", "bar", "val", "n", "items", "res", "data_1", "_tmp", "self.v", "obj.attr.sub", "é", "名"]
# names a generated program treats as Python objects of the session (the context the program is parsed in)
PY_CTX = ["a", "b", "c", "x", "y", "z", "foo", "bar", "val", "n", "items", "res", "data_1", "_tmp", "self", "obj", "é", "名", "i", "q", "w", "k", "p", "d", "f", "g", "_h",
          "method", "A", "Foo", "Base", "B", "M", "deco", "mod", "aliases", "ctx", "Block", "mgr", "mac", "r", "g1", "g2", "args", "kw", "err", "lit", "os", "osp", "path", "sep", "m"]
CMD_NAMES = ["ls", "echo", "git", "grep", "cat", "cd", "docker", "pip", "curl", "mkdir", "rm", "tar", "make", "ssh", "scp", "chown", "touch", "xargs"]
CMD_PATHS = ["./run.sh", "~/bin/tool", "/usr/bin/env", "$HOME/bin/x", "../up/cmd", "@(cmd)", "@('e' + 'cho')"]
NUMBERS = ["0", "1", "42", "3.14", "1.", ".5", "1e5", "1E-3", "0x1F", "0b101", "0o17", "1_000", "2j", "10"]
STRINGS = [
    "'a'", '"b"', "''", '""', "'it\\'s'", '"say \\"hi\\""', "'a  b'", '" lead and trail "', "r'\\d+'", 'b"by"', "rb'x\\n'", "u'u'",
    "'#nocomment'", '"a#b"', "'a,b:c=d'", '"x == y"', "'''t1'''", '"""t2"""', "'''multi\nline'''", '"""doc\n    indented\n"""',
    '"""trail \nspace"""', "'''tab\t\nend'''", '"""blank\n\n\nlines"""', "'''  \n'''", "p'/tmp/x'", 'pr"C:\\dir"', "'a' 'b'", '"x" "y"',
    "'''q'uo\"te'''", "'é ü'", '"\\\\"', "'\\n'", '"""a\\\nb"""', "'con' \\\n    'cat'",
]
FSTRINGS = [
    'f"{x}"', "f'{x!r}'", 'f"{x:>10}"', 'f"{x = }"', 'f"{x=}"', 'f"{ x }"', 'f"{x:{w}.{p}f}"', 'f"{{lit}} {x}"', 'f"a {x} b {y} c"', "f'{d[\"k\"]}'",
    'f"{x + 1}"', 'f"{f(a, b)}"', 'f"{x if y else z}"', 'f"""m {x}\n  line2 {y}\n"""', 'f"""trail {x} \nnext"""', 'f"{a}{b}"', 'f"{x!r:^8}"',
    'rf"\\d{x}"', 'f"{$HOME}"', 'f"{$(echo hi)}"', "f'{x:%Y-%m-%d}'", 'f"{x,}"', 'f"{[1, 2][0]}"', 'f"{ {1: 2}[1] }"', 'f"{(lambda q: q)(1)}"',
    'f"{x:=^10}"', 'f"{(y := 5)}"', 'f"{x  +  y}"', 'f"{x   =   }"', 'F"{x}"', 'fr"{x}\\n"', "f'''{\nx  +\n  y}'''",
]
SUB_ARGS = [
    "a", "b", "file.txt", "-l", "-la", "--long", "--key=value", "--key", "-n", "5", "10", "*.py", "**/*.txt", "?", "a?b", "dir/", "./x", "../y", "~/z", "/abs/path",
    "$HOME", "$HOME/x", "${'PATH'}", "@(x)", "@(x)y", "@([1, 2])", "@(f(a, b))", "$(echo in)", "@$(which ls)", "'quoted arg'", '"dq  arg"', "r'raw\\n'", 'f"{x}"',
    "a,b", "a:b", "k=v", "x==y", "x>=1", "http://example.com/p?q=1", "user:group", "80:80", "user@host:path", "[ab]*", "a;b" , "1", "2.5", "-", "--", "a-b", "a.b.c",
    "+x", "a+b", "a=b=c", "%d", "a%b", "^C", "a|b".replace("|", "_"), "a_b", "#notcomment".replace("#", "_h"), "`re.*`", "g`*.py`", "if", "for", "in", "and".upper(),
    "is", "x[0]", "é", "名.txt", "a\\ b", "--flag=@(x)", "-o=$HOME", "$X=1".replace("$X=1", "X=1"),
]
REDIRS = ["> out.txt", ">> log", "< in.txt", "2> err.txt", "2>&1", "e>o", "o>e", "a> all.txt", "err> e.txt", "out> o.txt", "e>> e.log", "1>2".replace("1>2", "1> two"), "all>> a.log"]
COMMENTS = ["# c", "#c", "#  two", "# trail  ", "#", "##", "# x = 1", "#def f():", "#!shebang", "# é", "# a # b", "# 'q", '# "q', "# $(x)", "#\ttab"]
PUNCT_WORDS = ["a,b", "a:b", "k=v", "x>=1", "x==y", "http://h/p", "user:group", "in.txt", "--key=a,b", "-n", "w", "dir/", "80:80"]
MACRO_RAW = ["a b", "a   b", "x  =  1", "1 +   2", "'q  q'", "a,b", "a , b", "if  x:", "(  a  )", "[1,2 , 3]", "$HOME  x", "--f=v  -l", "a ;b", "a:b", "a == b", "a==b", "a\tb"]


class Gen:
    def __init__(self, rng, profile=None, small=False):
        self.small = small
        self.rng = rng
        r = rng.random()
        self.unit = rng.choice(["\t", "  ", "    ", "        ", "    ", "   "]) if profile is None else profile.get("unit", "    ")
        # spacing style: how optional gaps are resolved
        self.style = rng.choice(["tight", "one", "loose", "mixed", "mixed", "mixed"])
        self.features = set()
        self.depth_limit = 3
        self.cont_rate = rng.choice([0.0, 0.0, 0.03, 0.08])
        self.blank_ws = r < 0.3
        self.in_block_macro = 0
        self.flat = 0  # > 0 inside macro bodies: no bracketed literal spread over lines, no comment (is it raw text or a comment?)
        self.last_kind = "py"

    # ------------------------------------------------------------------ atoms
    def ch(self, xs):
        return self.rng.choice(xs)

    def name(self):
        return self.ch(PY_NAMES[:14]) if self.rng.random() < 0.93 else self.ch(PY_NAMES)

    def simple_name(self):
        return self.ch(["a", "b", "c", "x", "y", "z", "foo", "bar", "val", "n", "items", "res"])

    def string(self):
        s = self.ch(STRINGS)
        if "\n" in s:
            self.features.add("multiline-string")
        return s

    def fstring(self):
        if self.in_block_macro:
            return self.string()
        self.features.add("fstring")
        return self.ch(FSTRINGS)

    def atom(self):
        r = self.rng.random()
        if r < 0.34:
            return self.name()
        if r < 0.50:
            return self.ch(NUMBERS)
        if r < 0.64:
            return self.string()
        if r < 0.72:
            return self.fstring()
        if r < 0.78:
            return self.ch(["None", "True", "False", "..."])
        if r < 0.84:
            self.features.add("envvar")
            return self.ch(["$HOME", "$PATH", "${'X'}", "${" + OG + "'X' + 'Y'" + OG + "}", "$X_1"])
        if r < 0.94:
            self.features.add("captured-subproc")
            opener = self.ch(["$(", "!(", "$[", "!["])
            closer = ")" if opener[1] == "(" else "]"
            return opener + OG + self.subproc_words(inside=True) + OG + closer
        self.features.add("searchpath")
        return self.ch(["`.*\\.py`", "g`*.txt`", "p`x.*`", "`a b`", "@foo`bar`".replace("@foo", "g")])

    def expr(self, d=0):
        r = self.rng.random()
        if d >= self.depth_limit or r < 0.30:
            return self.atom()
        e = lambda: self.expr(d + 1)  # noqa: E731
        if r < 0.42:
            op = self.ch(["+", "-", "*", "/", "//", "%", "**", "<<", ">>", "&", "|", "^", "@"])
            return e() + OG + op + OG + e()
        if r < 0.50:
            op = self.ch(["==", "!=", "<", "<=", ">", ">=", "is", "is" + RG + "not", "in", "not" + RG + "in"])
            return self.paren_if(e()) + RG + op + RG + self.paren_if(e())
        if r < 0.56:
            op = self.ch(["and", "or"])
            return e() + RG + op + RG + e()
        if r < 0.60:
            if self.rng.random() < 0.3:
                return "(" + OG + "not" + RG + e() + OG + ")"
            return self.ch(["-", "+", "~"]) + self.paren_if(e())
        if r < 0.68:
            args = [e() for _ in range(self.rng.randint(0, 3))]
            if self.rng.random() < 0.5:
                args.append(self.simple_name() + OG + "=" + OG + e())
            if self.rng.random() < 0.15:
                args.append("*" + self.simple_name())
            if self.rng.random() < 0.15:
                args.append("**" + self.simple_name())
            return self.name() + "(" + OG + self.commas(args) + OG + ")"
        if r < 0.74:
            k = self.rng.random()
            if k < 0.4:
                return self.name() + "[" + OG + e() + OG + "]"
            if k < 0.8:
                return self.name() + "[" + OG + e() + OG + ":" + OG + e() + OG + "]"
            return self.name() + "[" + OG + ":" + OG + ":" + OG + self.ch(NUMBERS[:3]) + OG + "]"
        if r < 0.80:
            items = [e() for _ in range(self.rng.randint(0, 4))]
            o, c = self.ch([("[", "]"), ("(", ")"), ("{", "}")])
            if o == "{" and not items:
                return "{" + OG + "}"
            if o == "(" and len(items) == 1:
                return "(" + OG + items[0] + OG + "," + OG + ")"
            body = self.commas(items, multiline=self.rng.random() < 0.25)
            return o + OG + body + OG + c
        if r < 0.85:
            items = [self.string() + OG + ":" + OG + e() for _ in range(self.rng.randint(1, 3))]
            return "{" + OG + self.commas(items, multiline=self.rng.random() < 0.3) + OG + "}"
        if r < 0.89:
            self.features.add("lambda")
            params = self.ch(["", RG + "q", RG + "q" + OG + "," + OG + "w", RG + "q" + OG + "=" + OG + "1", RG + "*a" + OG + "," + OG + "**k"])
            return "(" + OG + "lambda" + params + OG + ":" + OG + e() + OG + ")"
        if r < 0.93:
            return "(" + OG + e() + RG + "if" + RG + e() + RG + "else" + RG + e() + OG + ")"
        if r < 0.96:
            return "[" + OG + e() + RG + "for" + RG + "i" + RG + "in" + RG + e() + (RG + "if" + RG + e() if self.rng.random() < 0.4 else "") + OG + "]"
        if r < 0.98:
            return "(" + OG + self.simple_name() + OG + ":=" + OG + e() + OG + ")"
        return "(" + OG + e() + OG + ")"

    def paren_if(self, s):
        return "(" + OG + s + OG + ")" if self.rng.random() < 0.25 else s

    def commas(self, items, multiline=False):
        if not items:
            return ""
        if multiline and not self.flat:
            self.features.add("bracket-multiline")
            pad = self.ch(["    ", "  ", "\t", "        ", ""])
            out = "\n"
            for i, it in enumerate(items):
                if self.rng.random() < 0.2:
                    self.features.add("comment-in-brackets")
                    out += pad + self.ch(COMMENTS) + "\n"
                last = i == len(items) - 1
                tail = ("," if (not last or self.rng.random() < 0.6) else "")
                cm = (self.ch(["  ", " ", "    "]) + self.ch(COMMENTS)) if self.rng.random() < 0.15 else ""
                if cm.endswith("") and cm and not tail and cm.lstrip() == cm:
                    cm = " " + cm
                out += pad + it + OG + tail + cm + "\n"
                if self.rng.random() < 0.1:
                    out += "\n"
            return out + self.ch(["", "  ", "    "])
        out = items[0]
        for it in items[1:]:
            out += OG + "," + OG + it
        if self.rng.random() < 0.1:
            out += OG + ","
        return out

    # ------------------------------------------------------------------ subprocess text
    def subproc_words(self, inside=False):
        self.features.add("subproc")
        n = self.rng.randint(0, 4)
        head = self.ch(CMD_NAMES) if (inside or self.rng.random() < 0.85) else self.ch(CMD_PATHS)
        words = [head] + [self.sub_arg() for _ in range(n)]
        s = words[0]
        for w in words[1:]:
            s += RG + w
        r = self.rng.random()
        if r < 0.12:
            self.features.add("pipe")
            conn = [RG + "|" + RG, OG + "|" + OG] + ([] if inside else [RG + "&&" + RG, RG + "||" + RG, RG + "and" + RG, RG + "or" + RG])
            s += self.ch(conn) + self.ch(CMD_NAMES) + RG + self.sub_arg()
        elif r < 0.2 and not inside:
            self.features.add("redirect")
            s += RG + self.ch(REDIRS)
        elif r < 0.23 and not inside:
            s += RG + "&"
        return s

    # -- mode-switching brackets nested in both directions: a capture inside a Python island inside a command, a Python island
    #    inside a capture inside a command, …; the words carry the punctuation the Python spacing rules react to
    def nest_sub(self, depth):
        """subprocess-mode text: words, and (depth > 0) one bracket that switches mode or opens a nested capture"""
        self.features.add("nested-mode-brackets")
        words = [self.ch(PUNCT_WORDS) for _ in range(self.rng.randint(1, 3))]
        if depth > 0:
            k = self.rng.random()
            if k < 0.45:
                words.insert(self.rng.randint(0, len(words)), "@(" + OG + self.nest_py(depth - 1) + OG + ")")
            elif k < 0.60:
                words.insert(self.rng.randint(0, len(words)), "${" + OG + self.ch(["$(", "!("]) + OG + "echo" + RG + self.nest_sub(depth - 1) + OG + ")" + self.ch([".strip()", ".out.strip()"]) + OG + "}")
            elif k < 0.80:
                words.insert(self.rng.randint(0, len(words)), "@$(" + OG + "echo" + RG + self.nest_sub(depth - 1) + OG + ")")
            else:
                words.insert(self.rng.randint(0, len(words)), "$(" + OG + "echo" + RG + self.nest_sub(depth - 1) + OG + ")")
        return RG.join(words)

    def nest_py(self, depth):
        """Python-mode text: an expression, holding (depth > 0) a capture whose words are subprocess text again"""
        if depth <= 0:
            return self.ch(["x", "f(a" + OG + "," + OG + "b)", "[1" + OG + "," + OG + "2]", "{'k'" + OG + ":" + OG + "1}", "a" + OG + "==" + OG + "b", "'a,b:c'"])
        o = self.ch(["$(", "!(", "$["])
        c = "]" if o.endswith("[") else ")"
        cap = o + OG + self.ch(["find", "echo", "ls"]) + RG + self.nest_sub(depth - 1) + OG + c
        if o == "$(":
            cap += self.ch([".split()", ".strip()", ""])
        return self.ch([cap, "f(" + OG + cap + OG + "," + OG + "'a,b'" + OG + ")", cap + OG + "+" + OG + "[1" + OG + "," + OG + "2]"])

    def sub_arg(self):
        if not self.in_block_macro and not self.flat and self.rng.random() < 0.05:
            return self.nest_sub(self.rng.randint(1, 3)).replace(RG, RG)
        a = self.ch(SUB_ARGS)
        while self.in_block_macro and a.startswith('f"'):
            a = self.ch(SUB_ARGS)
        if "\n" in a:
            self.features.add("multiline-string")
        return a

    def subproc_line(self):
        self.last_kind = "sub"
        s = self.subproc_words()
        if self.rng.random() < 0.08:
            s += OG + ";" + OG + self.subproc_words()
        return s

    def macro_raw(self, in_call=False):
        self.flat += 1
        try:
            return self._macro_raw(in_call)
        finally:
            self.flat -= 1

    def _macro_raw(self, in_call=False):
        """raw macro text: every blank in it is part of the program.  Canned snippets, subprocess words, whole expressions
        (so that strings over several lines, f-strings, brackets, captured subprocesses occur inside the raw region) or a
        literal followed by more text"""
        k = self.rng.random()
        if k < 0.30:
            return self.ch(MACRO_RAW)
        if k < 0.50:
            words = [w for w in (self.sub_arg() for _ in range(self.rng.randint(1, 4))) if "#" not in w and (not in_call or "," not in w)]
            return (RG.join(words) or "a") if not in_call else (OG + RG).join(words) or "a"
        if k < 0.80:
            return self.expr(1)
        lit = self.ch([s for s in STRINGS if "\n" in s] + ['"""a\nb\nc"""', "'''x\n\n  y\nz'''", 'f"""p {x}\nq\nr"""'])
        self.features.add("multiline-string-in-macro")
        return lit + self.ch(["", " ", "   ", "\t"]) + self.ch(["d", "+  y", "%   items", "if  z   else  w", ".strip( )", "x   y"])

    def macro_line(self):
        self.last_kind = "macro"
        self.features.add("macro")
        r = self.rng.random()
        if r < 0.5:
            tail = self.ch(["", "", " ", "  " + self.ch(MACRO_RAW)])
            return self.ch(CMD_NAMES[:4] + ["mymacro"]) + "!" + self.ch([" ", "  ", "\t", " "]) + self.macro_raw() + tail
        args = [a for a in (self.macro_raw(in_call=True) for _ in range(self.rng.randint(1, 3))) if "#" not in a] or ["a"]
        call = self.ch(["f", "mac", "obj.m"]) + "!(" + self.ch(["", " ", "  "]) + self.ch([", ", ",", " ,  "]).join(args) + self.ch(["", " "]) + ")"
        return call if self.rng.random() < 0.6 else "r" + OG + "=" + OG + call

    # ------------------------------------------------------------------ statements
    def simple_stmt(self):
        r = self.rng.random()
        e = self.expr
        if r < 0.22:
            tgt = self.ch([self.name(), self.simple_name() + OG + "," + OG + self.simple_name(), self.simple_name() + "[" + OG + e(2) + OG + "]", "$" + self.ch(["X", "HOME", "FOO_BAR"]),
                           self.simple_name() + OG + "=" + OG + self.simple_name()])
            return tgt + OG + "=" + OG + e()
        if r < 0.28:
            return self.name() + OG + self.ch(["+=", "-=", "*=", "/=", "//=", "%=", "**=", "|=", "&=", "^=", "<<=", ">>=", "@="]) + OG + e()
        if r < 0.32:
            return self.simple_name() + OG + ":" + OG + self.ch(["int", "str", "list[int]", "dict[str," + OG + "int]"]) + (OG + "=" + OG + e() if self.rng.random() < 0.7 else "")
        if r < 0.42:
            return e()
        if r < 0.60:
            return self.subproc_line()
        if r < 0.625 and not self.in_block_macro:
            k = self.rng.random()
            if k < 0.5:
                self.last_kind = "sub"
                return self.ch(CMD_NAMES) + RG + self.nest_sub(self.rng.randint(1, 3))
            return self.simple_name() + OG + "=" + OG + self.nest_py(self.rng.randint(1, 3))
        if r < 0.66:
            return self.macro_line()
        if r < 0.70:
            return self.ch(["import" + RG + "os", "import" + RG + "os.path" + RG + "as" + RG + "osp", "from" + RG + "os" + RG + "import" + RG + "path" + OG + "," + OG + "sep",
                            "from" + RG + "." + RG + "import" + RG + "x", "from" + RG + ".." + "m" + RG + "import" + RG + "(" + OG + "a" + OG + "," + OG + "b" + OG + ")", "import" + RG + "a" + OG + "," + OG + "b"])
        if r < 0.76:
            return self.ch(["pass", "return" + RG + e(), "return", "del" + RG + self.simple_name(), "assert" + RG + e() + OG + "," + OG + self.string(), "raise" + RG + "ValueError(" + OG + self.string() + OG + ")",
                            "global" + RG + "g1" + OG + "," + OG + "g2", "raise", "yield" + RG + e(), "print(" + OG + e() + OG + ")", "break", "continue"])
        if r < 0.80:
            return self.simple_stmt_nosemi() + OG + ";" + OG + self.simple_stmt_nosemi()
        if r < 0.84:
            self.features.add("help")
            return self.ch(["x?", "x??", "os.path?", "ls?"])
        if r < 0.90:
            return self.simple_name() + OG + "=" + OG + self.string()
        if r < 0.95:
            return self.simple_name() + OG + "=" + OG + self.fstring()
        return "print(" + OG + self.fstring() + OG + "," + OG + self.string() + OG + ")"

    def simple_stmt_nosemi(self):
        return self.ch([self.simple_name() + OG + "=" + OG + self.expr(2), "print(" + OG + self.expr(2) + OG + ")", self.name() + OG + "+=" + OG + "1", "pass"])

    def header(self, d):
        r = self.rng.random()
        e = lambda: self.expr(1)  # noqa: E731
        if r < 0.25:
            return ["if" + RG + e() + OG + ":"], ["elif" + RG + e() + OG + ":", "else" + OG + ":"]
        if r < 0.40:
            return ["for" + RG + self.simple_name() + RG + "in" + RG + e() + OG + ":"], ["else" + OG + ":"]
        if r < 0.48:
            return ["while" + RG + e() + OG + ":"], []
        if r < 0.66:
            params = self.ch(["", "a", "a" + OG + "," + OG + "b", "a" + OG + "=" + OG + "1", "a" + OG + ":" + OG + "int" + OG + "=" + OG + "1" + OG + "," + OG + "*args" + OG + "," + OG + "**kw",
                              "self" + OG + "," + OG + "x" + OG + ":" + OG + "str", "a" + OG + "," + OG + "/" + OG + "," + OG + "b" + OG + "," + OG + "*" + OG + "," + OG + "c" + OG + "=" + OG + "None"])
            ret = (OG + "->" + OG + self.ch(["int", "None", "list[str]"])) if self.rng.random() < 0.4 else ""
            deco = []
            if self.rng.random() < 0.25:
                deco = ["@" + self.ch(["deco", "mod.deco", "deco(" + OG + "1" + OG + ")", "aliases.register(" + OG + "'n'" + OG + ")"])]
            pre = "async" + RG if self.rng.random() < 0.1 else ""
            return deco + [pre + "def" + RG + self.ch(["f", "g", "_h", "method"]) + OG + "(" + OG + params + OG + ")" + ret + OG + ":"], []
        if r < 0.74:
            return ["class" + RG + self.ch(["A", "Foo"]) + self.ch(["", "(" + OG + "Base" + OG + ")", "(" + OG + ")", "(" + OG + "B" + OG + "," + OG + "metaclass" + OG + "=" + OG + "M" + OG + ")"]) + OG + ":"], []
        if r < 0.84:
            return ["try" + OG + ":"], ["except" + RG + "ValueError" + RG + "as" + RG + "err" + OG + ":", "except" + OG + ":", "finally" + OG + ":"]
        if r < 0.94:
            item = e() + (RG + "as" + RG + self.simple_name() if self.rng.random() < 0.6 else "")
            return ["with" + RG + item + OG + ":"], []
        self.features.add("block-macro")
        return ["with!" + RG + self.ch(["ctx", "Block()", "mgr"]) + OG + ":"], []

    def block(self, d, indent):
        """list of physical lines (without trailing newline chars, may contain embedded newlines for multi-line tokens)"""
        lines = []
        n = self.rng.randint(1, 3) if self.small else self.rng.randint(1, 4 if d else 7)
        for _ in range(n):
            lines += self.blank_run(d)
            if self.rng.random() < 0.14:
                lines.append(self.comment_line(indent))
            if d < (2 if self.small else 3) and self.rng.random() < (0.30 if d == 0 else 0.22):
                lines += self.compound(d, indent)
            else:
                self.last_kind = "py"
                s = self.simple_stmt()
                if self.rng.random() < 0.12 and self.last_kind != "macro":
                    self.features.add("inline-comment")
                    pads = ["  ", " ", "     ", "  ", " ", " \t "]
                    if self.rng.random() < 0.06:
                        self.features.add("comment-lead-not-blank")
                        pads = ["", "\t"] if self.last_kind == "py" else ["\t"]
                    s += self.ch(pads) + self.ch(COMMENTS)
                lines.append(indent + s)
        return lines

    def compound(self, d, indent):
        self.features.add("block")
        heads, follow = self.header(d)
        is_macro = heads[-1].startswith("with!")
        if is_macro:
            self.in_block_macro += 1
        lines = [indent + h for h in heads]
        if self.rng.random() < 0.08:
            # one-line body
            lines[-1] += OG + self.simple_stmt_nosemi()
        else:
            if self.rng.random() < 0.1:
                lines[-1] += self.ch(["  ", " "]) + self.ch(COMMENTS)
            if self.rng.random() < 0.12 and heads[-1].startswith(("def", "class", "async")):
                self.features.add("docstring")
                lines.append(indent + self.unit + self.ch(['"""Doc."""', '"""Doc\n' + indent + self.unit + 'more  \n' + indent + self.unit + '"""', "'''D\n\n  x\n'''", '"""T \n"""']))
            lines += self.block(d + 1, indent + self.unit)
        chosen = [f for f in follow if self.rng.random() < 0.35]
        if heads[-1].startswith("try") and not chosen:
            chosen = [self.ch(follow)]
        for f in chosen:
            lines.append(indent + f)
            lines += self.block(d + 1, indent + self.unit)
        if is_macro:
            self.in_block_macro -= 1
        return lines

    def comment_line(self, indent):
        self.features.add("comment-line")
        r = self.rng.random()
        if r < 0.7:
            pad = indent
        elif r < 0.85:
            pad = indent + self.ch([" ", "  ", self.unit])
        else:
            pad = indent[: max(0, len(indent) - 1)]
        return pad + self.ch(COMMENTS)

    def blank_run(self, d):
        k = self.ch([0, 0, 0, 0, 1, 1, 2, 3, 5])
        if k:
            self.features.add(f"blank-run-{min(k, 3)}")
        out = []
        for _ in range(k):
            out.append(self.ch(["", "", "  ", "\t", "    "]) if self.blank_ws else "")
        return out

    # ------------------------------------------------------------------ rendering
    def render(self, text):
        rng, style = self.rng, self.style
        out = []
        i, n = 0, len(text)
        line_has_code = False
        while i < n:
            c = text[i]
            if c not in (OG, RG):
                out.append(c)
                i += 1
                continue
            # collapse consecutive markers: required wins
            req = False
            while i < n and text[i] in (OG, RG):
                req = req or text[i] == RG
                i += 1
            prev = out[-1] if out else "\n"
            nxt = text[i] if i < n else "\n"
            if prev in " \t\n" or nxt in " \t\n":
                if req and not (prev in " \t" or nxt in " \t"):
                    out.append(" ")
                continue
            must = req or self.would_merge(prev, nxt)
            if style == "tight":
                gap = " " if must else ""
            elif style == "one":
                gap = " "
            elif style == "loose":
                gap = rng.choice([" ", "  ", "   ", "\t", " \t "])
            else:
                gap = rng.choice(["", "", " ", " ", "  ", "\t", "    "])
                if must and not gap:
                    gap = " "
            if self.cont_rate and rng.random() < self.cont_rate and self.cont_ok(out):
                self.features.add("continuation")
                gap = rng.choice([" ", "", "  "]) + "\\\n" + rng.choice(["", " ", "    ", "\t", "        ", "  "])
                if must and gap.endswith("\n") and False:
                    gap += " "
            out.append(gap)
        return "".join(out)

    @staticmethod
    def would_merge(a, b):
        if a in WORD or ord(a) > 127:
            if b in WORD or ord(b) > 127 or b in "'\"`.":
                return True
        if a in OPCH and b in OPCH:
            return True
        if a == "." and b in "0123456789":
            return True
        if a in "'\"" and b == a:
            return True
        if a in "$@!" and (b in WORD or b in "([{`"):
            return True
        if b == "#":
            return True
        if a in WORD and b in ">":
            return True
        if a == ")" and b == "(":
            return False
        return False

    def cont_ok(self, out):
        # no continuation inside a comment or right after a line start
        j = len(out) - 1
        line = []
        while j >= 0 and out[j] != "\n" and not out[j].endswith("\n"):
            line.append(out[j])
            j -= 1
        s = "".join(reversed(line))
        return bool(s.strip()) and "#" not in s and "!" not in s

    def program(self):
        lines = self.block(0, "")
        r = self.rng.random()
        head = []
        if r < 0.08:
            head = ["#!/usr/bin/env xonsh"]
        elif r < 0.12:
            head = ["# -*- coding: utf-8 -*-"]
        elif r < 0.2:
            head = [""] * self.rng.randint(1, 3)
        text = "\n".join(head + lines)
        text = self.render(text)
        r = self.rng.random()
        if r < 0.70:
            text += "\n"
        elif r < 0.80:
            pass
        elif r < 0.90:
            text += "\n" * self.rng.randint(2, 4)
        elif r < 0.95:
            text += "  \n \t\n"
        else:
            self.features.add("eof-continuation")
            text += " \\\n\n"
        if self.rng.random() < 0.04:
            self.features.add("crlf")
            text = text.replace("\n", "\r\n")
        if self.rng.random() < 0.03:
            self.features.add("formfeed")
            text = text.replace("\n\n", "\n\f\n", 1)
        return text


def damage(rng, src):
    """a malformed variant of a program"""
    r = rng.random()
    if not src:
        return '"""'
    if r < 0.2:
        return src + rng.choice(['"""', "'''", 'f"""', "x = (1,\n", "y = [\n", "z = {", 'f"{', "s = f'''a{x}\n"])
    if r < 0.35:
        # break the indentation structure
        lines = src.split("\n")
        idx = [i for i, l in enumerate(lines) if l.startswith((" ", "\t")) and l.strip()]
        if idx:
            i = rng.choice(idx)
            lines[i] = rng.choice([" ", "   ", "  \t"]) + lines[i].lstrip()
            return "\n".join(lines)
        return src + "\n      x = 1\n  y = 2\n"
    if r < 0.5:
        # drop a closing bracket / quote
        pos = [i for i, c in enumerate(src) if c in ")]}\"'"]
        if pos:
            i = rng.choice(pos)
            return src[:i] + src[i + 1 :]
        return src + "("
    if r < 0.6:
        return src.rstrip("\n") + " \\"
    if r < 0.7:
        return src.rstrip("\n") + " \\\n"
    if r < 0.8:
        i = rng.randrange(len(src))
        while i and src[i - 1] == "\\":
            i -= 1
        # (a stray backslash or carriage return in the middle of a line is left out: the text stays "accepted", is no program,
        #  and the formatter is not idempotent on it in ways that were observed but not keyed — see the report)
        return src[:i] + rng.choice(["$", "?", "!", "`", "\x00", "}", "{", "'", '"', "\t", "\f", "\v"]) + src[i:]
    if r < 0.9:
        return src + rng.choice(['f"}"', "f'{x'", 'f"{x:{"', "f'''{\n", 'x = f"a}b"'])
    i = rng.randrange(len(src))
    j = min(len(src), i + rng.randint(1, 12))
    return src[:i] + src[j:]
