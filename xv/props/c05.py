"""C05 — Chains, exit codes and fail-fast follow the documented truth table."""

from __future__ import annotations

import json
import os
import subprocess
import sys
import threading

from .. import common
from ..codec import Sym

ID = "C05"
LEVEL = "proof"
PROPS_MODULES = ["XonshVerif.Props.C05"]
TECHNIQUE = (
    "Lean 4 proof (refinement: the implementation's evaluation of a chain — Python and/or over helper return values, in_boolop "
    "marks, three raise sites, lastcmd fallback, outermost wrapping — equals the documented truth table, by structural induction "
    "on the chain) + differential correspondence of generated programs through the real Execer with recording aliases and real child processes"
)
LEVEL_TEXT = (
    "proof (partial): Spec = the documented truth table (short-circuit over exit codes, raise at the command for @error_raise / "
    "$XONSH_SUBPROC_CMD_RAISE_ERROR, raise after the statement iff the last command that ran failed and is neither !() nor "
    "@error_ignore, nothing after a raise). Impl = a faithful model of what the code does (values returned by the subprocess "
    "helpers, Python and/or, the parser's in_boolop marks, CommandPipeline._raise_subproc_error, _check_subproc_helper_raise, "
    "subproc_check_boolop incl. the XSH.lastcmd fallback, outermost-BoolOp and statement-level wrapping). C05_refines_partial: for "
    "EVERY program (any nesting and length, any exit codes, decorators, pipelines, injected @$() commands, both flags) whose chain "
    "operands are bare / ![] / !() commands, Impl = Spec (executed log and escaping error). The full statement is false for $[] and "
    "$() operands (their Python value, None / the output string, decides the chain instead of the exit code: C05_cex_uncaptured, "
    "C05_cex_stdout; known finding). C05_cex_subchain_drop describes the pinned snapshot's sub-chain drop for a Python-looking operand directly before a `)` (repaired in e204b18; its witness is replayed and must pass). C05_no_stmt_after_raise; C05_old_rule_cex_cmd_raise documents the repaired order of tests. Tie: generated programs run through the real "
    "Execer (callable aliases and real sh children), compared with Impl (correspondence) and Spec (property); process exit status "
    "of `xonsh -c` / script runs is sampled."
)
LEVEL_NOTE = (
    "Trusted: Lean kernel + standard axioms; the harness's rendering of a chain as source text; the exit-status clause (xonsh -c / "
    "script exit codes) is tied by sampled process runs, not proved. A !() is lazy (spec.background): the model ends it where its "
    "truth value is asked for (a following and/or) and never inside the statement when it is the last operand or a standalone "
    "statement (C05_cex_lazy_object, known finding; the refinement theorem assumes such a last operand is quiet). The harness "
    "generates an undemanded !() only at the very end of a program, because its command runs concurrently with whatever follows."
)

IDS = "abcdefghijklmnopqrstuvwxyz"


# --------------------------------------------------------------------------------------- generation
class Gen:
    def __init__(self, rng, allow_findings=True):
        self.rng = rng
        self.k = 0
        self.allow_findings = allow_findings

    def fresh(self):
        self.k += 1
        return self.k

    def cmd(self, in_chain, rightmost, fl, last_stmt):
        r = self.rng
        rc = r.choice([0, 0, 0, 0, 1, 1, 2, 3, 109, 115])  # >= 100: killed by signal rc-100 (returncode -9 / -15)
        form = r.choice(["hidden", "hidden", "hidden", "object", "stdout", "uncaptured"])
        if not self.allow_findings and in_chain and form in ("stdout", "uncaptured"):
            form = "hidden"
        dec = r.choice(["none", "none", "none", "none", "raise", "ignore"])
        if form == "object":
            # a !() is lazy (spec.background): it ends when somebody asks for its truth value — a following and/or does, the
            # after-statement check does not.  Undemanded, it runs concurrently with whatever follows: keep it to the very last
            # position of the program and without anything that would raise at its (unobservable) end
            demanded = in_chain and not rightmost
            if not demanded and not last_stmt:
                form = "hidden"
        prints = form in ("stdout", "object") and r.random() < 0.5
        py = form == "hidden" and dec == "none" and rc < 100 and r.random() < 0.25
        early, inject = [], []
        if not py and r.random() < 0.2:
            early = [self.fresh() for _ in range(r.randint(1, 2))]
        if not py and r.random() < 0.15:
            inject = [[self.fresh(), r.choice([0, 0, 1, 2]), Sym(r.choice(["none", "none", "raise", "ignore"]))]]
        return [Sym("cmd"), self.fresh(), rc, Sym(form), Sym(dec), prints, py, early, inject]

    def chain(self, depth, fl, rightmost=True, top=True, last_stmt=False):
        r = self.rng
        if depth == 0 or (top and r.random() < 0.25) or (not top and r.random() < 0.3):
            return self.cmd(not top, rightmost, fl, last_stmt)
        op = Sym(r.choice(["and", "or"]))
        a = self.chain(depth - 1, fl, False, False, last_stmt)
        b = self.chain(depth - 1, fl, rightmost, False, last_stmt)
        return [op, a, b]

    def program(self, fl):
        n = self.rng.choice([1, 1, 2, 3])
        return [self.chain(self.rng.choice([1, 2, 2, 3]), fl, last_stmt=(i == n - 1)) for i in range(n)]


def leaves(ch):
    if str(ch[0]) == "cmd":
        yield ch
    else:
        yield from leaves(ch[1])
        yield from leaves(ch[2])


def name(i):
    return IDS[i % 26] + (str(i // 26) if i >= 26 else "")


def render_cmd(c, rng, real, explicit=False):
    _, i, rc, form, dec, prints, py, early, inject = c
    form, dec = str(form), str(dec)
    if py:
        return f"f{rc} -{name(i)}"
    d = {"none": "", "raise": "@error_raise ", "ignore": "@error_ignore "}[dec]
    if real:
        wait = "cat > /dev/null; " if early else ""  # a stage logs only after the previous one has finished
        if rc >= 100:
            body = d + f"xvkill {name(i)} {'p' if prints else 'n'} {'w' if early else 'n'} {rc - 100}"
        else:
            body = d + f'sh -c "{wait}echo {name(i)} >> $XV_LOG; {"echo x; " if prints else ""}exit {rc}"'
        pre = "".join(
            f'sh -c "{"cat > /dev/null; " if k else ""}echo {name(e)} >> $XV_LOG; exit {rng.choice([0, 1])}" | ' for k, e in enumerate(early)
        )
    else:
        body = d + f"t {name(i)} {rc if rc < 100 else -(rc - 100)} {'p' if prints else 'n'}"
        pre = "".join(f"{rng.choice(['', '', '@error_raise ', '@error_ignore '])}t {name(e)} {rng.choice([0, 1, 2])} p | " for e in early)
    for j, jrc, jdec in inject:
        jd = {"none": "", "raise": "@error_raise ", "ignore": "@error_ignore "}[str(jdec)]
        # injected two ways: `@$(cmd)` (subproc_captured_inject) or `@($(cmd))` (subproc_captured_stdout inside a Python
        # expression) — both helpers must raise by themselves when the inner command failed
        op, cl = ("@$(", ")") if rng.random() < 0.5 else ("@($(", "))")
        if real:
            body += f' {op}{jd}sh -c "echo {name(j)} >> $XV_LOG; echo x; exit {jrc}"{cl}'
        else:
            body += f" {op}{jd}t {name(j)} {jrc} p{cl}"
    text = pre + body
    if form == "hidden":
        return text if (rng.random() < 0.5 and not explicit) else f"![{text}]"
    return {"uncaptured": f"$[{text}]", "stdout": f"$({text})", "object": f"!({text})"}[form]


def render(ch, rng, real, top=True, explicit=False):
    if str(ch[0]) == "cmd":
        return render_cmd(ch, rng, real, explicit)
    op = {"and": rng.choice(["&&", "and"]), "or": rng.choice(["||", "or"])}[str(ch[0])]
    s = f"{render(ch[1], rng, real, False, explicit)} {op} {render(ch[2], rng, real, False, explicit)}"
    return s if top else f"({s})"


# --------------------------------------------------------------------------------------- the real thing
_SESSION = {}
LOG = []


def ensure_bindir():
    """a helper command that logs and then dies of a signal (returncode -N)"""
    bindir = str(common.scratch_root() / "c05bin")
    if not os.path.exists(os.path.join(bindir, "xvkill")):
        os.makedirs(bindir, exist_ok=True)
        with open(os.path.join(bindir, "xvkill"), "w") as kf:
            kf.write('#!/bin/sh\n[ "$3" = w ] && cat > /dev/null\necho "$1" >> "$XV_LOG"\n[ "$2" = p ] && echo x\nkill -$4 $$\n')
        os.chmod(os.path.join(bindir, "xvkill"), 0o755)
    return bindir


def session():
    if _SESSION:
        return _SESSION["execer"]
    common.setup_repo_imports()
    from xonsh.built_ins import XSH
    from xonsh.execer import Execer

    execer = Execer()
    XSH.load(execer=execer, inherit_env=False)
    env = XSH.env
    env["XONSH_SHOW_TRACEBACK"] = False
    env["XONSH_CAPTURE_ALWAYS"] = False
    env["PATH"] = [ensure_bindir(), "/usr/bin", "/bin"]
    env["XONSH_INTERACTIVE"] = False

    def t(args, stdin=None, stdout=None, stderr=None):
        if stdin is not None:
            try:
                stdin.read()
            except Exception:
                pass
        LOG.append(args[0])
        if len(args) > 2 and args[2] == "p":
            print("x", file=stdout)
        return int(args[1])

    XSH.aliases["t"] = t

    def mk(rc):
        def f(args, stdin=None, stdout=None, stderr=None):
            LOG.append(args[0].lstrip("-"))
            logf = XSH.env.get("XV_LOG")
            if logf:
                with open(logf, "a") as lf:
                    lf.write(args[0].lstrip("-") + "\n")
            return rc

        return f

    for rc in range(4):
        XSH.aliases[f"f{rc}"] = mk(rc)
    # a parenthesised group that the recovery loop wraps as a whole is run as a SUBSHELL (`python -m xonsh -c GROUP`,
    # parsers/base.py p_subproc_atoms_subshell): the child xonsh must be importable, and the in-process recorder cannot see
    # what runs inside it — note when it happens
    env["PYTHONPATH"] = str(common.REPO)
    import xonsh.procs.specs as xps

    orig_run = xps.run_subproc

    def run_subproc(cmds, *a, **kw):
        for c in cmds:
            if isinstance(c, (list, tuple)) and list(c[:3]) == [sys.executable, "-m", "xonsh"]:
                _SESSION["subshell"] = True
        return orig_run(cmds, *a, **kw)

    xps.run_subproc = run_subproc
    _SESSION["execer"] = execer
    _SESSION["XSH"] = XSH
    return execer


def run_impl(src, fl, real=False):
    """-> (log of command names, None | [rc, name] | ['other', text])"""
    execer = session()
    XSH = _SESSION["XSH"]
    if os.environ.get("XV_C05_TRACE"):
        with open(os.environ["XV_C05_TRACE"], "a") as tf:
            tf.write(repr((src, fl, real)) + "\n")
    LOG.clear()
    XSH.lastcmd = None
    _SESSION["subshell"] = False
    logf = None
    if os.environ.get("XV_C05_TRACE"):
        import faulthandler

        faulthandler.dump_traceback_later(40, exit=True, file=open(os.environ["XV_C05_TRACE"] + ".hang", "w"))
    swap = {"XONSH_SUBPROC_RAISE_ERROR": fl[0], "XONSH_SUBPROC_CMD_RAISE_ERROR": fl[1]}
    if real:
        logf = str(common.scratch_root() / "c05.log")
        open(logf, "w").close()
        swap["XV_LOG"] = logf
    out = None
    devnull = open(os.devnull, "w")
    old_out = sys.stdout
    old_err = sys.stderr
    try:
        with XSH.env.swap(**swap):
            sys.stdout = devnull
            sys.stderr = devnull  # (xonsh reports "Killed" / "Terminated" for signal deaths there)
            try:
                execer.exec(src + "\n", glbs={"__name__": "xv"}, locs=None, filename="<c05>")
            except subprocess.CalledProcessError as e:
                cmd = [a for a in e.cmd if not a.startswith("@error")]
                if real and cmd and cmd[0] == "sh":
                    who = cmd[2].split()[cmd[2].split().index("echo") + 1] if len(cmd) > 2 else "?"
                elif real and cmd and cmd[0] == "xvkill":
                    who = cmd[1] if len(cmd) > 1 else "?"
                else:
                    who = cmd[1].lstrip("-") if len(cmd) > 1 else "?"
                out = [e.returncode if e.returncode >= 0 else 100 - e.returncode, who]
            except SyntaxError as e:
                out = ["syntax", str(e)[:100]]
            except BaseException as e:  # noqa: BLE001
                out = ["other", f"{type(e).__name__}: {e}"[:160]]
            finally:
                sys.stdout = old_out
                sys.stderr = old_err
            # a !() nobody asked about ends here, outside the statement
            lc = XSH.lastcmd
            if lc is not None:
                try:
                    lc.end()
                except BaseException:  # noqa: BLE001
                    pass
    finally:
        sys.stdout = old_out
        sys.stderr = old_err
        devnull.close()
    for th in threading.enumerate():
        if th is not threading.current_thread() and type(th).__name__ in ("ProcProxyThread", "PopenThread"):
            th.join(timeout=5)
    log = list(LOG)
    if real:
        log = open(logf).read().split()
    elif _SESSION.get("subshell"):
        out = ["subshell", ""]
    return log, out


def _impl_item(item):
    src, fl, real = item
    log, out = run_impl(src, tuple(fl), real)
    return [log, out]


def run_impl_batch(items):
    """[(src, fl, real)] -> [(log, raised) | 'hang' | 'error:…'], run in a forked child so that a wedged pipeline cannot wedge the check"""
    common.scratch_root()
    res = common.map_in_child(_impl_item, [list(i) for i in items], per_item_timeout=20, label="c05")
    out = []
    for r in res:
        if r == common.HANG:
            out.append("hang")
        elif isinstance(r, dict) and "__exc__" in r:
            out.append("error:" + r["__exc__"])
        else:
            out.append((r[0], r[1]))
    return out


def model(ctx, prog, fl, cf=None):
    cf = (os.environ.get("XV_C05_OLD") is None) if cf is None else cf
    m = ctx.driver.call("c05.run", cf, fl[0], fl[1], prog)

    def r(x):
        return None if isinstance(x, Sym) or x is None else [x[0], name(x[1])]

    return ([name(i) for i in m[0]], r(m[1])), ([name(i) for i in m[2]], r(m[3])), (bool(m[4]), ([name(i) for i in m[5]], r(m[6])))


def fmt(x):
    if isinstance(x, Sym):
        return str(x)
    if isinstance(x, (list, tuple)):
        return [fmt(y) for y in x]
    return x


def unfmt(x, depth=0):
    if isinstance(x, str):
        return Sym(x)
    if isinstance(x, list):
        return [unfmt(y) for y in x]
    return x


def has_valued_operand(prog):
    """a `$[]` / `$()` command used as an operand of and/or: its Python value, not its exit code, steers the chain"""
    return any(str(ch[0]) != "cmd" and any(str(c[3]) in ("stdout", "uncaptured") for c in leaves(ch)) for ch in prog)


K_VALUED = "captured-operand-value-steers-the-chain"
K_DROP = "python-looking-operand-before-rparen-drops-the-subchain"
K_LAZY = "lazy-object-never-ends-in-statement"


def lazy_last_would_raise(prog, fl):
    """the program's very last operand is a `!()` whose end would raise (@error_raise, or failing under CMD_RAISE)"""
    c = list(leaves(prog[-1]))[-1]
    rc, form, dec = c[2], str(c[3]), str(c[4])
    return form == "object" and rc != 0 and (dec == "raise" or (fl[1] and dec != "ignore"))


def judge(ctx, stream, prog, fl, src, real, obs, rerun=True):
    impl_m, spec_m, (collapsed, impl_c) = model(ctx, prog, fl)
    if rerun and not isinstance(obs, str) and (obs[0], obs[1]) != (impl_m[0], impl_m[1]) and not (obs[1] is not None and obs[1][0] in ("syntax", "subshell")):
        # anything the faithful model does not predict is first run again in a fresh worker: C05 is not about schedules, and a
        # one-off observation (helper threads of an earlier case, XSH.lastcmd being process-global) belongs to C06 / C09
        obs2 = run_impl_batch([(src, fl, real)])[0]
        if obs2 != obs:
            ctx.count("observation not reproduced on a re-run in a fresh worker (timing; C06/C09's subject)")
            ctx.extra.setdefault("not_reproduced", []).append({"source": src, "flags": list(fl), "first": obs if isinstance(obs, str) else [obs[0], obs[1]]})
            return judge(ctx, stream, prog, fl, src, real, obs2, rerun=False)
    case = {"stream": stream, "flags": {"XONSH_SUBPROC_RAISE_ERROR": fl[0], "XONSH_SUBPROC_CMD_RAISE_ERROR": fl[1]}, "source": src, "program": fmt(prog), "real_children": real}
    if obs == "hang":
        ctx.count("hang (the session wedged; judged by C09, not here)")
        ctx.extra.setdefault("hangs", []).append(case)
        return
    if isinstance(obs, str):
        raise common.InfraError(f"C05 worker failed on {src!r}: {obs}")
    obs_c = (obs[0], obs[1])
    if obs[1] is not None and obs[1][0] == "syntax":
        ctx.count("unparsable-shape (C03's business)")
        return
    if obs[1] is not None and obs[1][0] == "subshell":
        ctx.count("group ran as a subshell (xonsh -c): invisible to in-process aliases; judged in the real-children stream")
        return
    faithful = obs_c == (impl_m[0], impl_m[1])
    # the two faces of the known sub-chain defect: the sub-chain is replaced by its last operand, or that operand stays
    # Python (`f0 - e`) and fails with a NameError when it is reached
    stays_python = (
        obs[1] is not None and obs[1][0] == "other" and obs[1][1].startswith("NameError: name 'f") and obs[0] == impl_m[0][: len(obs[0])]
    )
    dropped = False
    if not faithful:
        variants = drop_variants(prog)
        dropped = bool(variants) and (stays_python or any(obs_c == tuple(model(ctx, v, fl)[0]) for v in variants))
    if not faithful and not dropped:
        ctx.disagree(stream, case, {"log": obs[0], "raised": obs[1]}, {"log": impl_m[0], "raised": impl_m[1]})
    if obs_c != (spec_m[0], spec_m[1]):
        key = None
        if dropped:
            key = K_DROP
        elif faithful and lazy_last_would_raise(prog, fl):
            key = K_LAZY
        elif faithful and has_valued_operand(prog):
            key = K_VALUED
        ctx.count("spec-divergence/" + (key or "NEW"))
        ctx.spec_failure(
            case,
            {"executed": obs[0], "raised": obs[1], "truth_table_says": {"executed": spec_m[0], "raised": spec_m[1]}},
            "the commands that ran / the error that escaped differ from the documented truth table",
            key,
        )


def drop_variants(prog):
    """the known sub-chain defect replaces an enclosing (sub-)chain of a Python-looking leaf that sits directly before a `)` by
    that leaf alone; WHICH enclosing level is decided by subproc_toks' column arithmetic (C03's subject), so every level is a
    candidate explanation: return the program with each ancestor of such a leaf replaced by the leaf"""
    import copy

    out = []

    def paths(ch, path, top):
        # yields (path to ancestor chain nodes..., leaf) for a py-like leaf that is the last operand of a nested chain
        if str(ch[0]) == "cmd":
            return
        yield from paths(ch[1], path + [1], False)
        b = ch[2]
        if str(b[0]) == "cmd":
            if b[6] and not top:
                yield path, b
        else:
            yield from paths(b, path + [2], False)

    for si, ch in enumerate(prog):
        for path, leaf in paths(ch, [], True):
            for k in range(len(path) + 1):
                v = copy.deepcopy(prog)
                if k == 0:
                    v[si] = copy.deepcopy(leaf)
                else:
                    node = v[si]
                    for step in path[: k - 1]:
                        node = node[step]
                    node[path[k - 1]] = copy.deepcopy(leaf)
                out.append(v)
    return out


def limit_py_last(prog):
    """at most ONE Python-looking leaf sits directly before a `)` per program (the known sub-chain drop is all-or-nothing in the classifier)"""
    seen = [False]

    def walk(ch, top):
        if str(ch[0]) == "cmd":
            return
        walk(ch[1], False)
        b = ch[2]
        if str(b[0]) == "cmd":
            if b[6] and not top:
                if seen[0]:
                    b[6] = False
                seen[0] = True
        else:
            walk(b, False)

    for ch in prog:
        walk(ch, True)


def stream_programs(ctx, n, name_="programs", real=False, allow_findings=True):
    ctx.stream_rule(
        name_,
        "random programs of 1-3 statements, each a chain of nesting depth <= 3 over and/or/&&/|| (sub-chains parenthesised) whose "
        "leaves are pipelines of callable aliases"
        + (" replaced by real `sh -c 'exit N'` children logging to a file" if real else "")
        + ": random exit codes, capture form (bare, ![], $[], $(), !()), @error_raise/@error_ignore on the last and on earlier "
        "stages, operand texts that are also valid Python (`f1 -a`), injected @$() commands, all four settings of the two flags; the "
        "executed log and the escaping CalledProcessError (returncode, command) of the real Execer are compared with the Lean Impl "
        "model (correspondence) and the Lean Spec (property); non-trivial = at least one command fails",
    )
    CH = 100
    for base in range(0, n, CH):
        if ctx.enough_failures():
            break
        batch = []
        for k in range(base, min(n, base + CH)):
            fl = (ctx.rng.random() < 0.7, ctx.rng.random() < 0.35)
            g = Gen(ctx.rng, allow_findings)
            prog = g.program(fl)
            limit_py_last(prog)
            src = "\n".join(render(ch, ctx.rng, real) for ch in prog)
            batch.append((prog, fl, src))
        results = run_impl_batch([(src, fl, real) for _, fl, src in batch])
        for k, ((prog, fl, src), obs) in enumerate(zip(batch, results)):
            nontriv = any(c[2] != 0 for ch in prog for c in leaves(ch))
            ctx.case(name_, src + repr(fl), nontriv, {"source": src, "flags": fl} if base + k < 40 else None)
            for ch in prog:
                for c in leaves(ch):
                    ctx.count(f"form/{c[3]}")
                    ctx.count(f"dec/{c[4]}")
                    if c[6]:
                        ctx.count("operand-text-is-python")
                ctx.count("stmt/chain" if str(ch[0]) != "cmd" else "stmt/single")
            ctx.count(f"flags/raise={fl[0]},cmd={fl[1]}")
            judge(ctx, name_, prog, fl, src, real, obs)


# --------------------------------------------------------------------------------------- exit status of real runs
def stream_exit_status(ctx, n, name_="exit-status"):
    ctx.stream_rule(
        name_,
        "real `python -m xonsh --no-rc -c SRC` and script-file runs of small programs built from sh children: the process exit "
        "status must be 0 iff the truth table says nothing raises, N for `exit N`, and the file log must equal the spec's executed log",
    )
    root = common.scratch_root()
    for k in range(n):
        fl = (ctx.rng.random() < 0.8, ctx.rng.random() < 0.2)
        g = Gen(ctx.rng, allow_findings=False)
        prog = [g.chain(ctx.rng.choice([1, 2]), fl) for _ in range(ctx.rng.choice([1, 2]))]
        # keep it to forms whose end is inside the statement
        for ch in prog:
            for c in leaves(ch):
                if str(c[3]) == "object":
                    c[3] = Sym("hidden")
                c[6] = False
                c[5] = False
        src = "\n".join(render(ch, ctx.rng, True, explicit=True) for ch in prog)
        want_exit = None
        if ctx.rng.random() < 0.3:
            want_exit = ctx.rng.choice([0, 1, 7, 42])
            src += f"\nexit {want_exit}"
        _, spec_m, _ = model(ctx, prog, fl)
        logf = str(root / f"c05-exit-{k}.log")
        open(logf, "w").close()
        env = {"PATH": ensure_bindir() + ":/usr/bin:/bin", "HOME": str(root), "XV_LOG": logf, "XONSH_SUBPROC_RAISE_ERROR": "1" if fl[0] else "0",
               "XONSH_SUBPROC_CMD_RAISE_ERROR": "1" if fl[1] else "0", "PYTHONPATH": str(common.REPO), "XONSH_DATA_DIR": str(root), "XONSH_CACHE_DIR": str(root),
               "XONSH_HISTORY_BACKEND": "dummy", "TERM": "dumb"}
        as_script = ctx.rng.random() < 0.5
        if as_script:
            sf = str(root / f"c05-exit-{k}.xsh")
            open(sf, "w").write(src + "\n")
            argv = [sys.executable, "-m", "xonsh", "--no-rc", sf]
        else:
            argv = [sys.executable, "-m", "xonsh", "--no-rc", "-c", src]
        p = subprocess.run(argv, env=env, cwd=str(root), capture_output=True, text=True, timeout=120, stdin=subprocess.DEVNULL)
        log = open(logf).read().split()
        ctx.case(name_, src, True, {"source": src, "script": as_script})
        ctx.count("exit-status/script" if as_script else "exit-status/-c")
        raised = spec_m[1] is not None
        case = {"stream": name_, "source": src, "script": as_script, "flags": fl}
        if raised:
            ok = p.returncode != 0 and log == spec_m[0]
        elif want_exit is not None:
            ok = p.returncode == want_exit and log == spec_m[0]
        else:
            # without a raise the status is the last command's (as in any shell): demand 0 only when that command succeeded
            last_rc = {name(c[1]): c[2] for ch in prog for c in leaves(ch)}.get(log[-1] if log else "", 0)
            ok = log == spec_m[0] and (p.returncode == 0 if last_rc == 0 else True)
        if not ok:
            ctx.spec_failure(case, {"exit_status": p.returncode, "executed": log, "stderr_tail": p.stderr[-300:],
                                    "truth_table": {"executed": spec_m[0], "raised": spec_m[1], "exit": want_exit}},
                             "process exit status / executed commands of a -c or script run differ from the truth table", None)


# --------------------------------------------------------------------------------------- known findings
def replay_known(ctx):
    for f in ctx.known:
        w = f["witness"]
        prog = unfmt(w["program"])
        fl = (w["flags"]["XONSH_SUBPROC_RAISE_ERROR"], w["flags"]["XONSH_SUBPROC_CMD_RAISE_ERROR"])
        obs = run_impl_batch([(w["source"], fl, False)])[0]
        _, spec_m, _ = model(ctx, prog, fl)
        if isinstance(obs, str):
            raise common.InfraError(f"C05 known-finding witness did not run: {obs}")
        fails = (obs[0], obs[1]) != (spec_m[0], spec_m[1])
        ctx.replayed(f["key"], fails, {"executed": obs[0], "raised": obs[1], "truth_table": {"executed": spec_m[0], "raised": spec_m[1]}})
        if fails:
            ctx.spec_failure({"stream": "known-witness", **w}, {"executed": obs[0], "raised": obs[1]}, f["what"], f["key"])


def run(ctx):
    ctx.assumptions += [
        "commands are callable aliases `t <id> <rc> <p|n>` (log, optional output, exit code) or real `sh -c` children; a pipeline's stages are ordered by making each stage read its stdin to EOF before logging",
        "an undemanded !() (last operand / standalone) is generated only at the very end of the program: its command runs concurrently with whatever follows",
    ]
    ctx.explanation = (
        "Spec and Impl in lean/XonshVerif/Model/Chain.lean; refinement and counterexamples in Props/C05.lean; tie = generated programs "
        "through the real Execer vs Impl (correspondence) and Spec (property)."
    )
    replay_known(ctx)
    stream_programs(ctx, ctx.n(700, 12000))
    stream_programs(ctx, ctx.n(300, 4000), name_="programs-without-valued-operands", allow_findings=False)
    stream_programs(ctx, ctx.n(40, 600), name_="real-children", real=True)
    stream_exit_status(ctx, ctx.n(8, 120))


def search(ctx, reason):
    ctx.extra["search_reason"] = reason
    stream_programs(ctx, ctx.n(3000, 12000), name_="search:programs")


def replay(ctx, path):
    r = json.loads(open(path).read())
    c = r["case"]
    fl = (c["flags"]["XONSH_SUBPROC_RAISE_ERROR"], c["flags"]["XONSH_SUBPROC_CMD_RAISE_ERROR"]) if isinstance(c["flags"], dict) else tuple(c["flags"])
    if "program" not in c:
        print("re-run ./check C05 with the same seed for this stream")
        return common.EXIT_INFRA
    prog = unfmt(c["program"])
    obs = run_impl_batch([(c["source"], fl, c.get("real_children", False))])[0]
    _, spec_m, _ = model(ctx, prog, fl)
    print("source:", c["source"])
    if isinstance(obs, str):
        print("the program did not finish:", obs)
        return common.EXIT_INFRA
    print("executed:", obs[0], "raised:", obs[1])
    print("truth table: executed:", spec_m[0], "raised:", spec_m[1])
    if obs[1] is not None and obs[1][0] in ("syntax", "subshell"):
        print("not judged by this check (shape rejected by the parser / group run as a subshell)")
        return common.EXIT_OK
    bad = (obs[0], obs[1]) != (spec_m[0], spec_m[1])
    print(f"VIOLATION property={ID} replay={path}" if bad else "property holds on this program")
    return common.EXIT_VIOLATION if bad else common.EXIT_OK
