"""C15 — Alias expansion always terminates and preserves the user's arguments."""

from __future__ import annotations

import contextlib
import io
import signal

from .. import common
from ..codec import Sym

ID = "C15"
LEVEL = "proof"
PROPS_MODULES = ["XonshVerif.Props.C15"]
TECHNIQUE = "Lean 4 proof (well-founded recursion = termination; functional induction for argument preservation, decorator order, permutation invariance) + differential correspondence with xonsh/aliases.py"
LEVEL_TEXT = (
    "proof: hand-written executable Lean model of Aliases.eval_alias / Aliases.get and the spec-level resolve_decorators + "
    "resolve_alias. Termination for EVERY alias table (cycles included) is the acceptance of `evalAlias` by Lean's "
    "well-founded recursion (no fuel), restated as a bound (C15_bound); theorems for all tables and command lines: each alias "
    "at most once per chain, user arguments appended verbatim and in order after the aliases' own (C15_args_appended), "
    "decorators collected in order, result independent of definition order (C15_perm_invariant), self-reference works. "
    "Tied to the code by running the real Aliases object and the model on the same generated alias graphs."
)
LEVEL_NOTE = (
    "Trusted: Lean kernel + standard axioms; the correspondence harness. XSH.expand_path is the identity on the generated tokens "
    "(its own behaviour belongs to C04); return-command aliases are an oracle (scripted in the harness, arbitrary in the theorems); "
    "string-alias classification (list vs ExecAlias) is exercised by defining word-only string aliases through __setitem__."
)


# tokens 30..39 are written `$XV_T<i>`: XSH.expand_path turns them into `t<i>` (the env var holds that text)
EXP = [[30 + i, i] for i in range(10)]


def tok(k):
    return f"$XV_T{k - 30}" if 30 <= k < 40 else f"t{k}"


def untok(s):
    return 30 + int(s[5:]) if s.startswith("$XV_T") else int(s[1:])


def gen_table(rng):
    """random alias graph: chains, self-loops, cycles, diamonds, decorators, callables, return-command aliases"""
    nkeys = rng.randint(1, 7)
    keys = rng.sample(range(1, 10), nkeys)
    tbl, rets = [], []
    for k in keys:
        r = rng.random()
        if r < 0.62:
            n = rng.choice([0, 1, 1, 2, 2, 3, 4]) if rng.random() < 0.9 else 0
            pool = keys + keys + [k] + list(range(10, 16))
            ws = [rng.choice(pool) for _ in range(n)]
            if ws and rng.random() < 0.75:
                ws[0] = rng.choice(keys)  # the leftmost word drives the expansion: make chains/cycles likely
            # some words are spelled `$XV_Ti`, which expand_path rewrites to the alias name `ti`
            ws = [30 + w if (w < 10 and rng.random() < 0.2) else w for w in ws]
            tbl.append([k, [Sym("words"), ws]])
        elif r < 0.74:
            tbl.append([k, [Sym("callable"), k]])
        elif r < 0.88:
            tbl.append([k, [Sym("decorator"), k]])
        else:
            kind = rng.choice(["pre", "pre", "fixed", "rev", "raise"])
            ws = [rng.choice(keys + list(range(10, 16))) for _ in range(rng.choice([0, 1, 2, 3]))]
            tbl.append([k, [Sym("retcmd"), k]])
            rets.append([k, Sym(kind)] + ([] if kind == "raise" else [ws]))
    return tbl, rets


def _make_retcmd(spec):
    # (alias functions are called by parameter NAME: only `args` may appear in the signature)
    def rc(args):
        kind2 = str(spec[1])
        if kind2 == "raise":
            raise RuntimeError("scripted failure")
        ws2 = [tok(w) for w in spec[2]]
        if kind2 == "pre":
            return ws2 + list(args)
        if kind2 == "fixed":
            return ws2
        return ws2 + list(reversed(args))

    rc.return_what = "command"
    return rc


class Impl:
    def __init__(self):
        common.setup_repo_imports()
        from xonsh.built_ins import XSH
        from xonsh.environ import Env
        from xonsh.execer import Execer

        self.XSH = XSH
        from xonsh.commands_cache import CommandsCache

        XSH.env = Env(XONSH_SHOW_TRACEBACK=False, PATH=[], EXPAND_ENV_VARS=True, **{f"XV_T{i}": f"t{i}" for i in range(10)})
        if XSH.execer is None:
            XSH.execer = Execer()
        self.cc = XSH.commands_cache = CommandsCache(XSH.env)

    def build(self, tbl, rets, order=None, as_strings=frozenset()):
        import xonsh.aliases as A
        from xonsh.procs.specs import SpecAttrDecoratorAlias

        rmap = {r[0]: r for r in rets}
        al = A.Aliases()
        self.objs = {}
        entries = list(tbl) if order is None else [tbl[i] for i in order]
        for k, v in entries:
            kind = str(v[0])
            if kind == "words":
                ws = [tok(w) for w in v[1]]
                if k in as_strings and ws:
                    al[tok(k)] = " ".join(ws)  # string alias: classified + split by Aliases.__setitem__
                else:
                    al[tok(k)] = ws
            elif kind == "callable":

                def fn(args, stdin=None):
                    return None

                al[tok(k)] = fn
                self.objs[id(al._raw[tok(k)])] = ("callable", k)
            elif kind == "decorator":
                d = SpecAttrDecoratorAlias({f"xv_attr_{k}": True}, f"deco {k}", name=f"d{k}")
                al[tok(k)] = d
                self.objs[id(d)] = ("decorator", k)
            elif kind == "retcmd":
                rc = _make_retcmd(rmap[k])
                al[tok(k)] = rc
                self.objs[id(al._raw[tok(k)])] = ("retcmd", k)
        self.cc.aliases = al
        return al

    def enc_res(self, res, decorators):
        decs = [self.objs[id(d)][1] for d in decorators]
        if res is None:
            return None, decs
        res = list(res)
        if callable(res[0]):
            kind, k = self.objs[id(res[0])]
            return [Sym("call"), [Sym(kind), k], [untok(a) for a in res[1:]]], decs
        return [Sym("cmd"), [untok(a) for a in res]], decs

    def get(self, al, key, args):
        decorators = []
        err = io.StringIO()
        try:
            with contextlib.redirect_stderr(err), contextlib.redirect_stdout(err):
                res = al.get([tok(key)] + [tok(a) for a in args], None, decorators=decorators)
        except ValueError:
            return Sym("valueError"), [self.objs[id(d)][1] for d in decorators]
        r, decs = self.enc_res(res, decorators)
        if r is None:
            r = Sym("raisedInAlias") if "Exception inside alias" in err.getvalue() else Sym("notAlias")
        return r, decs

    def eval_value(self, al, key, args):
        """the documented direct entry: aliases.eval_alias(words) with every other parameter left at its default (what a
        return_command wrapper calls)"""
        decorators = []
        err = io.StringIO()
        try:
            with contextlib.redirect_stderr(err), contextlib.redirect_stdout(err):
                res = al.eval_alias([tok(key)] + [tok(a) for a in args], decorators=decorators)
        except ValueError:
            return Sym("valueError"), []
        r, decs = self.enc_res(res, decorators)
        return r, decs

    def resolve(self, al, cmd):
        from xonsh.procs.specs import SubprocSpec

        spec = SubprocSpec([tok(c) for c in cmd])
        err = io.StringIO()
        try:
            with contextlib.redirect_stderr(err), contextlib.redirect_stdout(err):
                spec.resolve_decorators()
                spec.resolve_args_list()
                spec.resolve_redirects()
                spec.resolve_alias()
        except (ValueError, IndexError):
            return [[untok(c) for c in spec.cmd if isinstance(c, str)], Sym("valueError"), [self.objs[id(d)][1] for d in spec.decorators or []]]
        decs = [self.objs[id(d)][1] for d in (spec.decorators or [])]
        a = spec.alias
        if a is None:
            r = Sym("raisedInAlias") if "Exception inside alias" in err.getvalue() else Sym("notAlias")
        elif callable(a):
            kind, k = self.objs[id(a)]
            r = [Sym("call"), [Sym(kind), k], [untok(x) for x in spec.cmd[1:]]]
        else:
            r = [Sym("cmd"), [untok(x) for x in a]]
        return [[untok(c) for c in spec.cmd], r, decs]


class Timeout(Exception):
    pass


@contextlib.contextmanager
def time_limit(sec):
    def h(*_):
        raise Timeout()

    old = signal.signal(signal.SIGVTALRM, h)
    signal.setitimer(signal.ITIMER_VIRTUAL, sec)
    try:
        yield
    finally:
        signal.setitimer(signal.ITIMER_VIRTUAL, 0)
        signal.signal(signal.SIGVTALRM, old)


def fmt_tbl(tbl, rets):
    return {
        "aliases": {tok(k): (str(v[0]), [tok(w) for w in v[1]] if str(v[0]) == "words" else v[1]) for k, v in tbl},
        "return_command": [[r[0], str(r[1])] + [[tok(w) for w in x] for x in r[2:]] for r in rets],
    }


def has_ret(tbl):
    return any(str(v[0]) == "retcmd" for _, v in tbl)


def check_case(ctx, impl, tbl, rets, key, args, name, as_strings=frozenset()):
    """returns list of (kind, case, observed, why) problems"""
    problems = []
    case = {"stream": name, **fmt_tbl(tbl, rets), "command": [tok(key)] + [tok(a) for a in args], "string_aliases": sorted(tok(k) for k in as_strings)}
    raw = {"tbl": tbl, "rets": rets, "key": key, "args": args, "as_strings": sorted(as_strings)}
    al = impl.build(tbl, rets, as_strings=as_strings)
    try:
        with time_limit(10):
            r, decs = impl.get(al, key, args)
    except Timeout:
        return [("spec", case, {"raw": raw}, "alias resolution did not terminate within 10 s of CPU time")], None
    except RecursionError:
        return [("spec", case, {"raw": raw}, "alias resolution recursed without bound (RecursionError)")], None
    m_r, m_decs, m_seen = ctx.driver.call("c15.get", tbl, rets, EXP, key, args)
    if [r, decs] != [m_r, m_decs]:
        problems.append(("dis", case, {"impl": [r, decs], "model": [m_r, m_decs], "raw": raw}, None))
        # the model is proved to expand each alias once, append the user's arguments verbatim and collect decorators in
        # order (Props/C15.lean) and these rules determine the result: a departure from it breaks one of those clauses
        clause = "decorators are not collected in order" if (r == m_r and decs != m_decs) else "the resolved command differs from repeated leftmost expansion with the user's arguments appended"
        problems.append(("spec", case, {"impl": [r, decs], "documented": [m_r, m_decs], "raw": raw}, clause))
    # --- the property, checked on the implementation directly ---------------------------------
    if not has_ret(tbl) and not isinstance(r, Sym):
        r0, decs0 = impl.get(al, key, [])
        if not isinstance(r0, Sym):
            want = list(r0)
            want[-1] = list(want[-1]) + list(args)
            if want != list(r) or decs0 != decs:
                problems.append(
                    ("spec", case, {"with_args": [r, decs], "without_args": [r0, decs0], "raw": raw},
                     "user arguments are not appended verbatim, in order, after the alias's own")
                )
    # the direct entry eval_alias(words), called twice in a row on the same table: the same answer both times (nothing may be
    # carried from one resolution into the next)
    if not isinstance(r, Sym) and any(k == key for k, _ in tbl):
        try:
            with time_limit(10):
                e1 = impl.eval_value(al, key, args)
                e2 = impl.eval_value(al, key, args)
            if e1 != e2:
                problems.append(("spec", case, {"eval_alias_first": e1, "eval_alias_second": e2, "raw": raw},
                                 "eval_alias(words) called twice on the same table gives different answers: words leak from one resolution into the next"))
        except (Timeout, RecursionError):
            pass
    # definition order must not matter
    order = list(range(len(tbl)))
    ctx.rng.shuffle(order)
    al2 = impl.build(tbl, rets, order=order, as_strings=as_strings)
    r2, decs2 = impl.get(al2, key, args)
    if [r2, decs2] != [r, decs]:
        problems.append(("spec", case, {"order": order, "first": [r, decs], "permuted": [r2, decs2], "raw": raw},
                         "the resolution depends on the order in which the aliases were defined"))
    # spec level (resolve_decorators + resolve_alias)
    al = impl.build(tbl, rets, as_strings=as_strings)
    cmd = [key] + list(args)
    try:
        with time_limit(10):
            s = impl.resolve(al, cmd)
    except (Timeout, RecursionError):
        return problems + [("spec", case, {"raw": raw}, "SubprocSpec alias resolution did not terminate")], m_seen
    m_s = ctx.driver.call("c15.resolve", tbl, rets, EXP, cmd)
    if s[1] == "valueError" or m_s[1] == "valueError":
        # the exception propagates out of resolve_alias before the spec is updated: compare the outcome only
        s, m_s = [None, s[1], None], [None, m_s[1], None]
    if s[1:] != m_s[1:] or (not isinstance(s[1], Sym) and s[0] != m_s[0]):
        problems.append(("dis", case | {"level": "spec"}, {"impl": s, "model": m_s, "raw": raw}, None))
        clause = "SubprocSpec: decorators are not collected in order" if s[1] == m_s[1] else "SubprocSpec: resolved alias/command differs from the documented expansion"
        problems.append(("spec", case | {"level": "spec"}, {"impl": s, "documented": m_s, "raw": raw}, clause))
    return problems, m_seen


def stream(ctx, n, name="alias-graphs"):
    ctx.stream_rule(
        name,
        "random alias tables of 1-7 entries over 9 names: list aliases of 0-4 words referring to each other (chains, self-loops, "
        "2-5 cycles, diamonds), callables, decorator aliases, return-command aliases with scripted returns (prefix/fixed/reversed/raise), "
        "some word-only aliases defined as STRINGS through __setitem__; commands = a key or unknown name + 0-3 args; compared: "
        "Aliases.get result + decorators vs model, get(args) vs get([])+args, permuted definition order, SubprocSpec.resolve_decorators+"
        "resolve_alias vs model; CPU-time bound 10 s per call; non-trivial = chain of >= 2 expansions or a cycle/decorator/callable hit",
    )
    impl = Impl()
    for i in range(n):
        if ctx.enough_failures():
            break
        tbl, rets = gen_table(ctx.rng)
        keys = [k for k, _ in tbl]
        as_strings = frozenset(k for k, v in tbl if str(v[0]) == "words" and ctx.rng.random() < 0.25)
        for _ in range(3):
            wkeys = [k for k, v in tbl if str(v[0]) == "words" and v[1]] or keys
            key = ctx.rng.choice(wkeys + wkeys + keys + [16])
            args = [ctx.rng.choice(keys + [20, 21, 22, 31, 35]) for _ in range(ctx.rng.choice([0, 1, 2, 3]))]
            problems, seen = check_case(ctx, impl, tbl, rets, key, args, name, as_strings)
            depth = len(seen) if seen else 0
            ctx.case(name, repr((tbl, rets, key, args)), depth >= 3, {"table": fmt_tbl(tbl, rets), "command": [tok(key)] + [tok(a) for a in args]})
            ctx.count(f"chain-length/{min(depth, 6)}")
            for kind, case, obs, why in problems:
                if kind == "dis":
                    ctx.disagree(name, case, obs["impl"], obs["model"])
                    ctx.count("disagreement")
                else:
                    ctx.spec_failure(case, obs, why, None)


def run(ctx):
    ctx.assumptions += [
        "XSH.expand_path is the identity on the generated tokens",
        "return-command aliases behave as scripted by the harness (arbitrary oracle in the theorems)",
    ]
    ctx.explanation = (
        "Model Alias (lean/XonshVerif/Model/Alias.lean), theorems Props/C15.lean for all tables/oracles/command lines; "
        "tie = differential comparison of Aliases.get / SubprocSpec resolution with the model on generated alias graphs, "
        "plus the property's clauses (termination bound, args appended, order independence) checked on the implementation directly."
    )
    stream(ctx, ctx.n(1500, 20000))


def search(ctx, reason):
    ctx.extra["search_reason"] = reason
    stream(ctx, ctx.n(3000, 12000), name="search:alias-graphs")


def replay(ctx, path):
    import json

    r = json.loads(open(path).read())
    raw = r["observed"]["raw"]

    def sy(v):
        return [Sym(v[0])] + v[1:]

    tbl = [[k, sy(v)] for k, v in raw["tbl"]]
    rets = [[x[0], Sym(x[1])] + x[2:] for x in raw["rets"]]
    impl = Impl()
    problems, _ = check_case(ctx, impl, tbl, rets, raw["key"], raw["args"], "replay", frozenset(raw["as_strings"]))
    bad = [p for p in problems if p[0] == "spec"]
    for p in problems:
        print(p[0], p[3], p[2])
    print(f"VIOLATION property={ID} replay={path}" if bad else "property holds on this input")
    return common.EXIT_VIOLATION if bad else common.EXIT_OK
