"""C03 — A bare command line means exactly its explicit `![...]` form, everywhere; detection always terminates."""

from __future__ import annotations

import copy
import json
import os
import shutil
import sys
import threading
import time

from .. import common
from ..codec import codes, uncodes

ID = "C03"
LEVEL = "other"
PROPS_MODULES = ["XonshVerif.Props.C03"]
GEN_MODULES = ["XonshVerif.Gen.TryParse"]
TECHNIQUE = (
    "Lean 4 proof of the parts a model carries (termination of the recovery loop from a control skeleton REGENERATED from "
    "xonsh/execer.py + a generic counter/recursion-guard lemma; logical-line reconstruction; the wrap operation) + differential search "
    "on the real Execer for the main clause (bare source vs hand-wrapped source, traces of recording aliases) + hang / internal-error "
    "search over arbitrary strings in killable children"
)
LEVEL_TEXT = (
    "partial: the clause `bare == explicit` depends on the LALR parser's error locations and is SEARCHED differentially, not proved. "
    "PROVED (Lean): (1) C03_bounded_parses — for every input and every behaviour of the opaque parts (parser verdicts, error "
    "locations, subproc_toks results), the recovery loop of Execer._parse_ctx_free/_try_parse makes at most 2·B·(1+2·B) parser "
    "calls, B = 2·lines+10, never recurses deeper than two levels, assuming each callee returns; the control skeleton (retry "
    "counter test + decrement before any `continue`, no other write to the counter, recursion guarded by `not logical_input`) is "
    "regenerated from the source on every run and must satisfy a decidable shape obligation; the counter's INITIAL VALUE is translated too and must grant at least 2·L+1 rounds (C03_budget_suffices: enough for L lines of two segments each). (2) get_logical_line / "
    "replace_logical_line: bounds, the window is the maximal run of joined lines containing the index when the two scans agree "
    "(C03_get_window; C03_get_window_cex: they need not), replacing keeps the line count, touches nothing outside the window and "
    "loses no character of the logical line (C03_replace_content), and is the identity on what get returned when every continued "
    "line starts with a blank (C03_replace_get; false otherwise: C03_replace_get_cex). (3) the wrap at the end of subproc_toks: "
    "erasing the inserted `![` `]` gives the line back, beg ≤ end ≤ length, no token is split (C03_wrap_preserves, C03_wrap_no_split). "
    "TIED by correspondence against the real xonsh.tools functions. SEARCHED: generated command lines (words, quoted strings, $VAR, "
    "@(), $(), redirects, pipes, &, chains with and/or/&&/||, parenthesised sub-chains, already-explicit operands) in every statement "
    "position (top level, after `;`, nested if/else/elif/for/while/def/with/try/except/class bodies at depth 0-4, across backslash "
    "continuations): bare and hand-wrapped source must produce the same trace (argv, stdin, order, redirect files, raise / no raise); "
    "arbitrary strings must yield a program or a SyntaxError within the time limit."
)
LEVEL_NOTE = (
    "Trusted: Lean kernel + standard axioms; translator/c03.py (skeleton extraction; its output is re-checked by `decide` obligations "
    "and sanity examples); PLY's LALR engine, the grammar actions and the lexer are NOT modelled (error locations are opaque in the "
    "termination proof; the equivalence clause is differential testing). Termination is proved modulo termination of each callee "
    "(parser.parse, subproc_toks, get_logical_line, find_next_break) and checked end-to-end by the wall-clock stream. The Lean "
    "scanners treat only ASCII letters/digits as identifier characters (str.isalnum is Unicode-aware): correspondence inputs are ASCII. "
    "Argument-level differences of a single bare command (C04's subject) are kept out of the grammar on purpose; so are words that are "
    "Python keywords (in / is / not / if / for), words with a comma and bracket words ({a}, [b], a[0]): they were seen to produce further "
    "wrong rewrites of the same families as the recorded findings and would need classifiers of their own. A difference must reproduce "
    "three times (pipelines of thread-backed aliases are occasionally racy; a pipeline that hangs while RUNNING is C09's subject and is "
    "only counted here after both forms were shown to parse)."
)

# ====================================================================================== grammar of command lines
OK_CMDS = ["t0", "ls", "echo", "x-t0", "t0.sh", "g0"]
FAIL_CMDS = ["t1", "g1", "x-t1"]
ALL_CMDS = OK_CMDS + FAIL_CMDS

TAME_WORDS = ["a", "bb", "-l", "-c", "--all", "--color=auto", "--b=c", "x=1", "a.b", "/tmp/x", "1", "a-b", "-la"]
WORDS = TAME_WORDS + ["../y", "-1", "a_b", "-", "--", "+x", "a:b", "%d", "a@b", "=", "==", "x=", "-x=", "k=v=w", "a+b", "-rf", "-9", "0x1f", "1e3", "a/b/c", "./z", "~x", "-$XV", "-@(pv)"]
QUOTED = ["'a b'", '"c d"', "'x;y'", '"p && q"', "'(r'", '")"', '"it\'s"', "''", '"a|b"', "'>'", "a'b c'd", '--opt="v w"', "'and'", '"or"',
          '"$XV"', "'$XV'", "r'\\n'"]
VARS = ["$XV", "${'XV'}", "$XV/sub", "pre$XV"]
PYSUB = ["@('p' + 'q')", "@(1+2)", "@(['m','n'])", "@(pv)", "x@('y')z", "@(pv.upper())", "@('a b')", "@( 'sp' )", "@(len([1,2]))",
         # @( ) holds arbitrary Python: boolean operators, conditionals, comparisons, nested brackets, comprehensions, strings with operators
         "@(pv or 'd')", "@(pv and 'q')", "@(not pv)", "@('a' if pv else 'b')", "@(pv == 'pyval')", "@((1, 2))", "@([c for c in 'ab'])",
         "@('x' or 'y' and 'z')", "@(f'{pv}')", "@('&&')", "@(pv in ('pyval',))", "@({'k': 1}['k'])", "@(str(1 if pv else 2))"]
CAPT = ["$(t0 inner)", "@$(t0 i1 i2)", "$(t0 i | t0 j)", "$(t1 inner)", "$( t0 sp )", "-$(t0 x)"]
REDIR = ["> o1.txt", ">> o1.txt", "2> e1.txt", "< in.txt", "o> o2.txt", "e> e2.txt", "a> all.txt", "&> all2.txt", "2>&1", "e>o", "err>out", "1> o3.txt",
         ">o4.txt", "2>e4.txt", "> 'o 5.txt'", "> @('o6' + '.txt')", "> $XV.txt"]
OPS = ["and", "or", "&&", "||"]

BLOCKS = [
    ("if", ["if True:"], None),
    ("else", ["if 0:", "@pass", "else:"], None),
    ("elif", ["if 0:", "@pass", "elif 1:"], None),
    ("for", ["for _i in range(1):"], None),
    ("for2", ["for _i in [1, 2]:"], None),
    ("while", ["while _k[0] < 1:", "@_k[0] += 1"], None),
    ("def", ["def _fn{d}():"], "_fn{d}()"),
    ("with", ["with _cm():"], None),
    ("with-as", ["with _cm() as _w:"], None),
    ("try", ["try:"], "finally:\n@pass"),
    ("except", ["try:", "@raise ValueError", "except ValueError:"], None),
    ("class", ["class _C{d}:"], None),
]
FILLERS = ["_z = 1", "pass", "# a comment", "", "_z = [1,\n@  2]"]


class G:
    """command trees:  ["seg", [[sep, token]...], form]  |  ["chain", [parts], [[sep, op, sep]...]]
    form: "bare" (wrapped in ![ ] in the explicit rendering) or an explicit form kept as is in both renderings"""

    def __init__(self, rng, level=2, cont_p=0.0):
        self.rng = rng
        self.level = level  # 0 tame words, 1 + quoted/$VAR/@()/$(), 2 + redirects, odd words, explicit operands
        self.cont_p = cont_p

    def sep(self):
        r = self.rng
        k = r.random()
        if k < self.cont_p:
            return ["cont", " ", r.choice(["", " ", "  ", "    "])]
        if k < self.cont_p + 0.06:
            return "  "
        return " "

    def word(self):
        r = self.rng
        k = r.random()
        if self.level == 0:
            return r.choice(TAME_WORDS)
        if k < 0.50:
            return r.choice(TAME_WORDS if self.level < 2 or r.random() < 0.5 else WORDS)
        if k < 0.68:
            return r.choice(QUOTED)
        if k < 0.78:
            return r.choice(VARS)
        if k < 0.90:
            return r.choice(PYSUB)
        return r.choice(CAPT)

    def simple(self):
        r = self.rng
        n = r.choice([0, 1, 1, 1, 2, 2, 3])
        ws = [r.choice(ALL_CMDS)] + [self.word() for _ in range(n)]
        if len(ws) > 1 and ws[1] == "=":
            ws[1] = "=="  # `name = …` is a Python assignment, not a command line
        if self.level >= 2 and r.random() < 0.25:
            ws.insert(r.randint(1, len(ws)), r.choice(REDIR))
        return ws

    def segment(self, allow_bg, in_chain=False):
        r = self.rng
        toks = self.simple()
        for _ in range(r.choice([0, 0, 0, 0, 1, 1, 2])):
            toks += ["|"] + self.simple()
        if allow_bg and r.random() < 0.06:
            toks.append("&")
        form = "bare"
        if self.level >= 2 and in_chain and r.random() < 0.12:
            form = r.choice(["![", "!(", "!("])
        return ["seg", [[self.sep() if i else "", t] for i, t in enumerate(toks)], form]

    def chain(self, depth, top=True):
        r = self.rng
        if depth == 0 or r.random() < (0.3 if top else 0.4):
            return self.segment(False, in_chain=not top)
        n = r.choice([2, 2, 2, 3])
        parts = [self.chain(depth - 1, top=False) for _ in range(n)]
        ops = [[self.sep(), r.choice(OPS), self.sep()] for _ in range(n - 1)]
        return ["chain", parts, ops]

    def command(self):
        r = self.rng
        if r.random() < 0.3:
            return self.segment(allow_bg=True)
        return self.chain(r.choice([1, 1, 1, 2, 2, 3]))

    def statement(self, depth):
        r = self.rng
        k = r.random()
        st = {"cmd": self.command(), "pos": "line", "fill": r.choice(["_y = 3", "", "# c", "pass"]) if r.random() < 0.2 else None}
        if k < 0.12:
            st["pos"] = "after-semi"
        elif k < 0.22:
            st["pos"] = "cmd;cmd"
            st["cmd2"] = self.segment(False)
            st["join"] = r.choice(["; ", ";", " ; "])
        elif k < 0.28:
            st["pos"] = "before-semi"
        elif k < 0.33:
            st["pos"] = "trailing-comment"
        return st


IDENT_CMDS = ["t0", "ls", "echo", "g0", "t1", "g1"]
DECOYS = [
    "def _d{k}({a}, {b}=0, *{c}, **{d}):\n    return {a}",
    "def _d{k}({a}, /, {b}, *, {c}=None):\n    return ({a}, {b}, {c})",
    "_l{k} = lambda {a}, {b}=1: {a}",
    "_c{k} = [{a} for {a} in range(2)]",
    "_s{k} = {{{a}: {b} for {a}, {b} in [(1, 2)]}}",
    "class _K{k}:\n    {a} = 1\n    def m(self, {b}):\n        return {b}",
    "def _e{k}():\n    {a} = 1\n    {b}: int = 2\n    return {a}",
    "def _g{k}():\n    import os as {a}\n    for {b} in range(1):\n        pass\n    with _cm() as {c}:\n        pass",
    "def _h{k}():\n    def {a}({b}):\n        return {b}\n    return {a}",
    "async def _a{k}({a}, *{b}):\n    return {a}",
    "{a} = 1; del {a}",
    "_n{k} = (lambda: [{a} for {a}, {b} in [(1, 2)]])()",
]


def gen_decoys(rng):
    """Python statements that bind command NAMES in inner scopes only (parameters, lambda / comprehension variables, class attributes,
    function locals) or bind and delete them: at the command's position those names are NOT bound"""
    out = []
    for k in range(rng.choice([0, 0, 1, 1, 2])):
        a, b, c, d = rng.sample(IDENT_CMDS + ["a", "bb", "l", "c", "la", "x"], 4)
        out.append(rng.choice(DECOYS).format(k=k, a=a, b=b, c=c, d=d))
    return out


def gen_case(rng, level, accept=None):
    depth = rng.choice([0, 0, 0, 1, 1, 2, 3, 4])
    blocks = [{"b": rng.randrange(len(BLOCKS)), "w": rng.choice(["  ", "    ", "    ", "\t", " ", "        "]),
               "fill": rng.choice(FILLERS) if rng.random() < 0.25 else None} for _ in range(depth)]
    g = G(rng, level, rng.choice([0, 0, 0, 0.15, 0.4]))
    stmts = []
    nst = rng.choice([1, 1, 1, 2, 3])
    for i in range(nst):
        def ok(st):
            # (clean grammar only) a statement of >= 3 physical lines may only come last: see K_NOPROGRESS
            # … and a boolean operator inside @( ) / $( ) only in a case of its own (it sends the WHOLE input through the greedy pass)
            return accept(st) and (i == nst - 1 or n_phys(st) < 3) and (bool_sub_kind(st) is None or nst == 1)

        st = g.statement(depth)
        tries = 0
        while accept is not None and not ok(st) and tries < 60:
            st = g.statement(depth)
            tries += 1
        if accept is not None and not ok(st):
            st = {"cmd": ["seg", [["", "t0"], [" ", "a"]], "bare"], "pos": "line", "fill": None}
        stmts.append(st)
    return {"blocks": blocks, "stmts": stmts, "decoys": gen_decoys(rng)}


# ---------------------------------------------------------------------------------------- rendering
def rsep(s, ind):
    return s[1] + "\\\n" + ind + s[2] if isinstance(s, list) else s


def render(node, ind, explicit, top=True):
    if node[0] == "seg":
        out = "".join(rsep(s, ind) + t for s, t in node[1])
        form = node[2]
        if form == "bare":
            return f"![{out}]" if explicit else out
        return {"![": f"![{out}]", "!(": f"!({out})"}[form]
    _, parts, ops = node
    s = ""
    for i, p in enumerate(parts):
        if i:
            a, op, b = ops[i - 1]
            s += rsep(a, ind) + op + rsep(b, ind)
        s += render(p, ind, explicit, top=False)
    return s if top else f"({s})"


def render_stmt(st, ind, explicit):
    t = render(st["cmd"], ind, explicit)
    p = st["pos"]
    if p == "after-semi":
        t = "_v = 1; " + t
    elif p == "cmd;cmd":
        t = t + st["join"] + render(st["cmd2"], ind, explicit)
    elif p == "before-semi":
        t = t + "; _v = 2"
    elif p == "trailing-comment":
        t = t + "  # note"
    return t


def render_case(case, explicit, only=None):
    lines, ind, closers = list(case.get("decoys") or []), "", []
    for d, b in enumerate(case["blocks"]):
        _, head, closer = BLOCKS[b["b"]]
        inner = ind + b["w"]
        for h in head:
            h = h.format(d=d)
            lines.append(inner + h[1:] if h.startswith("@") else ind + h)
        closers.append(None if closer is None else "\n".join((inner + c[1:]) if c.startswith("@") else (ind + c) for c in closer.format(d=d).split("\n")))
        if b.get("fill") is not None:
            lines.append("\n".join((inner + f[1:]) if f.startswith("@") else ((inner + f) if f else "") for f in b["fill"].split("\n")))
        ind = inner
    for i, st in enumerate(case["stmts"]):
        if only is not None and i != only:
            continue
        lines.append(ind + render_stmt(st, ind, explicit))
        if st.get("fill") is not None:
            lines.append(ind + st["fill"] if st["fill"] else "")
    for c in reversed(closers):
        if c is not None:
            lines.append(c)
    return "\n".join(lines) + "\n"


# ---------------------------------------------------------------------------------------- syntactic features (classifiers)
def flat(node):
    """tokens of a command tree in source order: ("seg", text, node) | ("op", text) | ("(",) | (")",)"""
    if node[0] == "seg":
        yield ("seg", " ".join(t for _, t in node[1]), node)
        return
    _, parts, ops = node
    for i, p in enumerate(parts):
        if i:
            yield ("op", ops[i - 1][1])
        if p[0] == "chain":
            yield ("(",)
            yield from flat(p)
            yield (")",)
        else:
            yield from flat(p)


def n_phys(st):
    """number of physical lines the statement spans"""
    def conts(node):
        if node[0] == "seg":
            return sum(isinstance(sp, list) for sp, _ in node[1])
        return sum(conts(p) for p in node[1]) + sum(isinstance(a, list) + isinstance(b, list) for a, _, b in node[2])

    return 1 + conts(st["cmd"]) + (conts(st["cmd2"]) if st["pos"] == "cmd;cmd" else 0)


def has_cont(node):
    if node[0] == "seg":
        return any(isinstance(s, list) for s, _ in node[1])
    return any(has_cont(p) for p in node[1]) or any(isinstance(a, list) or isinstance(b, list) for a, _, b in node[2])


_PY = {}


def pyparsable(text):
    """is this text ALSO accepted by xonsh's Python-mode grammar (context-free parse)?"""
    if text not in _PY:
        ex = session()["execer"]
        try:
            ex.parser.parse(text + "\n", filename="<c03-feature>", mode="exec")
            _PY[text] = (True, "")
        except SyntaxError as e:
            _PY[text] = (False, str(e))
        except Exception as e:  # noqa: BLE001
            _PY[text] = (False, "other:" + type(e).__name__)
    return _PY[text]


_EC = {}


def error_at_following_operator(seg_text):
    """read as Python, is the operand an INCOMPLETE expression, i.e. does the parser report its error AT the chain operator that follows
    (`t0 in`, `t0 -`, `t0 not`, `t0 if`, `(t0 for …`)?"""
    if seg_text not in _EC:
        ex = session()["execer"]
        probe = "(" + seg_text + " and z)"
        try:
            ex.parser.parse(probe + "\n", filename="<c03-feature>", mode="exec")
            _EC[seg_text] = False
        except SyntaxError as e:
            loc = getattr(e, "loc", None)
            _EC[seg_text] = loc is not None and loc.column in (len(seg_text) + 2, len(seg_text) + 1)
        except Exception:  # noqa: BLE001
            _EC[seg_text] = False
    return _EC[seg_text]


def has_bool_in_sub(text):
    """an and / or / && / || (outside quotes) inside a parenthesised argument such as @( … ) or $( … )"""
    import re

    t = re.sub(r"'[^']*'|\"[^\"]*\"", "Q", text)
    depth = 0
    i = 0
    while i < len(t):
        c = t[i]
        if c == "(":
            depth += 1
        elif c == ")":
            depth = max(0, depth - 1)
        elif depth and re.match(r"(and\b|or\b|&&|\|\|)", t[i:]) and (i == 0 or not (t[i - 1].isalnum() or t[i - 1] == "_")):
            return True
        i += 1
    return False


def bool_sub_kind(st):
    """None: no bare segment has a boolean operator inside a parenthesised argument; "safe": the statement is ONE command / pipeline alone
    on its line whose only parenthesised word is that argument (the shape the greedy pass wraps from the line start); else "unsafe" """
    segs = [it for it in list(flat(st["cmd"])) + (list(flat(st["cmd2"])) if st["pos"] == "cmd;cmd" else []) if it[0] == "seg"]
    hot = [it for it in segs if it[2][2] == "bare" and has_bool_in_sub(it[1])]
    if not hot:
        return None
    if st["pos"] in ("line", "trailing-comment") and st["cmd"][0] == "seg" and sum("(" in t for _, t in st["cmd"][1]) == 1 and not has_cont(st["cmd"]):
        return "safe"
    return "unsafe"


NONPLAIN_LPAREN = ("!(", "$(", "@(", "@$(", "@!(")


def features(st):
    """the syntactic triggers of the KNOWN findings that this statement has (set of keys)"""
    out = set()
    items = list(flat(st["cmd"]))
    if st["pos"] == "cmd;cmd":
        items += [("op", ";")] + list(flat(st["cmd2"]))
    elif st["pos"] == "before-semi":
        items += [("op", ";"), ("py", "_v = 2")]
    segs = [(i, it) for i, it in enumerate(items) if it[0] == "seg"]
    multi = has_cont(st["cmd"]) or (st["pos"] == "cmd;cmd" and has_cont(st["cmd2"]))

    def seg_is_py(it):
        node = it[2]
        if node[2] != "bare":
            return True  # an explicit !( ) / ![ ] operand is Python-mode text and is left alone by phase 1
        return pyparsable(it[1])[0]

    # -- A: a bare segment that, read as Python, is an assignment to an operator expression (`t1 --b=c`, `ls -l --color=auto | g0`):
    #        the parser reports that error at the START of the statement, so unless the segment is the first thing of its statement the
    #        recovery loop wraps the wrong text and gives up
    first = True
    for it in items:
        if it == ("op", ";"):
            first = True
            continue
        if it[0] == "seg" and it[2][2] == "bare" and not first:
            ok, msg = pyparsable(it[1])
            if not ok and ("can't assign" in msg or "only single target can be annotated" in msg):
                out.add(K_ASSIGN)  # errors raised by grammar ACTIONS: they carry the location of the statement start
        first = False
    # -- B: the logical line ends with the `)` of a group whose last operand needs the context-free wrap
    if items and items[-1] == (")",) and st["pos"] in ("line", "after-semi", "trailing-comment"):
        last_seg = [it for it in items if it[0] == "seg"][-1]
        if last_seg[2][2] == "bare" and not pyparsable(last_seg[1])[0]:
            out.add(K_RPAREN_EOL)
    # (the stale-paren sub-chain drop, K_STALE_PAREN, was repaired by e204b18: its shape is part of the clean grammar again and a
    #  recurrence is a violation)
    # -- E: inside a group, an operand that is an incomplete Python expression: the error is reported at the chain operator / `)` after
    #        it, the execer "goes greedy" and wraps the WHOLE group as one subprocess (a subshell command)
    depth = 0
    for it in items:
        if it == ("(",):
            depth += 1
        elif it == (")",):
            depth -= 1
        elif it[0] == "seg" and depth > 0 and it[2][2] == "bare" and not pyparsable(it[1])[0] and error_at_following_operator(it[1]):
            out.add(K_GREEDY_GROUP)
    # -- G: and / or / && / || inside an @( ) / $( ) argument, except in the one shape where the greedy pass is known to cope
    if bool_sub_kind(st) == "unsafe":
        out.add(K_BOOL_IN_SUB)
    # -- C: a Python-parsable operand that is not the last thing on a logical line spanning several physical lines
    if multi:
        for k, (i, it) in enumerate(segs):
            if it[2][2] == "bare" and pyparsable(it[1])[0] and (len(items) > 1 or st["pos"] in ("after-semi", "before-semi", "cmd;cmd")):
                out.add(K_CONT)
    # -- D: a Python-parsable operand holding a `$` construct, followed by more of the statement
    for k, (i, it) in enumerate(segs):
        if it[2][2] == "bare" and "$" in it[1] and pyparsable(it[1])[0] and len(items) > 1:
            out.add(K_DOLLAR)
    return out


K_ASSIGN = "flag-with-equals-after-chain-operator-rejected"
K_RPAREN_EOL = "group-closing-paren-at-line-end-rejected"
K_STALE_PAREN = "python-looking-operand-before-rparen-drops-the-subchain"
K_CONT = "python-looking-operand-on-continued-line-replaced-by-line-tail"
K_DOLLAR = "python-looking-operand-with-dollar-construct-replaced-by-line-tail"
K_GREEDY_GROUP = "incomplete-python-operand-in-group-wraps-the-whole-group"
K_NOPROGRESS = "no-progress-test-fooled-after-continued-line-collapse"
K_CAP = "retry-cap-rejects-input-with-many-command-segments"
K_BOOL_IN_SUB = "boolean-operator-inside-substitution-ends-the-wrap-window"
SYNTAX_KEYS = {K_ASSIGN, K_RPAREN_EOL}  # these show as a SyntaxError of the bare form
ANY_KIND_KEYS = {K_GREEDY_GROUP, K_BOOL_IN_SUB}  # the whole-group wrap may or may not parse, depending on what the group holds
WRONG_RUN_KEYS = {K_CONT, K_DOLLAR, K_GREEDY_GROUP}  # these run the wrong commands (or stay Python: NameError)


# ---------------------------------------------------------------------------------------- shrinking (for readable witnesses)
def tree_variants(node):
    if node[0] == "seg":
        toks = node[1]
        idxs = [i for i, (s, t) in enumerate(toks) if t == "|"]
        if idxs:
            bounds = [-1] + idxs + [len(toks)]
            for a, b in zip(bounds, bounds[1:]):
                rest = (toks[:a] + toks[b:]) if a >= 0 else toks[b + 1 :]
                if rest:
                    rest = [list(x) for x in rest]
                    rest[0][0] = ""
                    yield ["seg", rest, node[2]]
        for i, (s, t) in enumerate(toks):
            if i and t != "|" and toks[i - 1][1] != "|":
                yield ["seg", toks[:i] + toks[i + 1 :], node[2]]
        for i, (s, t) in enumerate(toks):
            if isinstance(s, list):
                yield ["seg", toks[:i] + [[" ", t]] + toks[i + 1 :], node[2]]
        return
    _, parts, ops = node
    for p in parts:
        yield p
    if len(parts) > 2:
        for i in range(len(parts)):
            yield ["chain", parts[:i] + parts[i + 1 :], (ops[:i] + ops[i + 1 :]) if i < len(ops) else ops[:-1]]
    for i, p in enumerate(parts):
        for v in tree_variants(p):
            yield ["chain", parts[:i] + [v] + parts[i + 1 :], ops]
    for i, (a, op, b) in enumerate(ops):
        if isinstance(a, list) or isinstance(b, list):
            yield ["chain", parts, ops[:i] + [[" ", op, " "]] + ops[i + 1 :]]


def case_variants(case):
    for i in range(len(case.get("decoys") or [])):
        c = copy.deepcopy(case)
        del c["decoys"][i]
        yield c
    for i in range(len(case["blocks"])):
        c = copy.deepcopy(case)
        del c["blocks"][i]
        yield c
    for i, b in enumerate(case["blocks"]):
        if b.get("fill") is not None:
            c = copy.deepcopy(case)
            c["blocks"][i]["fill"] = None
            yield c
    if len(case["stmts"]) > 1:
        for i in range(len(case["stmts"])):
            c = copy.deepcopy(case)
            del c["stmts"][i]
            yield c
    for i, st in enumerate(case["stmts"]):
        if st["pos"] != "line":
            c = copy.deepcopy(case)
            c["stmts"][i]["pos"] = "line"
            yield c
        if st.get("fill") is not None:
            c = copy.deepcopy(case)
            c["stmts"][i]["fill"] = None
            yield c
        for v in tree_variants(st["cmd"]):
            c = copy.deepcopy(case)
            c["stmts"][i]["cmd"] = v
            yield c


def shrink_case(case, still_fails, budget=120):
    """greedy structural shrinking; never slides into a variant that has a known-finding feature the case does not have"""
    base = set().union(*[features(st) for st in case["stmts"]]) if case["stmts"] else set()
    cur, progress, used = case, True, 0
    while progress and used < budget:
        progress = False
        for v in case_variants(cur):
            fv = set().union(*[features(st) for st in v["stmts"]])
            if not fv <= base:
                continue
            used += 1
            if still_fails(v):
                cur, progress = v, True
                break
            if used >= budget:
                break
    return cur


# ====================================================================================== the real thing (worker side)
_S = {}


def session():
    if _S:
        return _S
    common.setup_repo_imports()
    from xonsh.built_ins import XSH
    from xonsh.execer import Execer

    execer = Execer()
    XSH.load(execer=execer, inherit_env=False)
    env = XSH.env
    env["XONSH_SHOW_TRACEBACK"] = False
    env["XONSH_CAPTURE_ALWAYS"] = False
    env["PATH"] = []
    env["XONSH_INTERACTIVE"] = False
    env["XONSH_SUBPROC_RAISE_ERROR"] = False
    env["XV"] = "val"
    LOG = []

    def mk(name, rc):
        def f(args, stdin=None, stdout=None, stderr=None):
            data = None
            if stdin is not None:
                try:
                    data = stdin.read()
                except Exception:  # noqa: BLE001
                    data = "<unreadable>"
            LOG.append([name, list(args), data])
            print("out:" + name + ":" + ",".join(args), file=stdout)
            print("err:" + name, file=stderr)
            return rc

        return f

    for n in OK_CMDS:
        XSH.aliases[n] = mk(n, 0)
    for n in FAIL_CMDS:
        XSH.aliases[n] = mk(n, 1)
    _S.update(execer=execer, XSH=XSH, LOG=LOG, parent=os.getpid())
    return _S


def _child_init():
    """first call inside a forked worker: never outlive the check, keep quiet, own scratch directory"""
    if _S.get("child") == os.getpid():
        return
    _S["child"] = os.getpid()
    if os.getpid() != _S.get("parent"):
        try:
            import ctypes

            ctypes.CDLL(None).prctl(1, 9)  # PR_SET_PDEATHSIG = SIGKILL
        except Exception:  # noqa: BLE001
            pass
        if os.getppid() == 1:
            os._exit(0)
        dn = os.open(os.devnull, os.O_RDWR)
        for fd in (0, 1, 2):
            os.dup2(dn, fd)
    wd = str(common.scratch_root() / f"c03-wd-{os.getpid()}")
    os.makedirs(wd, exist_ok=True)
    _S["wd"] = wd


def run_src(src, execute=True):
    """compile (and run) one source text in the loaded session -> {log, files, exc, parse_s}"""
    import contextlib
    import subprocess

    S = session()
    _child_init()
    wd = S["wd"]
    for f in os.listdir(wd):
        p = os.path.join(wd, f)
        shutil.rmtree(p) if os.path.isdir(p) else os.unlink(p)
    with open(os.path.join(wd, "in.txt"), "w") as f:
        f.write("input\n")
    os.chdir(wd)
    S["LOG"].clear()
    S["XSH"].lastcmd = None
    g = {"__name__": "xv", "pv": "pyval", "_k": [0], "_cm": contextlib.nullcontext}
    t0 = time.time()
    exc = code = None
    try:
        code = S["execer"].compile(src, glbs=g, locs=g, mode="exec", filename="<c03>")
    except SyntaxError as e:
        exc = ["syntax", str(e).split("\n")[0][:120]]
    except BaseException as e:  # noqa: BLE001
        exc = ["internal", f"{type(e).__name__}: {e}"[:300]]
    parse_s = time.time() - t0
    if code is not None and execute:
        try:
            exec(code, g, g)
        except subprocess.CalledProcessError as e:
            exc = ["cpe", e.returncode, [str(a) for a in e.cmd]]
        except SyntaxError as e:
            exc = ["syntax-at-run", str(e)[:120]]
        except BaseException as e:  # noqa: BLE001
            exc = ["raise", f"{type(e).__name__}: {e}"[:200]]
        lc = S["XSH"].lastcmd
        if lc is not None:
            try:
                lc.end()
            except BaseException:  # noqa: BLE001
                pass
        for th in threading.enumerate():
            if th is not threading.current_thread() and type(th).__name__ in ("ProcProxyThread", "PopenThread"):
                th.join(timeout=5)
    files = {}
    for f in sorted(os.listdir(wd)):
        if f != "in.txt":
            try:
                files[f] = open(os.path.join(wd, f)).read()
            except Exception as e:  # noqa: BLE001
                files[f] = "<" + type(e).__name__ + ">"
    return {"log": [list(x) for x in S["LOG"]], "files": files, "exc": exc, "parse_s": round(parse_s, 3), "compiled": code is not None,
            "total_s": round(time.time() - t0, 3)}


def _pair(item):
    return {"bare": run_src(item["bare"]), "expl": run_src(item["expl"])}


def _parse_only(src):
    r = run_src(src, execute=False)
    return {"exc": r["exc"], "parse_s": r["parse_s"], "compiled": r["compiled"]}


def run_pairs(items, timeout=4):
    session()  # loaded once in the parent; the forked workers inherit it
    common.scratch_root()
    return common.map_in_child(_pair, items, per_item_timeout=timeout, label="c03")


def verdict(r, background=False):
    """same | DIFF | HANG | INTERNAL | explicit-rejected | harness"""
    if r == common.HANG:
        return "HANG"
    if isinstance(r, dict) and "__exc__" in r:
        return "harness"
    b, e = r["bare"], r["expl"]
    if b["exc"] and b["exc"][0] == "internal":
        return "INTERNAL"
    if e["exc"] and e["exc"][0] in ("syntax", "internal"):
        return "explicit-rejected"
    lb, le = b["log"], e["log"]
    if background:
        lb, le = sorted(map(json.dumps, lb)), sorted(map(json.dumps, le))
    return "same" if (lb, b["files"], b["exc"]) == (le, e["files"], e["exc"]) else "DIFF"


def has_bg(case):
    """does anything run concurrently with what follows it (a trailing `&`, or an explicit `!( )` whose value nobody demands)?
    then the order of the log entries is not determined and logs are compared as multisets"""
    return any(it[2][2] == "!(" or any(t == "&" for _, t in it[2][1]) for st in case["stmts"] for it in flat(st["cmd"]) if it[0] == "seg")


def pair_of(case, only=None):
    return {"bare": render_case(case, False, only), "expl": render_case(case, True, only)}


# ====================================================================================== streams: the main clause
def wraps_needed(case):
    """(W, L): bare segments that xonsh's Python-mode parser rejects (each costs one round of the recovery loop), physical lines"""
    w = 0
    for st in case["stmts"]:
        for it in list(flat(st["cmd"])) + (list(flat(st["cmd2"])) if st["pos"] == "cmd;cmd" else []):
            if it[0] == "seg" and it[2][2] == "bare" and not pyparsable(it[1])[0]:
                w += 1
    return w, len(render_case(case, False).splitlines())


def classify(case, r):
    """-> (known-finding key or None, the statements that fail on their own)"""
    failing = []
    w, nl = wraps_needed(case)
    if w > 2 * nl + 9 and r["bare"]["exc"] and r["bare"]["exc"][0] == "syntax":
        return K_CAP, failing
    if len(case["stmts"]) > 1:
        rs = run_pairs([pair_of(case, i) for i in range(len(case["stmts"]))])
        failing = [i for i, x in enumerate(rs) if verdict(x, has_bg(case)) in ("DIFF", "INTERNAL", "HANG")]
    else:
        failing = [0]
    if not failing:
        # only the combination fails.  One known mechanism: an EARLIER statement spans >= 3 physical lines; rewriting it collapses
        # those lines (line numbers shift) and the no-progress test of the recovery loop then compares coordinates of different texts
        kind_syntax = bool(r["bare"]["exc"]) and r["bare"]["exc"][0] == "syntax"
        long_before = any(n_phys(st) >= 3 for st in case["stmts"][:-1])
        if kind_syntax and long_before:
            return K_NOPROGRESS, failing
        # … another: a statement with and/or inside @( ) / $( ) makes the non-greedy attempt fail, the whole input is re-done greedily
        if any(bool_sub_kind(st) is not None for st in case["stmts"]):
            return K_BOOL_IN_SUB, failing
        return None, failing
    keys, unexplained = [], []
    for i in failing:
        one = run_pairs([pair_of(case, i)])[0] if len(case["stmts"]) > 1 else r
        syn = isinstance(one, dict) and "bare" in one and bool(one["bare"]["exc"]) and one["bare"]["exc"][0] == "syntax"
        ks = sorted(k for k in features(case["stmts"][i]) if (k in SYNTAX_KEYS) == syn or k in ANY_KIND_KEYS)
        w1, l1 = wraps_needed({"blocks": case["blocks"], "stmts": [case["stmts"][i]]})
        if syn and w1 > 2 * l1 + 9:
            ks = [K_CAP] + ks
        if ks:
            keys.append(ks[0])
        else:
            unexplained.append(i)
    if unexplained:
        return None, unexplained
    return keys[0], failing


def stream_diff(ctx, n, name, clean, levels=(0, 1, 2)):
    ctx.stream_rule(
        name,
        ("CLEAN grammar (statements carrying a syntactic trigger of a known finding are re-drawn): any difference is new; " if clean
         else "FULL grammar: a difference is shrunk, the failing statement isolated and classified by the syntactic triggers of the known findings; ")
        + "1-3 command statements (single commands, pipelines, chains over and/or/&&/||, parenthesised sub-chains to depth 3, trailing &, "
        "operands already written as ![ ] / !( )) placed at top level, after `;`, before `;`, before a comment, inside 0-4 nested "
        "if/else/elif/for/while/def/with/try/except/class bodies with indentation widths 1/2/4/8/tab, with backslash continuations "
        "between any two words; the bare source and the source with every bare segment wrapped in ![ ] by hand are compiled and run in "
        "one session with recording aliases: argv, stdin, order, files written by redirects, and the escaping exception must be equal; "
        "non-trivial = the bare source is not valid Python as written (a rewrite was needed)",
    )
    CH = 60
    done = 0
    while done < n and not ctx.enough_failures():
        cases = []
        for _ in range(min(CH, n - done)):
            lvl = ctx.rng.choice(levels)
            c = gen_case(ctx.rng, lvl, (lambda st: not features(st)) if clean else None)
            while clean and (lambda wl: wl[0] > 2 * wl[1] + 5)(wraps_needed(c)):
                c = gen_case(ctx.rng, lvl, lambda st: not features(st))  # stay clear of the retry cap (K_CAP)
            cases.append(c)
        done += len(cases)
        results = run_pairs([pair_of(c) for c in cases])
        for c, r in zip(cases, results):
            bg = has_bg(c)
            v = verdict(r, bg)
            src = render_case(c, False)
            ctx.count(f"{name}/depth={len(c['blocks'])}")
            for b in c["blocks"]:
                ctx.count(f"{name}/block/{BLOCKS[b['b']][0]}")
            for st in c["stmts"]:
                ctx.count(f"{name}/pos/{st['pos']}")
                if has_cont(st["cmd"]):
                    ctx.count(f"{name}/continued-line")
            ctx.case(name, src, v != "harness" and not pyparsable_whole(src), {"bare": src, "explicit": render_case(c, True)} if done <= CH else None)
            if v == "same":
                continue
            if v == "harness":
                raise common.InfraError(f"C03 worker failed on {src!r}: {r['__exc__'][-600:]}")
            if v == "HANG":
                # which part does not finish?  detection (C03) or the running pipeline of thread-backed aliases (C09's subject)
                pr = common.map_in_child(_parse_codes, [codes(render_case(c, False)), codes(render_case(c, True))], per_item_timeout=20, label="c03-parse")
                if common.HANG not in pr:
                    ctx.count(f"{name}/hang while RUNNING the pipeline (both forms parse; judged by C09, not here)")
                    hs = ctx.extra.setdefault("run_hang_samples", [])
                    if len(hs) < 40:
                        hs.append(render_case(c, False))
                    continue
            if v == "explicit-rejected":
                ctx.count(f"{name}/explicit-form-rejected (not a well-formed command: skipped)")
                ctx.extra.setdefault("explicit_rejected_samples", [])
                if len(ctx.extra["explicit_rejected_samples"]) < 5:
                    ctx.extra["explicit_rejected_samples"].append({"explicit": render_case(c, True), "error": r["expl"]["exc"]})
                continue
            # a difference must reproduce twice (pipelines of thread-backed aliases are occasionally racy)
            again = run_pairs([pair_of(c), pair_of(c)])
            if any(verdict(x, bg) != v for x in again):
                ctx.count(f"{name}/unstable-difference (not reproduced)")
                continue
            report(ctx, name, c, r, v, clean)


def pyparsable_whole(src):
    try:
        compile(src, "<py>", "exec")
        return True
    except SyntaxError:
        return False
    except Exception:  # noqa: BLE001
        return False


def report(ctx, name, case, r, v, clean):
    bg = has_bg(case)
    if v in ("HANG", "INTERNAL"):
        key, failing = None, []
    elif clean:
        key, failing = None, []
    else:
        key, failing = classify(case, r)
    witness = case
    if key is None and failing and len(case["stmts"]) > 1:
        # point at a statement that fails on its own and carries none of the known triggers
        only = {"blocks": case["blocks"], "stmts": [case["stmts"][failing[0]]], "decoys": case.get("decoys")}
        if verdict(run_pairs([pair_of(only)])[0], bg) == v:
            case = witness = only
    if key is None:
        # a NEW failure: make it readable
        def still(cand):
            x = run_pairs([pair_of(cand)])[0]
            return verdict(x, bg) == v

        try:
            witness = shrink_case(case, still, budget=ctx.n(60, 200))
        except common.InfraError:
            witness = case
        r2 = run_pairs([pair_of(witness)])[0]
        if verdict(r2, bg) == v:
            r = r2
        else:
            witness = case
    ctx.count(f"{name}/difference/" + (key or "NEW"))
    obs = r if r == common.HANG else {"bare": {k: r["bare"][k] for k in ("log", "files", "exc")}, "explicit": {k: r["expl"][k] for k in ("log", "files", "exc")}}
    why = {
        "HANG": "compiling / running the bare form does not finish within the time limit",
        "INTERNAL": "the bare form makes the execer raise an internal exception (neither a program nor a SyntaxError)",
        "DIFF": "a bare command line does not behave like its explicit ![...] form (commands run, arguments, redirect targets or raised error differ)",
    }[v]
    ctx.spec_failure(
        {"stream": name, "bare": render_case(witness, False), "explicit": render_case(witness, True), "case": witness,
         "original_bare": render_case(case, False) if witness is not case else None, "failing_statements": failing},
        obs, why, key)


# ====================================================================================== streams: long scripts, comment corners
def stream_long(ctx, n, name="long-scripts"):
    ctx.stream_rule(
        name,
        "LONG inputs: 10-40 lines, each a bare chain of one or two plain commands none of which is valid Python (`echo a b && t0 c d`), "
        "mixed with Python lines, partly inside an indented block: every segment costs one round of the recovery loop, so this is where "
        "the retry budget (C03_budget_suffices: 2·L+1 rounds are always granted) meets real work; bare and hand-wrapped source must "
        "behave alike; the retry-cap finding does not apply (at most 2 segments per line); non-trivial = more than 20 wraps needed",
    )
    words = ["a", "bb", "/tmp/x", "a.b", "1", "c d".split()[0], "x/y"]
    cases = []
    for _ in range(n):
        nl = ctx.rng.randint(10, 40)
        lb, le = [], []
        ind = ""
        wraps = 0
        for i in range(nl):
            k = ctx.rng.random()
            if k < 0.08:
                lb.append(ind + "_v = 1")
                le.append(ind + "_v = 1")
                continue
            if k < 0.14 and not ind and i < nl - 2:
                lb.append("if True:")
                le.append("if True:")
                ind = ctx.rng.choice(["  ", "    "])
                continue
            if k < 0.2 and ind and lb and not lb[-1].endswith(":"):
                ind = ""
            segs = [[ctx.rng.choice(ALL_CMDS)] + [ctx.rng.choice(words) for _ in range(ctx.rng.randint(2, 3))] for _ in range(ctx.rng.choice([1, 2, 2, 2]))]
            wraps += len(segs)
            op = " " + ctx.rng.choice(OPS) + " "
            lb.append(ind + op.join(" ".join(sg) for sg in segs))
            le.append(ind + op.join("![" + " ".join(sg) + "]" for sg in segs))
        if lb[-1].endswith(":"):
            lb.append(ind + "pass")
            le.append(ind + "pass")
        cases.append(({"bare": "\n".join(lb) + "\n", "expl": "\n".join(le) + "\n"}, wraps, nl))
    res = run_pairs([c for c, _, _ in cases], timeout=60)
    for (pair, wraps, nl), r in zip(cases, res):
        ctx.case(name, pair["bare"], wraps > 20, {"bare": pair["bare"][:300], "lines": nl, "wraps": wraps} if len(ctx.streams[name]) and ctx.streams[name]["evaluations"] < 2 else None)
        ctx.count(f"{name}/lines={10 * (nl // 10)}-{10 * (nl // 10) + 9}")
        judge_pair(ctx, name, pair, r)


def judge_pair(ctx, name, pair, r):
    v = verdict(r)
    if v == "same":
        return
    if v == "harness":
        raise common.InfraError(f"C03 worker failed on {pair['bare']!r}: {r['__exc__'][-600:]}")
    if v == "explicit-rejected":
        ctx.count(f"{name}/explicit-form-rejected (not a well-formed command: skipped)")
        return
    if v == "HANG":
        pr = common.map_in_child(_parse_codes, [codes(pair["bare"]), codes(pair["expl"])], per_item_timeout=60, label="c03-parse")
        if common.HANG not in pr:
            ctx.count(f"{name}/hang while RUNNING the pipeline (both forms parse; judged by C09, not here)")
            return
    else:
        again = run_pairs([pair, pair], timeout=60)
        if any(verdict(x) != v for x in again):
            ctx.count(f"{name}/unstable-difference (not reproduced)")
            return
    ctx.count(f"{name}/difference/NEW")
    obs = r if r == common.HANG else {"bare": {k: r["bare"][k] for k in ("log", "files", "exc")}, "explicit": {k: r["expl"][k] for k in ("log", "files", "exc")}}
    ctx.spec_failure({"stream": name, "bare": pair["bare"], "explicit": pair["expl"]}, obs,
                     "a bare command line does not behave like its explicit ![...] form (commands run, arguments, redirect targets or raised error differ)", None)


def stream_comment_corners(ctx, n, name="comment-after-literal"):
    ctx.stream_rule(
        name,
        "a command whose last argument is a quoted literal with escapes (`\"a\\\\\"`, `'it\\'s'`, `\"q\\\"x\"`, a literal ending in an escaped backslash) "
        "followed by a trailing comment that ENDS IN A BACKSLASH (not a continuation: it is inside the comment), then a second command on "
        "the next line; also the same literal followed by a real continuation; bare vs hand-wrapped; non-trivial = the literal ends with an "
        "escaped backslash or holds an escaped quote",
    )
    lits = ['"a\\\\"', "'a\\\\'", "'it\\'s'", '"q\\"x"', '"a b"', "'x'", '"\\\\\\""', "'#'", '"a # b"', "r'a\\\\'", '"\\\\" "b\\\\"']
    pairs, keys = [], []
    for _ in range(n):
        lit = ctx.rng.choice(lits)
        c1, c2 = ctx.rng.choice(OK_CMDS), ctx.rng.choice(ALL_CMDS)
        w = ctx.rng.choice(["a", "bb", "x y"])
        shape = ctx.rng.choice(["comment-backslash", "comment-backslash", "continuation", "comment"])
        ind = ctx.rng.choice(["", "", "    "])
        head = "if True:\n" if ind else ""
        if shape == "comment-backslash":
            b = f"{head}{ind}{c1} {lit} # note \\\n{ind}{c2} {w}\n"
            e = f"{head}{ind}![{c1} {lit}] # note \\\n{ind}![{c2} {w}]\n"
        elif shape == "comment":
            b = f"{head}{ind}{c1} {lit} # note\n{ind}{c2} {w}\n"
            e = f"{head}{ind}![{c1} {lit}] # note\n{ind}![{c2} {w}]\n"
        else:
            b = f"{head}{ind}{c1} {lit} \\\n{ind}  {w}\n{ind}{c2} {w}\n"
            e = f"{head}{ind}![{c1} {lit} \\\n{ind}  {w}]\n{ind}![{c2} {w}]\n"
        pairs.append({"bare": b, "expl": e})
        keys.append((shape, lit))
    res = run_pairs(pairs)
    for pair, (shape, lit), r in zip(pairs, keys, res):
        ctx.case(name, pair["bare"], "\\\\" in lit or "\\'" in lit or '\\"' in lit, {"bare": pair["bare"]} if ctx.streams[name]["evaluations"] < 3 else None)
        ctx.count(f"{name}/{shape}")
        judge_pair(ctx, name, pair, r)


# ====================================================================================== stream: detection always terminates
def gen_any_string(rng, k):
    kind = k % 8
    if kind == 0:  # operator / bracket soup
        alpha = ["(", ")", "[", "]", "{", "}", "'", '"', "'''", '"""', "$(", "@(", "![", "!(", "$[", "@$(", "&&", "||", "|", "&", ";", "\\\n", "\n", " ", "  ",
                 "\t", "#", "and", "or", "not", "ls", "x", "=", "-", "--a=b", ":", "if", "for", "def", "$X", "${", "@", "!", "?", "*", "`", "f'", "r'", ">", "2>", "<"]
        return "".join(rng.choice(alpha) + rng.choice(["", " "]) for _ in range(rng.randint(1, 40)))
    if kind == 1:  # random bytes, surrogateescape
        return bytes(rng.randrange(256) for _ in range(rng.randint(1, 60))).decode("utf-8", "surrogateescape")
    if kind == 2:  # printable ASCII noise
        return "".join(chr(rng.choice([10, 32, 32, 9] + list(range(33, 127)))) for _ in range(rng.randint(1, 80)))
    if kind in (3, 4):  # a damaged well-formed program
        src = render_case(gen_case(rng, 2), False)
        for _ in range(rng.randint(1, 4)):
            i = rng.randrange(len(src) + 1)
            op = rng.random()
            if op < 0.4 and src:
                src = src[:i] + src[i + 1 :]
            elif op < 0.8:
                src = src[:i] + rng.choice(["(", ")", "[", "]", "'", '"', "\\", "\n", "&&", "![", "$(", " ", "\t", ";", ":", "'''", "#"]) + src[i:]
            else:
                src = src[:i]
        return src
    if kind == 5:  # deep nesting
        d = rng.choice([5, 20, 60, 150, 400])
        o, c = rng.choice([("(", ")"), ("[", "]"), ("$(", ")"), ("@(", ")"), ("![", "]"), ("!(", ")"), ("{", "}"), ("(ls && ", ")"), ("$(echo ", ")")])
        body = rng.choice(["x", "ls -l", "", "echo a b"])
        s = o * d + body + c * (d if rng.random() < 0.6 else rng.randrange(d + 1))
        return rng.choice(["", "ls ", "echo ", "x = "]) + s
    if kind == 6:  # many lines / long chains / deep blocks
        r = rng.random()
        if r < 0.35:
            return "\n".join(rng.choice(["ls -l x", "echo a b", "x = 1", "ls --color=auto", "t0 a && t1 b", "  ls", "pass", "echo 'q"]) for _ in range(rng.randint(5, 40))) + "\n"
        if r < 0.7:
            return (" " + rng.choice(OPS) + " ").join(rng.choice(["ls -l", "echo a", "t0 --b=c", "(ls x)", "![t0]", "t1 a \\\n b"]) for _ in range(rng.randint(5, 60)))
        d = rng.randint(5, 40)
        return "".join(" " * i + "if True:\n" for i in range(d)) + " " * d + rng.choice(["ls -l x", "echo a && echo --b=c", "t0 \\\n a"]) + "\n"
    # kind 7: continuation / triple-quote stress
    parts = ["echo a \\", "  b \\", "'''", '"""', "x = '''a", "b'''", "ls \\", "# c \\", "  && ls \\", "", "   ", "\\", "echo 'x \\", "y'", "![ls \\", "]", "(ls \\", ")"]
    return "\n".join(rng.choice(parts) for _ in range(rng.randint(1, 12))) + rng.choice(["", "\n"])


def stream_any_string(ctx, n, name="any-string"):
    ctx.stream_rule(
        name,
        "arbitrary input strings — bracket/operator soup, random bytes decoded with surrogateescape, printable noise, well-formed programs "
        "damaged by deletions / insertions / truncation, nesting to depth 400, many-line scripts, 60-operand chains, 40-deep blocks, "
        "continuation and triple-quote fragments — are compiled (Execer.compile, mode exec, loaded session) in a forked child with a "
        "per-item wall-clock limit: the outcome must be a code object or a SyntaxError; a hang (child killed) or any other exception is "
        "a failure with that input; non-trivial = the input is not valid Python as written",
    )
    session()
    common.scratch_root()
    CH = 100
    limit = 20
    done = 0
    while done < n and not ctx.enough_failures():
        items = [gen_any_string(ctx.rng, done + i) for i in range(min(CH, n - done))]
        res = common.map_in_child(_parse_codes, [codes(s) for s in items], per_item_timeout=limit, label="c03-parse")
        for k, (s, r) in enumerate(zip(items, res)):
            ctx.case(name, codes(s), not pyparsable_whole_safe(s), {"input": s.encode("utf-8", "surrogateescape").decode("latin-1")} if done + k < 3 else None)
            ctx.count(f"{name}/kind={(done + k) % 8}")
            judge_parse(ctx, name, s, r)
        done += len(items)


def _parse_codes(cs):
    return _parse_only(uncodes(cs))


def _completer_parse(item):
    """must-pass witness of a repaired hang outside the execer: the tolerant lexer behind tab completion"""
    _child_init()
    from xonsh.parsers.completion_context import CompletionContextParser

    text, cursor = item
    return {"returned": repr(CompletionContextParser().parse(text, cursor))[:120]}


def _empty_wrap_probe(cs):
    """the mechanism test for the known hang: run the compilation for a few seconds with execer.subproc_toks observed; does it hand back
    lines with an EMPTY or CROSSING wrap (no `line[:b] + '![' + line[b:e] + ']' + line[e:]` with b < e explains the result — the case the
    Lean wrap theorem excludes by `beg ≤ end`), and do those lines keep growing?"""
    import signal

    import xonsh.execer as xe

    S = session()
    _child_init()
    src = uncodes(cs)
    seen = {"bad": 0, "lens": []}
    orig = xe.subproc_toks

    def spy(line, *a, **kw):
        r = orig(line, *a, **kw)
        if isinstance(r, str) and kw.get("returnline"):
            ok = False
            for b in range(len(line) + 1):
                if r.startswith(line[:b] + "!["):
                    rest = r[b + 2 :]
                    if any(rest == line[b:e] + "]" + line[e:] for e in range(b + 1, len(line) + 1)):
                        ok = True
                        break
            if not ok:
                seen["bad"] += 1
                seen["lens"].append(len(r))
        return r

    def stop(*_):
        raise TimeoutError

    xe.subproc_toks = spy
    signal.signal(signal.SIGALRM, stop)
    signal.alarm(5)
    try:
        S["execer"].compile(src, glbs={}, locs={}, mode="exec", filename="<c03>")
    except BaseException:  # noqa: BLE001
        pass
    finally:
        signal.alarm(0)
        xe.subproc_toks = orig
    lens = seen["lens"]
    return {"empty_or_crossing_wraps": seen["bad"], "growing": len(lens) >= 4 and all(x < y for x, y in zip(lens[-4:], lens[-3:])), "last_lengths": lens[-6:]}


def pyparsable_whole_safe(s):
    try:
        return pyparsable_whole(s)
    except Exception:  # noqa: BLE001
        return False


def judge_parse(ctx, name, s, r):
    shown = s.encode("utf-8", "surrogateescape").decode("latin-1")
    case = {"stream": name, "input_codes": codes(s), "input_latin1": shown}
    if r == common.HANG:
        ctx.count(f"{name}/HANG")
        key = None
        probe = common.map_in_child(_empty_wrap_probe, [codes(s)], per_item_timeout=40, label="c03-probe")[0]
        for f in ctx.known:
            if f.get("status") == "open" and f.get("outcome") == "hang" and isinstance(probe, dict) and probe.get("empty_or_crossing_wraps", 0) >= 4 and probe.get("growing"):
                key = f["key"]
        ctx.spec_failure(case, {"outcome": "no answer within the time limit (child killed)", "mechanism_probe": probe}, "detection does not terminate in time on this input", key)
        return
    if isinstance(r, dict) and "__exc__" in r:
        raise common.InfraError(f"C03 parse worker failed on {shown!r}: {r['__exc__'][-600:]}")
    ctx.count(f"{name}/" + ("program" if r["compiled"] else (r["exc"][0] if r["exc"] else "empty")))
    ctx.extra["max_parse_s"] = max(ctx.extra.get("max_parse_s", 0), r["parse_s"])
    if r["exc"] and r["exc"][0] == "internal":
        key = None
        for f in ctx.known:
            if f.get("status") == "open" and f.get("internal_error_prefix") and r["exc"][1].startswith(f["internal_error_prefix"]) and internal_trigger(f, s):
                key = f["key"]
        ctx.spec_failure(case, {"exception": r["exc"][1]}, "the execer raises an internal exception instead of returning a program or a SyntaxError", key)


def internal_trigger(f, s):
    t = f.get("trigger")
    if t == "lone-surrogate":
        return any(0xD800 <= ord(c) <= 0xDFFF for c in s)
    if t == "nul":
        return "\x00" in s
    if t == "deep-nesting":
        return max_depth(s) >= 90
    if t == "stray-rbracket":
        import re

        return any(re.match(r"\s*(!\[\])*\]", ln) for ln in s.split("\n"))
    if t == "for-target":
        import re

        return any(re.search(r"\bfor\b[^\n]*\bin\b", ln) for ln in s.split("\n"))
    if t == "comma":
        return any("," in ln.split("#")[0] for ln in s.split("\n"))
    if t == "star-before-bang":
        import re

        return any(re.search(r"\*[^\n]*!(?![=\[(])", ln.split("#")[0]) for ln in s.split("\n"))
    return False


def max_depth(s):
    d = m = 0
    for c in s:
        if c in "([{":
            d += 1
            m = max(m, d)
        elif c in ")]}":
            d = max(0, d - 1)
    return m


# ====================================================================================== correspondence: logical lines
LL_ALPHA = ["a", "b", "r", "f", "R", "_", "1", " ", " ", "  ", "'", '"', "'''", '"""', "\\", "\\\\", "#", "x = ", "echo ", "\\'", '\\"', ";", "(", ")"]


def gen_ll_line(rng):
    s = "".join(rng.choice(LL_ALPHA) for _ in range(rng.choice([0, 1, 2, 3, 4, 6, 9])))
    k = rng.random()
    if k < 0.35:
        s += rng.choice([" \\", "\\", "  \\"])
    elif k < 0.42:
        s += "# c \\"
    return s.replace("\n", "")


def stream_logical(ctx, n, name="logical-lines"):
    ctx.stream_rule(
        name,
        "random lists of 1-7 physical lines over an alphabet of letters, string prefixes, blanks, both quotes, triple quotes, "
        "backslashes, escaped quotes, `#`, with trailing backslashes (35%) and backslashes inside comments: the real "
        "tools.get_logical_line(lines, idx) for every idx, tools.replace_logical_line with what get returned, with that text wrapped "
        "in ![ ] at random offsets, and with random (logical, idx, n), tools._ends_with_line_continuation and "
        "tools._have_open_triple_quotes on every line / joined prefix, are compared with the Lean model; non-trivial = the logical "
        "line spans more than one physical line",
    )
    common.setup_repo_imports()
    session()
    from xonsh import tools

    for k in range(n):
        lines = [gen_ll_line(ctx.rng) for _ in range(ctx.rng.randint(1, 7))]
        cl = [codes(l) for l in lines]
        # scanners
        for s in lines + ["\n".join(lines[: i + 1]) for i in range(len(lines))]:
            a = bool(tools._ends_with_line_continuation(s, "\\"))
            m = ctx.driver.call("c03.cont", codes(s))
            if a != m:
                ctx.disagree(name, {"fn": "_ends_with_line_continuation", "s": s}, a, m)
            o = tools._have_open_triple_quotes(s)
            mo = ctx.driver.call("c03.open3", codes(s))
            if (None if not o else ord(o[0])) != (None if mo is None else mo[1]):
                ctx.disagree(name, {"fn": "_have_open_triple_quotes", "s": s}, o, mo)
            ctx.count(f"{name}/scanner-evaluations", 2)
        for idx in range(len(lines)):
            line, nl, start = tools.get_logical_line(list(lines), idx)
            m = ctx.driver.call("c03.logical", cl, idx)
            ctx.case(name, (tuple(lines), idx), nl > 1, {"lines": lines, "idx": idx, "logical": [line, nl, start]} if k < 2 else None)
            if m is None or [uncodes(m[1][0]), m[1][1], m[1][2]] != [line, nl, start]:
                ctx.disagree(name, {"fn": "get_logical_line", "lines": lines, "idx": idx}, [line, nl, start], m)
                continue
            ctx.count(f"{name}/window-size={min(nl, 4)}{'+' if nl >= 4 else ''}")
            if not (start <= idx < start + nl):
                ctx.count(f"{name}/window-misses-the-index (scans disagree; C03_get_window_cex)")
            # replace with what get returned, and with a wrapped version of it
            cands = [(line, start, nl)]
            if line:
                i = ctx.rng.randrange(len(line) + 1)
                j = ctx.rng.randrange(i, len(line) + 1)
                cands.append((line[:i] + "![" + line[i:j] + "]" + line[j:], start, nl))
            cands.append(("".join(ctx.rng.choice(LL_ALPHA) for _ in range(ctx.rng.randint(0, 12))), ctx.rng.randrange(len(lines) + 1), ctx.rng.randint(1, 4)))
            for logical, i0, n0 in cands:
                real = list(lines)
                try:
                    tools.replace_logical_line(real, logical, i0, n0)
                except IndexError:
                    real = None
                mm = ctx.driver.call("c03.replace", cl, codes(logical), i0, n0)
                mm = None if mm is None else [uncodes(x) for x in mm[1]]
                ctx.case(name, (tuple(lines), logical, i0, n0), n0 > 1)
                if real != mm:
                    ctx.disagree(name, {"fn": "replace_logical_line", "lines": lines, "logical": logical, "idx": i0, "n": n0}, real, mm)
        if len(ctx.disagreements) > 20:
            break


# ====================================================================================== correspondence: the wrap of subproc_toks
def stream_wrap(ctx, n, name="wrap-windows"):
    ctx.stream_rule(
        name,
        "generated one-line command texts (with indentation, `;`, comments, chains, groups, already wrapped parts) and column windows "
        "taken from token boundaries, token boundaries ±1, find_next_break and None, greedy and not: the real "
        "tools.subproc_toks(line, mincol, maxcol, returnline=True/False) result must be line[:beg] + '![' + line[beg:end] + ']' + line[end:] "
        "for some beg ≤ end ≤ len(line) — equal to the Lean wrap for those offsets — with beg at the start and end at the (right-"
        "stripped) end of a token of the real lexer: no token is split; non-trivial = the wrap is a proper part of the line",
    )
    common.setup_repo_imports()
    S = session()
    from xonsh import tools

    lexer = S["execer"].parser.lexer
    for k in range(n):
        g = G(ctx.rng, ctx.rng.choice([0, 1, 2]), 0.0)
        st = g.statement(0)
        line = ctx.rng.choice(["", "", "  ", "    ", "\t"]) + render_stmt(st, "", ctx.rng.random() < 0.25)
        if "\n" in line:
            continue
        try:
            lexer.reset()
            lexer.input(line, is_subproc=True)
            toks = [(t.type, t.value if isinstance(t.value, str) else str(t.value), tools._abs_lexpos(line, t)) for t in lexer]
        except Exception:  # noqa: BLE001
            continue
        real = [(ty, v, p) for ty, v, p in toks if ty not in ("NEWLINE", "INDENT", "DEDENT", "WS", "ENDMARKER") and v.strip()]
        if not real:
            continue
        starts = [p for _, _, p in real]
        ends = [p + len(v.rstrip()) for _, v, p in real]
        spans = list(zip(starts, ends))
        # windows as the execer / CtxAwareTransformer make them: phase 1 = (default mincol, find_next_break from an error column — a token
        # start — or None); phase 2 = (start of a word - 1, end of a word + 1, or + 0 before `;`)
        # phase-2 windows bracket one bare operand (a whole pipeline segment) exactly as CtxAwareTransformer._column_window does
        operands = []
        for it in list(flat(st["cmd"])) + (list(flat(st["cmd2"])) if st["pos"] == "cmd;cmd" else []):
            if it[0] == "seg" and it[2][2] == "bare":
                txt = "".join(rsep(sp, "") + t for sp, t in it[2][1])
                if line.count(txt) == 1 and not inside_wrapped(line, line.find(txt)):
                    operands.append((line.find(txt), line.find(txt) + len(txt)))
        phase2 = ctx.rng.random() < 0.5 and operands
        if not phase2:
            mincol = -1
            greedy = ctx.rng.random() < 0.3
            maxcol = None if greedy else ctx.rng.choice([None, tools.find_next_break(line, mincol=ctx.rng.choice(starts), lexer=lexer)])
            ctx.count(f"{name}/phase-1-window")
        else:
            a, b = ctx.rng.choice(operands)
            mincol = max(a - 1, 0)
            maxcol = b if (b < len(line) and line[b] == ";") else b + 1
            greedy = False
            try:
                if tools.subproc_toks(line, mincol=mincol, maxcol=maxcol, returnline=False, lexer=lexer) is None:
                    greedy = True  # as try_subproc_toks does
            except Exception:  # noqa: BLE001
                pass
            ctx.count(f"{name}/phase-2-window")
        try:
            rl = tools.subproc_toks(line, mincol=mincol, maxcol=maxcol, returnline=True, greedy=greedy, lexer=lexer)
            ro = tools.subproc_toks(line, mincol=mincol, maxcol=maxcol, returnline=False, greedy=greedy, lexer=lexer)
        except Exception as e:  # noqa: BLE001
            ctx.spec_failure({"stream": name, "line": line, "mincol": mincol, "maxcol": maxcol, "greedy": greedy}, {"exception": f"{type(e).__name__}: {e}"},
                             "subproc_toks raises on a token window", None)
            continue
        case = {"stream": name, "line": line, "mincol": mincol, "maxcol": maxcol, "greedy": greedy}
        if rl is None:
            ctx.case(name, (line, mincol, maxcol, greedy), False)
            ctx.count(f"{name}/no-wrap")
            if ro is not None:
                ctx.disagree(name, case, [rl, ro], "returnline=True gives None but returnline=False does not")
            continue
        sols = []
        for beg in range(len(line) + 1):
            if rl.startswith(line[:beg] + "!["):
                rest = rl[beg + 2 :]
                for end in range(len(line) + 1):
                    if rest == (line[beg:end] if end >= beg else "") + "]" + line[end:]:
                        sols.append((beg, end))
        good = [(x, y) for x, y in sols if x <= y]
        # `]` right after the wrapped part makes the decomposition ambiguous: keep those that also explain returnline=False and the rstrip
        good = [(x, y) for x, y in good if ro == "![" + line[x:y] + "]" and (y == x or not line[y - 1].isspace())] or good
        ctx.case(name, (line, mincol, maxcol, greedy), bool(good) and good[0] != (0, len(line)), case | {"result": rl} if k < 3 else None)
        if not good:
            ctx.count(f"{name}/not-a-wrap-of-the-line")
            ctx.spec_failure(case, {"returned": rl, "crossing_solutions": sols}, "subproc_toks does not return the line with one `![`…`]` inserted around a part of it", wrap_key(ctx, line, mincol, maxcol, rl))
            continue
        aligned = [(x, y) for x, y in good if not any(p0 < x < e0 or p0 < y < e0 for p0, e0 in spans)]
        beg, end = (aligned or good)[0]
        m = ctx.driver.call("c03.wrap", codes(line), beg, end)
        if uncodes(m[0]) != rl or uncodes(m[1]) != ro or m[2] != end or uncodes(m[3]) != line:
            ctx.disagree(name, case | {"beg": beg, "end": end}, [rl, ro], [uncodes(m[0]), uncodes(m[1]), m[2], uncodes(m[3])])
        if not aligned:
            ctx.count(f"{name}/token-split")
            ctx.spec_failure(case, {"returned": rl, "beg": beg, "end": end, "token_starts": starts, "token_ends": ends},
                             "the inserted `![` / `]` splits a token of the line", wrap_key(ctx, line, mincol, maxcol, rl))
        else:
            ctx.count(f"{name}/wrap-ok")


def inside_wrapped(line, pos):
    """is offset `pos` inside an (already written) ![ … ] / $[ … ] region?"""
    depth, i, q = 0, 0, None
    while i < pos:
        c = line[i]
        if q:
            if c == q:
                q = None
        elif c in "'\"":
            q = c
        elif line.startswith(("![", "$["), i):
            depth += 1
            i += 1
        elif c == "[" and depth:
            depth += 1
        elif c == "]" and depth:
            depth -= 1
        i += 1
    return depth > 0


def wrap_key(ctx, line, mincol, maxcol, rl):
    """the one known way a realistic window splits a token: find_next_break / subproc_toks stop at an and/or inside @( ) / $( )"""
    return K_BOOL_IN_SUB if has_bool_in_sub(line) else None


# ====================================================================================== known findings, run, search, replay
def replay_known(ctx):
    for f in ctx.known:
        w = f["witness"]
        if "bare" in w:
            pair = {"bare": w["bare"], "expl": w["explicit"]}
            rs = run_pairs([pair])
            v = verdict(rs[0])
            fails = v in ("DIFF", "INTERNAL", "HANG")
            detail = rs[0] if rs[0] == common.HANG or "__exc__" in rs[0] else {"bare": {k: rs[0]["bare"][k] for k in ("log", "exc")}, "explicit": {k: rs[0]["expl"][k] for k in ("log", "exc")}}
            ctx.replayed(f["key"], fails, detail)
            if fails:  # an open finding is reported under its key; a repaired one that fails again is a regression (no key)
                ctx.spec_failure({"stream": "known-witness", **w}, detail, f["what"], f["key"] if f.get("status") == "open" else None)
        elif "completer_parse" in w:
            session()
            common.scratch_root()
            r = common.map_in_child(_completer_parse, [w["completer_parse"]], per_item_timeout=20, label="c03-completer")[0]
            fails = r == common.HANG or (isinstance(r, dict) and "__exc__" in r)
            ctx.replayed(f["key"], fails, "no answer within 20 s (child killed)" if r == common.HANG else r)
            if fails:
                ctx.spec_failure({"stream": "known-witness", **w}, "CompletionContextParser.parse does not return" if r == common.HANG else r, f["what"],
                                 f["key"] if f.get("status") == "open" else None)
        elif "input_codes" in w or "input_text" in w:
            session()
            common.scratch_root()
            r = common.map_in_child(_parse_codes, [w.get("input_codes") or codes(w["input_text"])], per_item_timeout=30, label="c03-parse")[0]
            fails = r == common.HANG or bool(r.get("exc") and r["exc"][0] == "internal")
            ctx.replayed(f["key"], fails, "no answer within 30 s (child killed)" if r == common.HANG else r)
            if fails:
                ctx.spec_failure({"stream": "known-witness", **w}, r, f["what"], f["key"] if f.get("status") == "open" else None)


def translate(ctx):
    from translator import c03 as tr

    text, fps, errors = tr.generate(common.REPO)
    common.write_if_changed(common.module_path("XonshVerif.Gen.TryParse"), text)
    ctx.fingerprints.update(fps)
    ctx.translator_errors += errors
    ctx.trusted_base.append("translator/c03.py (control skeleton of Execer._parse_ctx_free/_try_parse: counter test, decrement, writes, continue/raise/return, try/except, calls, guarded recursion)")


def run(ctx):
    ctx.trusted_base += [
        "PLY LALR engine, xonsh grammar actions and lexer: NOT modelled (opaque in the termination theorem; the bare≡explicit clause is differential search)",
        "xv/props/c03.py: generator, hand-wrapping of segments, recording aliases, trace comparison",
    ]
    ctx.assumptions += [
        "each callee of the recovery loop (parser.parse, subproc_toks, get_logical_line, find_next_break, replace_logical_line) returns — checked end-to-end only by the wall-clock stream",
        "command names are unbound aliases recording argv / stdin / exit code; $XONSH_SUBPROC_RAISE_ERROR=False; `$XV`, `pv` are the only variables used by words",
        "logical-line correspondence inputs are ASCII (the Lean scanners do not model str.isalnum on non-ASCII letters)",
    ]
    ctx.explanation = (
        "PROVED: Props/C03.lean over Model/TrySkel.lean + Gen/TryParse.lean (regenerated skeleton, Lemmas/TrySkel.lean), Model/LogicalLine.lean, "
        "Model/Wrap.lean. TIED: streams logical-lines, wrap-windows (real xonsh.tools functions vs the Lean definitions). SEARCHED (not "
        "proved): streams clean-grammar / full-grammar (bare vs explicit traces on the real Execer) and any-string (program or SyntaxError "
        "within the time limit)."
    )
    replay_known(ctx)
    stream_logical(ctx, ctx.n(250, 4000))
    stream_wrap(ctx, ctx.n(1200, 20000))
    stream_diff(ctx, ctx.n(900, 14000), "clean-grammar", clean=True)
    stream_diff(ctx, ctx.n(240, 3000), "full-grammar", clean=False)
    stream_long(ctx, ctx.n(16, 200))
    stream_comment_corners(ctx, ctx.n(120, 1500))
    stream_any_string(ctx, ctx.n(800, 12000))


def search(ctx, reason):
    ctx.extra["search_reason"] = reason
    stream_comment_corners(ctx, ctx.n(400, 1500), name="search:comment-after-literal")
    stream_long(ctx, ctx.n(30, 200), name="search:long-scripts")
    stream_diff(ctx, ctx.n(1500, 6000), "search:clean-grammar", clean=True)
    stream_any_string(ctx, ctx.n(1500, 6000), name="search:any-string")


def replay(ctx, path):
    r = json.loads(open(path).read())
    c = r["case"]
    if "bare" in c:
        res = run_pairs([{"bare": c["bare"], "expl": c["explicit"]}])[0]
        v = verdict(res)
        print("bare source:\n" + c["bare"])
        print("explicit source:\n" + c["explicit"])
        if res == common.HANG:
            print("no answer within the time limit")
        else:
            print("bare     ->", res["bare"]["log"], res["bare"]["files"], res["bare"]["exc"])
            print("explicit ->", res["expl"]["log"], res["expl"]["files"], res["expl"]["exc"])
        bad = v in ("DIFF", "HANG", "INTERNAL")
    elif "input_codes" in c:
        session()
        common.scratch_root()
        res = common.map_in_child(_parse_codes, [c["input_codes"]], per_item_timeout=30, label="c03-parse")[0]
        print("input:", repr(uncodes(c["input_codes"]).encode("utf-8", "surrogateescape")))
        print("outcome:", res)
        bad = res == common.HANG or bool(res.get("exc") and res["exc"][0] == "internal")
    else:
        print("re-run ./check C03 with the same seed for this stream")
        return common.EXIT_INFRA
    print(f"VIOLATION property={ID} replay={path}" if bad else "property holds on this input")
    return common.EXIT_VIOLATION if bad else common.EXIT_OK
