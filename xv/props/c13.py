"""C13 — A crash or I/O failure while saving history never damages what was already saved."""

from __future__ import annotations

import contextlib
import io
import json
import os
import shutil
import time
import types
import uuid

from .. import common
from ..codec import Sym

ID = "C13"
LEVEL = "proof"
PROPS_MODULES = ["XonshVerif.Props.C13"]
TECHNIQUE = "Lean 4 proof (induction over file-system traces: every crash prefix and partial-write length) + run-time trace capture of the real operations checked against the proved discipline + real crash/fault injection at every event"
LEVEL_TEXT = (
    "proof: C13_atomic — for EVERY file-system trace obeying the discipline (saved history files are never opened for writing, "
    "written, unlinked or moved; they change only by an atomic rename of a CLOSED file onto them), EVERY crash point and EVERY "
    "partial-write length, each saved file holds its complete previous content or the complete content of the renamed file; "
    "C13_never_lost — it never disappears. The tie captures the file-system trace of the REAL flush / delete / erasedups / "
    "stale-lock unlock operations at run time (proxied open/fdopen/replace/unlink/mkstemp), has Lean evaluate the discipline on it, "
    "validates the model's crash semantics byte-for-byte against real crash injection (fork + _exit at every event and several "
    "partial-write lengths), and injects a failing OSError at every single file-system call."
)
LEVEL_NOTE = (
    "Trusted: Lean kernel + standard axioms; the tracing proxies (they flush every write so that the byte stream the model sees is "
    "the one on disk); os.replace is atomic and the OS does not reorder metadata and data of a closed file (no fsync modelling); "
    "SQLite's own transactions (WAL) are trusted, only exercised. Loadability of a complete file is C12's index theorem + LazyJSON."
)


# ------------------------------------------------------------------ tracing proxies
class Crash(Exception):
    pass


class Tracer:
    """records the file-system events of one operation; can die at event k (after j bytes of a write) or make event k fail"""

    def __init__(self, crash_at=None, partial=None, fail_at=None, flush=True):
        self.events = []  # (kind, path[, bytes | dst])
        self.crash_at, self.partial, self.fail_at, self.flush = crash_at, partial, fail_at, flush
        self.fd_path = {}

    def ev(self, kind, path, extra=None):
        k = len(self.events)
        self.events.append((kind, path, extra))
        if self.crash_at == k and kind != "write":
            os._exit(17)
        if self.fail_at == k:
            self.events[-1] = ("failed-" + kind, path, extra)
            raise OSError(28, "No space left on device (injected)")
        return k

    # -- replacements installed into the module under test
    def open(self, path, mode="r", *a, **kw):
        if any(c in mode for c in "wa+x"):
            self.ev("create", os.fspath(path))
            f = open(path, mode, *a, **kw)
            return PFile(self, f, os.fspath(path))
        # opening for READING is an event too: it can fail transiently (EIO, EMFILE), and the operation must then not go
        # on to rewrite a file it could not read
        self.ev("readopen", os.fspath(path))
        return open(path, mode, *a, **kw)

    def mkstemp(self, *a, **kw):
        import tempfile

        fd, name = tempfile.mkstemp(*a, **kw)
        try:
            self.ev("create", name)
        except OSError:
            os.close(fd)
            os.unlink(name)
            raise
        self.fd_path[fd] = name
        return fd, name

    def fdopen(self, fd, mode="r", *a, **kw):
        f = os.fdopen(fd, mode, *a, **kw)
        return PFile(self, f, self.fd_path.get(fd, f"<fd {fd}>"))

    def replace(self, a, b):
        self.ev("rename", os.fspath(a), os.fspath(b))
        return os.replace(a, b)

    def unlink(self, p):
        self.ev("unlink", os.fspath(p))
        return os.unlink(p)


class PFile:
    def __init__(self, tr, f, path):
        self._tr, self._f, self._path = tr, f, path

    def write(self, s):
        data = s.encode("utf-8") if isinstance(s, str) else bytes(s)
        k = len(self._tr.events)
        if self._tr.crash_at == k:
            j = min(self._tr.partial or 0, len(data))
            part = data[:j]
            if isinstance(s, str):
                self._f.buffer.write(part) if hasattr(self._f, "buffer") else self._f.write(part.decode("utf-8", "ignore"))
            else:
                self._f.write(part)
            self._f.flush()
            os._exit(17)
        self._tr.ev("write", self._path, data)
        n = self._f.write(s)
        if self._tr.flush:
            self._f.flush()
        return n

    def close(self):
        if not self._f.closed:
            self._tr.ev("close", self._path)
        return self._f.close()

    def __enter__(self):
        return self

    def __exit__(self, *a):
        self.close()
        return False

    def __getattr__(self, n):
        return getattr(self._f, n)


@contextlib.contextmanager
def traced(hj, tr):
    """install the proxies into xonsh.history.json (its `open`, `os.*`, `tempfile.mkstemp`)"""
    real_os, real_tempfile = hj.os, hj.tempfile
    os_proxy = types.SimpleNamespace(**{n: getattr(real_os, n) for n in dir(real_os) if not n.startswith("__")})
    os_proxy.fdopen, os_proxy.replace, os_proxy.unlink, os_proxy.remove, os_proxy.rename = tr.fdopen, tr.replace, tr.unlink, tr.unlink, tr.replace
    tf_proxy = types.SimpleNamespace(**{n: getattr(real_tempfile, n) for n in dir(real_tempfile) if not n.startswith("__")})
    tf_proxy.mkstemp = tr.mkstemp
    hj.os, hj.tempfile, hj.open = os_proxy, tf_proxy, tr.open
    hj.xlj.open = tr.open  # LazyJSON(path) opens the file itself
    try:
        yield
    finally:
        hj.os, hj.tempfile = real_os, real_tempfile
        del hj.open
        del hj.xlj.open


# ------------------------------------------------------------------ scenarios
def _hj():
    common.setup_repo_imports()
    import xonsh.history.json as hj

    return hj


def write_hist(hj, path, inps, ts0, locked=False, ts1=None):
    import xonsh.lib.lazyjson as xlj

    cmds = [{"inp": s, "rtn": 0, "ts": [ts0 + i, ts0 + i + 0.5]} for i, s in enumerate(inps)]
    with open(path, "w", newline="\n", encoding="utf-8") as fp:
        xlj.ljdump({"cmds": cmds, "ts": [ts0, ts1 if ts1 is not None else ts0 + 100], "locked": locked, "sessionid": "s"}, fp, sort_keys=True)


SCENARIOS = ["flush", "flush-at-exit", "delete", "erasedups", "unlock"]


def setup_scenario(hj, name, root, variant):
    """create the initial data dir; returns (operation thunk, list of saved history files)"""
    from xonsh.built_ins import XSH
    from xonsh.environ import Env

    hdir = os.path.join(root, "history_json")
    os.makedirs(hdir)
    XSH.env = Env(XONSH_DATA_DIR=root, XONSH_DEBUG=0, HISTCONTROL="", XONSH_STORE_STDOUT=False)
    XSH.history = None
    base = 1_700_000_000.0
    hj.uptime.boottime = lambda: base + 5000
    # a fixed clock: the clean run and every crash run write byte-identical files
    hj.time = types.SimpleNamespace(time=lambda: base + 9000.0, sleep=time.sleep)
    big = "x" * (300 * variant)  # larger payloads move the write sizes around
    files = []

    def fn(i):
        return os.path.join(hdir, f"xonsh-0000000{i}-0000-0000-0000-000000000000.json")

    if name in ("flush", "flush-at-exit"):
        write_hist(hj, fn(1), ["saved one " + big, "saved two", "saved threé 日本"], base + 6000)
        files = [fn(1)]

        def op():
            import collections
            import threading

            buf = tuple({"inp": f"new {i}", "rtn": 0, "ts": [base + 7000 + i, base + 7000.5 + i]} for i in range(2 + variant))
            q = collections.deque()
            hf = hj.JsonHistoryFlusher(fn(1), buf, q, threading.Condition(), at_exit=(name == "flush-at-exit"), skip=None)
            if name == "flush":
                hf.join(60)

    elif name == "delete":
        write_hist(hj, fn(1), ["ls", "rm secret " + big, "echo a"], base + 6000)
        write_hist(hj, fn(2), ["rm secret", "rm secret2"], base + 6100)
        write_hist(hj, fn(3), ["echo keep"], base + 6200)
        files = [fn(1), fn(2), fn(3)]

        def op():
            h = hj.JsonHistory(filename=fn(3), gc=False)
            h.delete("rm secret")

    elif name == "erasedups":
        write_hist(hj, fn(1), ["ls", "ls", "echo a " + big], base + 6000)
        write_hist(hj, fn(2), ["ls", "pwd", "pwd"], base + 6100)
        files = [fn(1), fn(2)]

        def op():
            h = hj.JsonHistory(filename=fn(2), gc=False)
            h.erasedups()

    elif name == "unlock":
        # a file locked by a session that started before the last boot: GC enumeration unlocks it
        write_hist(hj, fn(1), [f"cmd {i} " + big for i in range(5)], base + 100, locked=True)
        write_hist(hj, fn(2), ["other"], base + 6000)
        files = [fn(1), fn(2)]

        def op():
            gc = hj.JsonHistoryGC(wait_for_shell=False, size=(10000, "commands"), force=False)
            gc.join(60)

    else:
        raise common.InfraError(name)
    return op, files


def load_inps(path):
    """the commands a user gets back from a history file (None = unloadable)"""
    import xonsh.lib.lazyjson as xlj

    try:
        with open(path, newline="\n", encoding="utf-8") as f:
            d = xlj.LazyJSON(f).load()
        return [c["inp"] for c in d["cmds"]]
    except Exception:  # noqa: BLE001
        return None


def run_traced(hj, name, variant, crash_at=None, partial=None, fail_at=None, flush=True):
    """runs one scenario in a fresh scratch dir; returns (root, files, events) — in a crash run this only returns in the parent"""
    root = str(common.scratch_root() / f"c13-{uuid.uuid4().hex[:8]}")
    os.makedirs(root)
    op, files = setup_scenario(hj, name, root, variant)
    old = {f: open(f, "rb").read() for f in files}
    tr = Tracer(crash_at, partial, fail_at, flush)
    if crash_at is not None:
        pid = os.fork()
        if pid == 0:
            try:
                with traced(hj, tr), contextlib.redirect_stdout(io.StringIO()), contextlib.redirect_stderr(io.StringIO()):
                    op()
            finally:
                os._exit(0)
        os.waitpid(pid, 0)
        return root, files, old, None
    with traced(hj, tr), contextlib.redirect_stdout(io.StringIO()), contextlib.redirect_stderr(io.StringIO()):
        try:
            op()
        except OSError:
            pass  # an injected failure may legitimately propagate; the disk state is what is judged
    return root, files, old, tr.events


def to_model(events, files):
    """events -> (path-id map, sexp trace)"""
    ids = {f: i + 1 for i, f in enumerate(files)}
    out = []
    for kind, path, extra in events:
        if kind.startswith("failed-") or kind == "readopen":
            continue  # (reads are not part of the write discipline the Lean trace model judges)
        pid = ids.setdefault(path, len(ids) + 1)
        if kind == "write":
            out.append([Sym("write"), pid, list(extra)])
        elif kind == "rename":
            out.append([Sym("rename"), pid, ids.setdefault(extra, len(ids) + 1)])
        else:
            out.append([Sym(kind), pid])
    return ids, out


def judge(files, old, new_inps):
    """the property on the real disk: every saved file is loadable and holds its old or its new commands"""
    bad = []
    for f in files:
        if not os.path.exists(f):
            bad.append((f, "the saved history file is gone"))
            continue
        got = load_inps(f)
        old_inps = old_inps_of(old[f])
        if got is None:
            bad.append((f, f"unloadable ({os.path.getsize(f)} bytes on disk, {len(old_inps)} commands were saved in it)"))
        elif got != old_inps and got != new_inps[f]:
            bad.append((f, f"holds {len(got)} commands: neither the previous {len(old_inps)} nor the new {len(new_inps[f])}"))
    return bad


_old_cache = {}


def old_inps_of(data):
    key = hash(data)
    if key not in _old_cache:
        d = json.loads(data.decode("utf-8").split("\n", 1)[0]) if False else None
        # parse through LazyJSON's own reader via a temp file for fidelity
        p = str(common.scratch_root() / f"old-{uuid.uuid4().hex[:6]}.json")
        with open(p, "wb") as fp:
            fp.write(data)
        _old_cache[key] = load_inps(p)
        os.unlink(p)
        del d
    return _old_cache[key]


def short(f):
    return os.path.basename(f)[6:14]


def scenario(ctx, hj, name, variant, name_stream, exhaustive_partials):
    """trace + discipline + crash injection at every event + fault injection at every event"""
    root, files, old, events = run_traced(hj, name, variant)
    new_inps = {f: load_inps(f) for f in files}
    shutil.rmtree(root, ignore_errors=True)
    ids, trace = to_model(events, files)
    H = [ids[f] for f in files]
    disc = ctx.driver.call("c13.disc", H, trace)
    ctx.count(f"scenario/{name}/events={len(trace)}")
    ctx.count(f"discipline/{'ok' if disc else 'VIOLATED'}/{name}")
    sample = {"scenario": name, "variant": variant, "trace": [[str(e[0])] + [x if not isinstance(x, list) else f"<{len(x)} bytes>" for x in e[1:]] for e in trace], "protected": H, "discipline_ok": disc}
    ctx.case(name_stream, (name, variant, "trace"), True, sample)
    d0 = [[ids[f], list(old[f])] for f in files]
    worst = None
    # --- crash at every event boundary, and inside every write at several lengths
    for k in range(len(events) + 1):
        partials = [None]
        if k < len(events) and events[k][0] == "write":
            n = len(events[k][2])
            partials = sorted({0, 1, n // 2, n - 1, n}) if not exhaustive_partials else sorted({0, 1, 2, n // 3, n // 2, n - 2, n - 1, n})
        for j in partials:
            root, files2, old2, _ = run_traced(hj, name, variant, crash_at=k, partial=j)
            try:
                # (a) the model's crash semantics against the real disk, byte for byte, for the protected files
                mk = sum(1 for e in events[:k] if not (e[0].startswith("failed-") or e[0] == "readopen"))  # index in the model's trace
                pred = dict((p, bytes(b)) for p, b in ctx.driver.call("c13.crash", d0, trace, mk, j or 0))
                for f, f2 in zip(files, files2):
                    real = open(f2, "rb").read() if os.path.exists(f2) else None
                    if real != pred.get(ids[f]):
                        ctx.disagree(name_stream, {"scenario": name, "crash_at": k, "partial": j, "file": short(f)},
                                     f"{None if real is None else len(real)} bytes", f"{None if pred.get(ids[f]) is None else len(pred[ids[f]])} bytes")
                # (b) the property on the real disk
                bad = judge(files2, old2, {f2: new_inps[f] for f, f2 in zip(files, files2)})
                ctx.case(name_stream, (name, variant, k, j), True)
                ctx.count("crash-points")
                if bad and worst is None:
                    worst = (k, j, [(short(f), w) for f, w in bad])
            finally:
                shutil.rmtree(root, ignore_errors=True)
    # --- the same kill points with Python's own buffering left alone (data of an unclosed file is lost at the kill):
    #     this is where a rename that precedes the close shows on the real disk
    if worst is None:
        for k in range(len(events) + 1):
            root, files2, old2, _ = run_traced(hj, name, variant, crash_at=k, partial=None, flush=False)
            try:
                bad = judge(files2, old2, {f2: new_inps[f] for f, f2 in zip(files, files2)})
                ctx.case(name_stream, (name, variant, "unflushed", k), True)
                ctx.count("crash-points-unflushed")
                if bad and worst is None:
                    worst = (k, "unflushed", [(short(f), w) for f, w in bad])
            finally:
                shutil.rmtree(root, ignore_errors=True)
    if worst:
        k, j, bad = worst
        ev = events[k] if k < len(events) else ("end",)
        case = {"stream": name_stream, "scenario": name, "variant": variant, "crash_before_event": k, "event": [ev[0], short(ev[1]) if len(ev) > 1 else ""], "partial_bytes": j}
        key = "unlock-rewrites-in-place" if name == "unlock" and ev[0] in ("write", "close") and not disc else None
        ctx.spec_failure(case, {"damaged": bad, "discipline_ok": disc}, f"killed during `{name}`: a saved history file is damaged", key)
    elif not disc:
        # the discipline is violated but no crash point damaged a file in this scenario: still a broken tie
        ctx.disagree(name_stream, {"scenario": name, "trace": sample["trace"]}, "trace violates the discipline", "discOk = true expected")
    # --- a single failing file-system call
    for k in range(len(events)):
        root, files2, old2, ev2 = run_traced(hj, name, variant, fail_at=k)
        try:
            bad = judge(files2, old2, {f2: new_inps[f] for f, f2 in zip(files, files2)})
            ctx.case(name_stream, (name, variant, "fail", k), True)
            ctx.count("fault-points")
            if bad:
                case = {"stream": name_stream, "scenario": name, "variant": variant, "failing_event": k, "event": [events[k][0], short(events[k][1])]}
                key = "unlock-rewrites-in-place" if name == "unlock" and not disc else None
                if key is None and name in ("flush", "flush-at-exit") and events[k][0] == "readopen":
                    key = "flush-read-error-overwrites-history"
                ctx.spec_failure(case, {"damaged": [(short(f), w) for f, w in bad]}, f"an OSError from one file-system call during `{name}` damaged a saved history file", key)
                break
        finally:
            shutil.rmtree(root, ignore_errors=True)


def stream_disk_full(ctx, hj, name="disk-full-rlimit"):
    """the same scenarios with a REAL short-write condition: RLIMIT_FSIZE in a forked child (SIGXFSZ ignored), so that a
    write() returns a short count or EFBIG exactly as on a full disk / over quota; nothing is traced or proxied"""
    import resource
    import signal

    ctx.stream_rule(
        name,
        "scenarios flush / flush-at-exit / delete / erasedups / unlock run untraced in a forked child under RLIMIT_FSIZE = L for L "
        "in {0, 1, 64, 200, 500, n/2, n-1} (n = size of the largest file the operation writes), SIGXFSZ ignored: write() returns a "
        "short count or EFBIG as on a full disk; afterwards every saved history file must be loadable with its old or its new "
        "commands; non-trivial = every (scenario, limit)",
    )
    for sc in SCENARIOS:
        for v in ctx.n([0, 1], [0, 1, 3, 30]):
            root, files, old, _ = run_traced(hj, sc, v)
            new_inps = {f: load_inps(f) for f in files}
            n = max([os.path.getsize(f) for f in files if os.path.exists(f)] + [1])
            shutil.rmtree(root, ignore_errors=True)
            for lim in sorted({0, 1, 64, 200, 500, n // 2, n - 1}):
                root = str(common.scratch_root() / f"c13-{uuid.uuid4().hex[:8]}")
                os.makedirs(root)
                op, files2 = setup_scenario(hj, sc, root, v)
                old2 = {f: open(f, "rb").read() for f in files2}
                pid = os.fork()
                if pid == 0:
                    try:
                        signal.signal(signal.SIGXFSZ, signal.SIG_IGN)
                        resource.setrlimit(resource.RLIMIT_FSIZE, (lim, resource.getrlimit(resource.RLIMIT_FSIZE)[1]))
                        with contextlib.redirect_stdout(io.StringIO()), contextlib.redirect_stderr(io.StringIO()):
                            op()
                    except BaseException:  # noqa: BLE001
                        pass
                    finally:
                        os._exit(0)
                os.waitpid(pid, 0)
                try:
                    bad = judge(files2, old2, {f2: new_inps[f] for f, f2 in zip(files, files2)})
                    ctx.case(name, (sc, v, lim), True, {"scenario": sc, "variant": v, "limit": lim} if lim in (0, 64) else None)
                    ctx.count("disk-full-points")
                    if bad:
                        ctx.spec_failure({"stream": name, "scenario": sc, "variant": v, "file_size_limit": lim},
                                         {"damaged": [(short(f), w) for f, w in bad]},
                                         f"a short write (file size limit {lim}) during `{sc}` damaged a saved history file", None)
                        break
                finally:
                    shutil.rmtree(root, ignore_errors=True)


def stream_sqlite(ctx, n, name="sqlite-kill"):
    """SQLite: a child appending commands is killed at a random moment; the table must open and hold a prefix"""
    import signal
    import sqlite3
    import subprocess
    import sys

    ctx.stream_rule(
        name,
        "a child process appends commands to a scratch SQLite history through xh_sqlite_append_history and is SIGKILLed after a "
        "random delay; the database must open and hold exactly a prefix of the appended commands (SQLite's WAL transactions are "
        "trusted, not modelled); non-trivial = kill landed after at least one and before the last append",
    )
    child = (
        "import sys; sys.dont_write_bytecode=True; sys.path.insert(0, sys.argv[1])\n"
        "import warnings; warnings.simplefilter('ignore')\n"
        "import xonsh.history.sqlite as hs\n"
        "print('ready', flush=True)\n"
        "for i in range(100000):\n"
        "    hs.xh_sqlite_append_history({'inp': f'cmd {i}', 'rtn': 0, 'ts': (float(i), float(i)+.5), 'out': None, 'cwd': '/'}, 'sess', False, filename=sys.argv[2])\n"
    )
    for i in range(n):
        root = common.scratch_root() / f"sq-{uuid.uuid4().hex[:8]}"
        root.mkdir()
        fn = str(root / "h.sqlite")
        p = subprocess.Popen([sys.executable, "-c", child, str(common.REPO), fn], stdout=subprocess.PIPE, stderr=subprocess.DEVNULL, text=True)
        p.stdout.readline()
        time.sleep(ctx.rng.choice([0.01, 0.03, 0.06, 0.1, 0.15]))
        p.send_signal(signal.SIGKILL)
        p.wait()
        try:
            conn = sqlite3.connect(fn)
            rows = [r[0] for r in conn.execute("SELECT inp FROM xonsh_history ORDER BY tsb")]
            conn.close()
            ok = rows == [f"cmd {k}" for k in range(len(rows))]
            err = None
        except sqlite3.Error as e:
            rows, ok, err = [], False, str(e)
            if "no such table" in str(e):
                ok = True
        ctx.case(name, (i, len(rows)), len(rows) > 0, {"rows_after_kill": len(rows)})
        ctx.count("sqlite/rows>0" if rows else "sqlite/rows=0")
        if not ok:
            ctx.spec_failure({"stream": name, "rows": len(rows)}, {"error": err, "first_rows": rows[:5]}, "SQLite history damaged by a kill during append", None)
        shutil.rmtree(root, ignore_errors=True)


def stream_sqlite_ops(ctx, name="sqlite-kill-between-statements"):
    """multi-statement rewriting operations of the SQLite backend, killed after the n-th data-modifying statement"""
    import re
    import sqlite3

    common.setup_repo_imports()
    import xonsh.history.sqlite as hs

    ctx.stream_rule(
        name,
        "history delete (pattern matching several distinct inputs) and history erasedups on a scratch SQLite store of 14 commands "
        "in 3 sessions; a forked child is killed (os._exit, nothing committed or closed) after its n-th DELETE/UPDATE/INSERT statement, "
        "for EVERY n (exhaustive); the reopened table (inp, tsb, frequency) must be the complete previous or the complete new "
        "contents; non-trivial = every kill point",
    )

    def build(root):
        fn = os.path.join(root, "h.sqlite")
        setattr(hs.XH_SQLITE_CACHE, hs.XH_SQLITE_CREATED_SQL_TBL, False)
        t = 100.0
        for sid, inps in (("s1", ["ls", "git status", "secret-1", "ls", "make"]), ("s2", ["git status", "secret-2", "ls", "vim x", "git status"]), ("s3", ["secret-3", "make", "ls", "secret-1"])):
            for inp in inps:
                t += 1
                hs.xh_sqlite_append_history({"inp": inp, "rtn": 0, "ts": (t, t + 0.5), "out": None, "cwd": "/"}, sid, False, filename=fn)
        return fn

    def rows(fn):
        conn = sqlite3.connect(fn)
        try:
            return sorted(conn.execute("SELECT inp, tsb, frequency FROM xonsh_history").fetchall())
        finally:
            conn.close()

    ops = {
        "delete": lambda fn: hs.xh_sqlite_delete_input_matching(re.compile("secret"), filename=fn),
        "erasedups": lambda fn: hs.xh_sqlite_erasedups(filename=fn),
    }
    real_sqlite3 = hs.sqlite3
    for opname, op in ops.items():
        root = str(common.scratch_root() / f"c13s-{uuid.uuid4().hex[:8]}")
        os.makedirs(root)
        _envs(root)
        fn = build(root)
        old = rows(fn)
        op(fn)
        new = rows(fn)
        shutil.rmtree(root, ignore_errors=True)
        n = 0
        while True:
            n += 1
            root = str(common.scratch_root() / f"c13s-{uuid.uuid4().hex[:8]}")
            os.makedirs(root)
            _envs(root)
            fn = build(root)
            r, w = os.pipe()
            pid = os.fork()
            if pid == 0:
                os.close(r)
                count = [0]

                class Cur(sqlite3.Cursor):
                    def execute(self, sql, *a):
                        res = super().execute(sql, *a)
                        if sql.lstrip().upper().startswith(("DELETE", "UPDATE", "INSERT")):
                            count[0] += 1
                            if count[0] == n:
                                os.write(w, b"K")
                                os._exit(0)
                        return res

                class Conn(sqlite3.Connection):
                    def cursor(self, *a, **k):
                        return super().cursor(Cur)

                proxy = types.SimpleNamespace(**{k: getattr(real_sqlite3, k) for k in dir(real_sqlite3) if not k.startswith("__")})
                proxy.connect = lambda *a, **k: real_sqlite3.connect(*a, factory=Conn, **k)
                hs.sqlite3 = proxy
                try:
                    op(fn)
                finally:
                    os._exit(0)
            os.close(w)
            os.waitpid(pid, 0)
            killed = os.read(r, 1) == b"K"
            os.close(r)
            got = rows(fn)
            shutil.rmtree(root, ignore_errors=True)
            if not killed:
                break  # the operation has fewer than n data-modifying statements: every kill point was visited
            ctx.case(name, (opname, n), True, {"operation": opname, "killed_after_statement": n})
            ctx.count(f"sqlite-kill/{opname}")
            if got != old and got != new:
                ctx.spec_failure({"stream": name, "operation": opname, "killed_after_statement": n},
                                 {"rows_after_kill": len(got), "old_rows": len(old), "new_rows": len(new)},
                                 f"SQLite history `{opname}` killed between two statements left the table neither old nor new", None)
                break


def _envs(root):
    from xonsh.built_ins import XSH
    from xonsh.environ import Env

    XSH.env = Env(XONSH_DATA_DIR=root, XONSH_DEBUG=0, HISTCONTROL="", XONSH_STORE_STDOUT=False)
    XSH.history = None


def replay_known(ctx, hj):
    for f in ctx.known:
        w = f["witness"]
        root, files, old, events = run_traced(hj, w["scenario"], w["variant"])
        new_inps = {x: load_inps(x) for x in files}
        shutil.rmtree(root, ignore_errors=True)
        if "failing_event" in w:
            root, files2, old2, _ = run_traced(hj, w["scenario"], w["variant"], fail_at=w["failing_event"])
        else:
            root, files2, old2, _ = run_traced(hj, w["scenario"], w["variant"], crash_at=w["crash_before_event"], partial=w["partial_bytes"])
        bad = judge(files2, old2, {f2: new_inps[x] for x, f2 in zip(files, files2)})
        shutil.rmtree(root, ignore_errors=True)
        ctx.replayed(f["key"], bool(bad), [(short(a), b) for a, b in bad])
        if bad:
            ctx.spec_failure({"stream": "known-witness", **w}, {"damaged": [(short(a), b) for a, b in bad]}, f["what"], f["key"])


def run(ctx):
    hj = _hj()
    real_time = hj.time
    try:
        _run(ctx, hj)
    finally:
        hj.time = real_time


def _run(ctx, hj):
    ctx.assumptions += [
        "os.replace is atomic; a closed file's data is on disk before a later rename becomes visible (no fsync modelling)",
        "the tracing proxies flush after every write, so the byte stream of the trace is the byte stream on disk",
    ]
    ctx.explanation = (
        "Props/C13.lean proves atomicity for every trace obeying the discipline; the check captures the real traces of flush, "
        "flush-at-exit, delete, erasedups and stale-lock unlock, evaluates the discipline in Lean, and validates both the crash model "
        "and the property by killing a forked child at every event (and inside every write) and by failing every call once."
    )
    name = "crash-and-fault-injection"
    ctx.stream_rule(
        name,
        "scenarios flush / flush-at-exit / delete (3 files) / erasedups (2 files) / unlock of a stale locked file, each in payload "
        "variants; per scenario: captured trace -> Lean discOk; a forked child is killed before EVERY event and after 0,1,n/2,n-1,n "
        "bytes of EVERY write (exhaustive over the scenario's crash points), real disk compared with the model's `crash` and judged: "
        "every saved file loadable with its old or new commands; then every event — opens for READING included — is made to raise "
        "OSError once; "
        "non-trivial = every crash/fault point (each is a distinct execution)",
    )
    replay_known(ctx, hj)
    variants = ctx.n([0, 1], [0, 1, 3, 30])
    for sc in SCENARIOS:
        for v in variants:
            scenario(ctx, hj, sc, v, name, exhaustive_partials=not ctx.quick())
    ctx.exhaustive = True
    stream_disk_full(ctx, hj)
    stream_sqlite(ctx, ctx.n(6, 40))
    stream_sqlite_ops(ctx)


def search(ctx, reason):
    ctx.extra["search_reason"] = reason
    hj = _hj()
    for sc in SCENARIOS:
        for v in (2, 5, 40):
            scenario(ctx, hj, sc, v, "search:crash-and-fault-injection", exhaustive_partials=True)


def replay(ctx, path):
    hj = _hj()
    r = json.loads(open(path).read())
    c = r["case"]
    if "crash_before_event" in c:
        root, files, old, events = run_traced(hj, c["scenario"], c["variant"])
        new_inps = {f: load_inps(f) for f in files}
        shutil.rmtree(root, ignore_errors=True)
        unfl = c["partial_bytes"] == "unflushed"
        root, files2, old2, _ = run_traced(hj, c["scenario"], c["variant"], crash_at=c["crash_before_event"], partial=None if unfl else c["partial_bytes"], flush=not unfl)
        bad = judge(files2, old2, {f2: new_inps[f] for f, f2 in zip(files, files2)})
        shutil.rmtree(root, ignore_errors=True)
    elif "failing_event" in c:
        root, files, old, events = run_traced(hj, c["scenario"], c["variant"])
        new_inps = {f: load_inps(f) for f in files}
        shutil.rmtree(root, ignore_errors=True)
        root, files2, old2, _ = run_traced(hj, c["scenario"], c["variant"], fail_at=c["failing_event"])
        bad = judge(files2, old2, {f2: new_inps[f] for f, f2 in zip(files, files2)})
        shutil.rmtree(root, ignore_errors=True)
    else:
        return common.EXIT_INFRA
    for f, w in bad:
        print(short(f), w)
    print(f"VIOLATION property={ID} replay={path}" if bad else "every saved history file survived")
    return common.EXIT_VIOLATION if bad else common.EXIT_OK
