"""C06 — Captured output is complete, ordered and exactly what the command wrote."""

from __future__ import annotations

import functools
import json
import os
import random
import sys
import threading
import time
import traceback

from .. import common
from ..codec import Sym, codes

ID = "C06"
LEVEL = "proof"
PROPS_MODULES = ["XonshVerif.Props.C06"]
TECHNIQUE = (
    "Lean 4 proof (three protocol models: queue reader small-step semantics with a safety theorem for ALL chunkings and ALL "
    "thread schedules by induction on the schedule; the shared-position in-memory buffer of PopenThread with a partial theorem, a "
    "repaired variant and a counterexample; text shaping with fragmentation-independence for whole-line fragmentations and "
    "counterexamples; return code = last stage) + differential correspondence: real pipelines of processes and callable aliases "
    "run in a forked worker under seeded delay injection at the reader / proxy / closer threads, compared with the models and judged "
    "by the Lean spec"
)
LEVEL_TEXT = (
    "proof (partial): A. QueueReader / populate_fd_queue as a small-step machine at single-statement granularity (os.read, "
    "queue.put, closed=True, thread exit; the three separate reads of is_fully_read; read_queue): C06_A_safety — for EVERY payload, "
    "EVERY cut of it into non-empty reads and EVERY interleaving of producer, polling consumer and start of the final drain, if the "
    "drain loop is left then the fragments handed on are, joined, exactly the payload; C06_A_prefix — at every moment they are a "
    "prefix of it. B. PopenThread._alt_mode_writer (tell / seek END / write / seek back) against iterraw's unlocked readlines on "
    "the same BytesIO: C06_B_locked (the code since /repo f545504 takes the writer's lock around readlines: ALL schedules are safe; "
    "that the reader still takes the lock is checked every run and the real threads are driven through the counterexample's "
    "schedule), C06_B_partial (without the lock: safe for all schedules in which no read lands between tell() and seek(0, END)), "
    "C06_B_cex (the pinned snapshot's behaviour: duplicated data; fixed finding, a recurrence is a violation). C. tee_stdout / the $() branch of iterraw / get_formatted_lines: C06_C_independent_partial "
    "(whole-line fragmentations of the same bytes give the same lines/.out/.raw_out), C06_C_plain_exact, C06_C_stdout_path ($() is a "
    "function of the payload alone for all chunkings and schedules), C06_C_stdout_oneline, C06_raw_out; C06_H_reads (history machine "
    "over ended / _output / lines: whatever was read before, every read after the end is the formatted text of ALL lines and every "
    "read before it of a prefix; C06_H_cex_stale_cache shows what caching an early read would break); the unrestricted statement "
    "is false: C06_C_cex_crlf / _multibyte / _escape / _oneline / _crcrlf / _cr_onefragment / _stdout_vt (known findings). C06_rtn, C06_rtn_alias_table. "
    "Tie: every model function against the real class / builtin on generated inputs, and whole pipelines (1-4 stages, processes and "
    "threaded / unthreaded callable aliases, $() / !() .out .raw_out .rtn iteration / @$(), payloads empty to 4 pipe buffers around "
    "1024 and 65536, text and binary, writer chunking / delays / exit timing, seeded delays injected at the reader, PopenThread, "
    "proxy and closer threads) compared with the models on the fragments iterraw really yielded and judged by the Lean spec; the "
    "harness's own terminal fds must stay empty."
)
LEVEL_NOTE = (
    "Trusted: Lean kernel + standard axioms; the harness. NOT proved, only observed with timeouts: liveness (that the drain loop is "
    "ever left, that no stage waits forever for EOF), the OS's pipe semantics (FIFO, EOF after the last writer closes, read returns "
    "b'' only at EOF), CPython's queue.Queue / io.BytesIO / GIL atomicity of single method calls, the thread schedules actually "
    "reached (delay injection widens them, it does not enumerate them). Payloads that contain an alternate-screen switch "
    "(ESC[?1049h etc.) are deliberately diverted to the terminal by xonsh and are excluded from the payload space."
)

PIPE = 65536
K_FRAG = "fragment-boundary-cuts-crlf-or-multibyte-sequence"
K_CRCRLF = "cr-before-a-line-final-crlf-is-kept"
K_VT = "stdout-capture-keeps-newline-of-one-line-output-with-unicode-line-break"
K_STDIN = "closer-thread-closes-the-stdin-of-a-late-reading-alias-stage"
K_PARTIAL = "abandoned-iteration-loses-lines-already-read"
K_ORDER = "alias-stdout-write-overtaken-by-inner-command"
K_DUP = "membuf-position-rewound-duplicates-output"
K_STDERR = "alias-stage-closes-the-real-stderr-and-later-alias-threads-die"
K_GLOBAL = "global-sys-stdout-redirect-restored-by-another-alias-thread"
K_ONEFRAG = "single-fragment-output-with-inner-cr-loses-its-final-newline"

# ======================================================================================= inside the forked worker
_W = {}  # worker state


class _Perturb:
    """seeded delays around the real functions (installed by wrapping them at run time; /repo is not edited)"""

    def __init__(self):
        self.rng = random.Random(0)
        self.p = 0.0
        self.mx = 0.0
        self.lock = threading.RLock()  # re-entrant: a __del__ (PipeChannel.close) may run inside nap()
        self.hits = {}
        self.special = {}  # name -> fixed delay (deterministic replays)

    def configure(self, seed, p, mx, special=None):
        self.rng = random.Random(seed)
        self.p, self.mx = p, mx
        self.special = dict(special or {})

    def nap(self, name):
        d = self.special.get(name)
        if d:
            time.sleep(d)
            return
        if self.p <= 0:
            return
        with self.lock:
            r = self.rng.random()
            d = self.rng.random() * self.mx
            self.hits[name] = self.hits.get(name, 0) + 1
        if r < self.p:
            time.sleep(d)


def _wrap(per, obj, attr, name, gen=False):
    orig = getattr(obj, attr)
    if gen:

        @functools.wraps(orig)
        def w(*a, **k):
            per.nap(name + ":enter")
            for x in orig(*a, **k):
                per.nap(name + ":yield")
                yield x
            per.nap(name + ":exit")

    else:

        @functools.wraps(orig)
        def w(*a, **k):
            per.nap(name + ":before")
            try:
                return orig(*a, **k)
            finally:
                per.nap(name + ":after")

    setattr(obj, attr, w)


def _diag(msg):
    try:
        with open(_W["diag"], "a") as f:
            f.write(msg.replace("\n", "\\n") + "\n")
    except OSError:
        pass


def _install(per):
    import xonsh.procs.pipelines as L
    import xonsh.procs.pipes as PP
    import xonsh.procs.posix as P
    import xonsh.procs.proxies as X
    import xonsh.procs.readers as R

    orig_pop = R.populate_fd_queue

    def populate_fd_queue(reader, fd, queue):
        oput = queue.put

        def put(c, *a, **k):
            per.nap("populate:before-put")
            oput(c, *a, **k)
            per.nap("populate:after-put")

        queue.put = put
        per.nap("populate:start")
        try:
            return orig_pop(reader, fd, queue)
        finally:
            per.nap("populate:end")

    R.populate_fd_queue = populate_fd_queue
    _wrap(per, R.QueueReader, "read_queue", "read_queue")
    _wrap(per, P.PopenThread, "run", "popen.run")
    _wrap(per, P.PopenThread, "_read_write", "popen._read_write")
    _wrap(per, P.PopenThread, "_alt_mode_writer", "popen._alt_mode_writer")
    _wrap(per, L.CommandPipeline, "_close_prev_procs", "_close_prev_procs")
    _wrap(per, L.CommandPipeline, "_prev_procs_done", "_prev_procs_done")
    _wrap(per, L.PrevProcCloser, "run", "closer.run")
    _wrap(per, PP.PipeChannel, "close_writer", "close_writer")
    _wrap(per, PP.PipeChannel, "close_reader", "close_reader")
    _wrap(per, X, "parse_proxy_return", "parse_proxy_return")

    # iterraw: delays + a record of the raw fragments it really yields
    orig_iterraw = L.CommandPipeline.iterraw

    @functools.wraps(orig_iterraw)
    def iterraw(self):
        rec = []
        if not hasattr(self, "_xv_frags"):
            self._xv_frags = []
        self._xv_frags.append(rec)
        per.nap("iterraw:enter")
        for x in orig_iterraw(self):
            rec.append(bytes(x))
            per.nap("iterraw:yield")
            yield x
        per.nap("iterraw:exit")

    L.CommandPipeline.iterraw = iterraw

    # which pipeline is the program's own one (an alias stage may run inner pipelines, which also become XSH.lastcmd)
    orig_init = L.CommandPipeline.__init__

    @functools.wraps(orig_init)
    def init(self, specs):
        if threading.current_thread() is threading.main_thread():
            _W.setdefault("cps", []).append(self)
        return orig_init(self, specs)

    L.CommandPipeline.__init__ = init

    # ProcProxyThread.run: delays + a record of exceptions that escape it (the thread dies without a return code)
    orig_run = X.ProcProxyThread.run

    @functools.wraps(orig_run)
    def run(self):
        per.nap("proxy.run:before")
        per.nap(f"proxy.run:before:{self.args[0] if self.args else ''}")
        try:
            return orig_run(self)
        except BaseException as e:  # noqa: BLE001
            tb = traceback.extract_tb(e.__traceback__)
            where = "; ".join(f"{os.path.basename(fr.filename)}:{fr.name}" for fr in tb[-4:])
            _diag(f"case {_W.get('case')} proxy-run-escaped {type(e).__name__}: {e} @ {where}")
            raise
        finally:
            per.nap("proxy.run:after")

    X.ProcProxyThread.run = run


WRITER_SRC = r'''
import json, os, sys, time
spec = json.load(open(sys.argv[1]))
data = open(spec["file"], "rb").read() if spec.get("file") else sys.stdin.buffer.read()
if spec.get("err"):
    os.write(2, spec["err"].encode())
pos = 0
try:
    for n, d in spec["chunks"]:
        if d:
            time.sleep(d)
        os.write(1, data[pos:pos + n])
        pos += n
    if pos < len(data):
        os.write(1, data[pos:])
except BrokenPipeError:
    pass
if spec.get("linger"):
    os.close(1)
    time.sleep(spec["linger"])
os._exit(spec.get("rc", 0))
'''


def _session():
    """one xonsh session per worker process; the worker's fds 1 and 2 are files whose growth is the 'terminal' observation"""
    if "execer" in _W:
        return
    root = str(common.scratch_root())
    pid = os.getpid()
    _W["term_out"] = os.path.join(root, f"c06-term-{pid}.out")
    _W["term_err"] = os.path.join(root, f"c06-term-{pid}.err")
    _W["diag"] = os.path.join(root, "c06-diag.log")
    for fdn, path in ((1, _W["term_out"]), (2, _W["term_err"])):
        fd = os.open(path, os.O_WRONLY | os.O_CREAT | os.O_TRUNC | os.O_APPEND, 0o600)
        os.dup2(fd, fdn)
        os.close(fd)
    dn = os.open(os.devnull, os.O_RDONLY)
    os.dup2(dn, 0)
    os.close(dn)
    sys.stdout = sys.__stdout__ = open(1, "w", buffering=1, closefd=False)
    sys.stderr = sys.__stderr__ = open(2, "w", buffering=1, closefd=False)
    common.setup_repo_imports()
    from xonsh.built_ins import XSH
    from xonsh.execer import Execer
    import xonsh.procs.proxies as X

    # the dispatchers remember the interpreter's streams of import time: point them at the worker's own
    X.STDOUT_DISPATCHER.default = sys.stdout
    X.STDERR_DISPATCHER.default = sys.stderr
    execer = Execer()
    XSH.load(execer=execer, inherit_env=False)
    env = XSH.env
    env["XONSH_SHOW_TRACEBACK"] = False
    env["XONSH_CAPTURE_ALWAYS"] = False
    env["PATH"] = ["/usr/bin", "/bin"]
    env["XONSH_INTERACTIVE"] = False
    env["XONSH_SUBPROC_RAISE_ERROR"] = False
    env["XONSH_SUBPROC_CMD_RAISE_ERROR"] = False
    env["THREAD_SUBPROCS"] = True
    env["XONSH_ENCODING"] = "utf-8"
    env["XONSH_ENCODING_ERRORS"] = "surrogateescape"
    env["XONSH_SUBPROC_OUTPUT_FORMAT"] = "stream_lines"
    _W.update(execer=execer, XSH=XSH, X=X, per=_Perturb(), glb={"__name__": "xv"}, stages={}, rec=[], errs_real=sys.stderr, out_real=sys.stdout)
    _install(_W["per"])
    with open(os.path.join(root, "c06-writer.py"), "w") as f:
        f.write(WRITER_SRC)
    _define_aliases(XSH)


def _define_aliases(XSH):
    from xonsh.tools import unthreadable

    def note(st, msg):
        st.setdefault("notes", []).append(msg)
        _diag(f"case {_W.get('case')} stage {st.get('idx')} {msg}")

    def emit(st, data, stdout):
        """write `data` (bytes) the way the stage was told to"""
        mode = st.get("mode", "buffer")
        pos = 0
        chunks = list(st.get("chunks") or []) + [[len(data), 0]]
        for n, d in chunks:
            if pos >= len(data) and n:
                break
            if d:
                time.sleep(d)
            piece = data[pos : pos + n]
            pos += n
            if not piece:
                continue
            if mode == "buffer":
                stdout.buffer.write(piece)
                stdout.buffer.flush()
            elif mode == "text":
                stdout.write(piece.decode("utf-8", "surrogateescape"))
                if st.get("flush", True):
                    stdout.flush()
            elif mode == "print":
                print(piece.decode("utf-8", "surrogateescape"), end="")
            elif mode == "inner":
                # the stage produces this piece by running an uncaptured inner command
                ip = os.path.join(str(common.scratch_root()), f"c06-inner-{os.getpid()}-{st.get('idx')}.bin")
                with open(ip, "wb") as f:
                    f.write(piece)
                # (a command xonsh predicts unthreadable — plain `cat` — is started on the interpreter's own fd 1 inside an alias;
                # that documented limitation is not this property's subject: the inner command is a threadable one)
                _W["execer"].exec(f'sh -c "cat {ip}"\n', glbs=dict(_W["glb"]), locs=None, filename="<c06-inner>")
            else:
                raise ValueError(mode)

    def finish(st):
        if st.get("err"):
            sys.stderr.write(st["err"])
        kind, val = st.get("ret", ["int", 0])
        if kind == "int":
            return val
        if kind == "none":
            return None
        if kind == "tuple":
            return (None, None, val)
        if kind == "tuple2":
            return (None, None)
        if kind == "exit":
            raise SystemExit(val)
        if kind == "exitnone":
            raise SystemExit
        if kind == "exitstr":
            raise SystemExit("bye")
        if kind == "exitempty":
            raise SystemExit("")
        if kind == "raised":
            raise RuntimeError("xv: stage told to raise")
        if kind == "other":

            class Quiet:
                def __str__(self):
                    return ""

            return Quiet()
        raise ValueError(kind)

    def src(args, stdin=None, stdout=None, stderr=None):
        st = _W["stages"][int(args[0])]
        data = st["data"]
        kind = st.get("ret", ["int", 0])[0]
        if kind in ("str", "tuplestr"):
            # the output IS the return value
            if st.get("err"):
                sys.stderr.write(st["err"])
            text = data.decode("utf-8", "surrogateescape")
            return text if kind == "str" else (text, None, st["ret"][1])
        emit(st, data, stdout)
        return finish(st)

    def fil(args, stdin=None, stdout=None, stderr=None):
        st = _W["stages"][int(args[0])]
        if st.get("pre_delay"):
            time.sleep(st["pre_delay"])
        try:
            how = st.get("read", "all")
            if how == "all":
                data = stdin.buffer.read()
            elif how == "lines":
                data = b"".join(stdin.buffer)
            else:
                data = b""
                while True:
                    c = stdin.buffer.read1(int(how))
                    if not c:
                        break
                    data += c
        except (OSError, ValueError) as e:
            note(st, f"stdin-read-failed {type(e).__name__} errno={getattr(e, 'errno', None)}")
            return 97
        emit(st, data, stdout)
        return finish(st)

    def inner(args, stdin=None, stdout=None, stderr=None):
        """writes A through its stdout argument, runs an inner command that prints B, writes C"""
        st = _W["stages"][int(args[0])]
        a, b, c = st["parts"]
        stdout.write(a)
        _W["execer"].exec(f"echo {b}\n", glbs=_W["glb"], locs=None, filename="<c06-inner>")
        stdout.write(c)
        return finish(st)

    def rec(args, stdin=None, stdout=None, stderr=None):
        _W["rec"].append(list(args))
        return 0

    XSH.aliases["xsrc"] = src
    XSH.aliases["xfil"] = fil
    XSH.aliases["xinner"] = inner
    XSH.aliases["xrec"] = rec
    XSH.aliases["xusrc"] = unthreadable(lambda args, stdin=None, stdout=None, stderr=None: src(args, stdin, stdout, stderr))


def _barrier(on):
    """while on, the BytesIO that PopenThread creates makes the WRITER thread wait right after its tell() — when unread data is
    in the buffer — until the main thread has done one non-empty readlines(): a legal schedule, imposed instead of awaited"""
    import io
    import types

    import xonsh.procs.posix as P

    if not on:
        P.io = io
        return

    class BarrierBytesIO(io.BytesIO):
        def tell(self):
            p = super().tell()
            if threading.current_thread() is not threading.main_thread() and p < len(self.getvalue()):
                self._xv_told = ev = threading.Event()
                ev.wait(0.6)
            return p

        def readlines(self, hint=-1):
            r = super().readlines(hint)
            ev = getattr(self, "_xv_told", None)
            if ev is not None and r:
                self._xv_told = None
                ev.set()
            return r

    P.io = types.SimpleNamespace(BytesIO=BarrierBytesIO, TextIOWrapper=io.TextIOWrapper, SEEK_END=io.SEEK_END)


def _enc_text(s, exp=None):
    if s is None:
        return None
    if not isinstance(s, str):
        return {"r": repr(s)[:200]}
    if any(0xD800 <= ord(c) <= 0xDFFF for c in s):
        return {"c": [ord(c) for c in s]}
    b = s.encode("utf-8")
    if exp is not None and b == exp:
        return "=E"
    return {"u": b.hex()}


def _enc_bytes(b, exp=None):
    if b is None:
        return None
    b = bytes(b)
    if exp is not None and b == exp:
        return "=E"
    return {"b": b.hex()}


def _render_stage(i, st, root):
    k = st["kind"]
    hint = {"thread": "@thread ", "unthread": "@unthread ", None: ""}[st.get("hint")]
    rc = st.get("rc", 0)
    err = f"printf %s {st['err']} >&2; " if st.get("err") else ""
    if k == "ext_sh":
        body = f"cat {st['file']}" if st["role"] == "src" else "cat"
        return f'{hint}sh -c "{err}{body}; exit {rc}"'
    if k == "ext_cat":
        return f"{hint}cat {st['file']}" if st["role"] == "src" else f"{hint}cat"
    if k == "ext_py":
        spec = {"file": st.get("file") if st["role"] == "src" else None, "chunks": st.get("chunks") or [], "rc": rc, "err": st.get("err"), "linger": st.get("linger", 0)}
        sp = os.path.join(root, f"c06-wspec-{os.getpid()}-{i}.json")
        with open(sp, "w") as f:
            json.dump(spec, f)
        return f"{hint}{sys.executable} -S {os.path.join(root, 'c06-writer.py')} {sp}"
    if k == "head":
        return f"{hint}head -c {st['n']}"
    if k == "alias":
        return f"{'xsrc' if st['role'] == 'src' else 'xfil'} {i}"
    if k == "ualias":
        return f"xusrc {i}"
    if k == "inner":
        return f"xinner {i}"
    raise ValueError(k)


def _run_case(case):
    """runs ONE generated program against the real xonsh in this worker; returns JSON-able observations only"""
    if _W.get("dead"):
        os._exit(0)  # this process's stderr object was closed by the code under test: start over in a fresh worker
    _session()
    XSH, execer, per, X = _W["XSH"], _W["execer"], _W["per"], _W["X"]
    root = str(common.scratch_root())
    _W["case"] = case["id"]
    _diag(f"case {case['id']} start")
    # every program starts from the interpreter's canonical streams (an earlier pipeline may have left the dispatcher in place)
    if sys.stdout is not _W["out_real"] or sys.stderr is not _W["errs_real"]:
        _diag(f"case {case['id']} sys-streams-were-left-swapped")
        sys.stdout, sys.stderr = _W["out_real"], _W["errs_real"]
    exp = case["exp"]
    stages = case["stages"]
    _W["stages"] = {i: dict(st, idx=i) for i, st in enumerate(stages)}
    pf = os.path.join(root, f"c06-payload-{os.getpid()}.bin")
    if any(st.get("needs_file") for st in stages):
        with open(pf, "wb") as f:
            f.write(case["payload"])
    for st in _W["stages"].values():
        if st.get("needs_file"):
            st["file"] = pf
        if st["role"] == "src" and st["kind"] in ("alias", "ualias"):
            st["data"] = case["payload"]
    pipe = " | ".join(_render_stage(i, _W["stages"][i], root) for i in range(len(stages)))
    form = case["form"]
    glb = _W["glb"]
    glb.pop("r", None)
    glb.pop("p", None)
    _W["rec"].clear()
    sizes = (os.path.getsize(_W["term_out"]), os.path.getsize(_W["term_err"]))
    per.configure(*case.get("perturb", [0, 0.0, 0.0]), special=case.get("special"))
    _barrier(bool(case.get("barrier")))
    import faulthandler

    hangp = os.path.join(root, f"c06-hang-{case['id']}.txt")
    hangf = open(hangp, "w")
    hangf.write(f"case {case['id']} {pipe}\n")
    hangf.flush()
    faulthandler.dump_traceback_later(case.get("dump_after", 12), exit=False, file=hangf)
    obs = {"pipe": pipe, "form": form, "views": {}, "exc": None}
    t0 = time.time()
    XSH.lastcmd = None
    _W["cps"] = []

    def outer():
        return _W["cps"][0] if _W["cps"] else None

    try:
        if form == "stdout":
            execer.exec(f"r = $({pipe})\n", glbs=glb, locs=None, filename="<c06>")
            obs["views"]["stdout"] = _enc_text(glb.get("r"), exp)
            lc = outer()
            obs["rtn"] = None if lc is None else lc.returncode
        elif form == "inject":
            execer.exec(f"xrec @$({pipe})\n", glbs=glb, locs=None, filename="<c06>")
            obs["views"]["inject"] = list(_W["rec"][-1]) if _W["rec"] else None
            obs["rtn"] = None
        else:
            execer.exec(f"p = !({pipe})\n", glbs=glb, locs=None, filename="<c06>")
            p = glb["p"]
            if form == "partial":
                taken = []
                how = case.get("partial_how", "break")
                if how == "break":
                    for line in p:
                        taken.append(line)
                        if len(taken) >= case["partial_k"]:
                            break
                else:
                    it = iter(p)
                    glb["_keep"] = it  # the suspended generator stays alive
                    for _ in range(case["partial_k"]):
                        try:
                            taken.append(next(it))
                        except StopIteration:
                            break
                obs["views"]["taken"] = [_enc_text(x) for x in taken]
                if case.get("partial_wait"):
                    time.sleep(case["partial_wait"])
            # the view-reading schedule BEFORE the end: non-blocking reads right after creation, after a delay, in the middle of an
            # iteration that is afterwards resumed to its end (not abandoned)
            it, taken, early = None, [], []
            for step in case.get("early") or []:
                if step[0] == "output":
                    early.append(["output", len(taken), bool(p.ended), _enc_text(p.output)])
                elif step[0] == "lines":
                    early.append(["lines", len(taken), bool(p.ended), len(p.lines)])
                elif step[0] == "sleep":
                    time.sleep(step[1])
                elif step[0] == "iter":
                    if it is None:
                        it = iter(p)
                    for _ in range(step[1]):
                        try:
                            taken.append(next(it))
                        except StopIteration:
                            break
            if case.get("early"):
                obs["early"] = early
            if it is not None:
                taken += list(it)
                obs["views"]["iter"] = [_enc_text(x) for x in taken]
            for v in case["views"]:
                if v == "iter" and it is not None:
                    continue
                if v == "out":
                    obs["views"]["out"] = _enc_text(p.out, exp)
                elif v == "raw_out":
                    obs["views"]["raw_out"] = _enc_bytes(p.raw_out, exp)
                elif v == "rtn":
                    obs["rtn"] = p.rtn
                elif v == "iter":
                    obs["views"]["iter"] = [_enc_text(x) for x in p]
                elif v == "str":
                    obs["views"]["str"] = _enc_text(str(p), exp)
                elif v == "err":
                    obs["views"]["err"] = _enc_text(p.err)
            obs["views"]["lines"] = [_enc_text(x) for x in p.lines]
            obs["ended"] = bool(p.ended)
            obs["pipestatus"] = list(p.pipestatus)
            obs["frags"] = [[f.hex() for f in call] for call in getattr(p, "_xv_frags", [])]
            glb.pop("_keep", None)
        lc = outer()
        if form == "inject" and len(_W["cps"]) > 1:
            lc = _W["cps"][0]  # `xrec @$(…)`: the injected pipeline is built and run first
        if lc is not None:
            obs["classes"] = [type(x).__name__ for x in lc.procs]
            if form in ("stdout", "inject"):
                obs["frags"] = [[f.hex() for f in call] for call in getattr(lc, "_xv_frags", [])]
                obs["lines"] = [_enc_text(x) for x in lc.lines]
                obs["pipestatus"] = list(lc.pipestatus)
    except BaseException as e:  # noqa: BLE001
        obs["exc"] = f"{type(e).__name__}: {e}"[:300]
    finally:
        faulthandler.cancel_dump_traceback_later()
        hangf.close()
        os.unlink(hangp)
    obs["elapsed"] = round(time.time() - t0, 3)
    per.configure(0, 0.0, 0.0)
    _barrier(False)
    for th in threading.enumerate():
        if th is not threading.current_thread() and type(th).__name__ in ("ProcProxyThread", "PopenThread", "PrevProcCloser"):
            th.join(timeout=3)
    closed = bool(_W["errs_real"].closed or X.STDERR_DISPATCHER.default.closed or X.STDOUT_DISPATCHER.default.closed)
    obs["std_closed"] = closed
    if closed:
        _diag(f"case {case['id']} real-std-stream-closed")
        _W["dead"] = True
    else:
        try:
            sys.stdout.flush()
            sys.stderr.flush()
        except (OSError, ValueError):
            pass
        for name, path, old in (("term_out", _W["term_out"], sizes[0]), ("term_err", _W["term_err"], sizes[1])):
            with open(path, "rb") as f:
                f.seek(old)
                obs[name] = f.read(4000).decode("utf-8", "replace")
    obs["notes"] = {str(i): st.get("notes") for i, st in _W["stages"].items() if st.get("notes")}
    return obs


# ======================================================================================= parent side: generation
HIDE_PATTERN = "((\x01.*?\x02)|(\x9b|\x1b\\[)[0-?]*[ -\\/]*[@-~])"  # RE_HIDE_ESCAPE.pattern (compared with the real one every run)


def well_formed(b):
    """the payload's escape sequences are complete and unambiguous: stripping them leaves no further sequence behind, and
    stripping commutes with newline normalisation (otherwise WHICH text is 'the text without escape sequences' is undefined)"""
    import re

    rx = re.compile(HIDE_PATTERN)
    t = b.decode("utf-8", "surrogateescape")
    norm = lambda x: x.replace("\r\n", "\n").replace("\r", "\n")  # noqa: E731
    s1 = rx.sub("", t)
    return rx.search(s1) is None and rx.sub("", norm(t)) == norm(s1) and rx.search(norm(s1)) is None


ALT_FLAGS = [f"\x1b[?{i}{c}".encode() for i in ("1049", "47", "1047") for c in "hl"]
SIZES_SMALL = [0, 1, 2, 3, 7, 60, 200, 700, 1000, 1022, 1023, 1024, 1025, 1026, 1500, 2047, 2048, 2049, 3000, 3071, 3072, 3073, 4095, 4096, 4097, 8191, 8192, 8193]
SIZES_BIG = [65535, 65536, 65537, 70000, 131071, 131072, 131073, 196609, 262143, 262144, 262145]
WORDS = ["alpha", "b", "c3", "delta9", "e", "zz", "0", "x1y2"]


def gen_payload(rng, kind, size):
    out = bytearray()
    if kind == "binary":
        out = bytearray(rng.getrandbits(8) for _ in range(size))
    elif kind == "longline":
        out = bytearray(rng.choice(b"abcdefghij klmnop") for _ in range(size))
    elif kind == "words":
        while len(out) < size:
            out += rng.choice(WORDS).encode() + rng.choice([b" ", b" ", b"\n", b"  "])
        out = out[:size]
    else:
        while len(out) < size:
            n = rng.choice([0, 1, 2, 5, 10, 30, 79, 120, 300]) if rng.random() < 0.9 else rng.choice([1021, 1022, 1023, 1024, 2050])
            line = bytearray(rng.choice(b"abcdefghijklmnopqrstuvwxyz0123456789 .,;:-_/") for _ in range(n))
            if kind == "utf8" and n:
                for _ in range(rng.randint(1, 4)):
                    line[rng.randrange(len(line) + 1) : 0] = rng.choice(["é", "€", "𝄞", "ü", "中"]).encode()
            if kind == "esc" and n:
                for _ in range(rng.randint(1, 3)):
                    line[rng.randrange(len(line) + 1) : 0] = rng.choice([b"\x1b[31m", b"\x1b[0m", b"\x1b[1;32;4m", b"\xc2\x9b2K", b"\x01hid\x02", b"\x1b[ q", b"\x1b[", b"\x01"])
            if kind == "vt" and n:
                line[rng.randrange(len(line) + 1) : 0] = rng.choice([b"\x0b", b"\x0c", b"\x1c", b"\xc2\x85", b"\xe2\x80\xa8"])
            if kind == "crlf":
                end = rng.choice([b"\r\n", b"\r\n", b"\r\n", b"\n", b"\r"])
                if n and rng.random() < 0.2:
                    line[rng.randrange(len(line) + 1) : 0] = b"\r"
            elif kind == "crcrlf":
                end = rng.choice([b"\r\r\n", b"\r\n", b"\n"])
            else:
                end = b"\n"
            out += line + end
        out = out[:size]
    if kind in ("oneline", "vt"):
        body = bytes(out).replace(b"\n", b"x")
        out = bytearray(body[: max(0, size - 1)] + (b"\n" if size and rng.random() < 0.7 else body[size - 1 : size]))
    elif kind not in ("binary", "longline") and size and rng.random() < 0.7 and not out.endswith((b"\n", b"\r")):
        out[-1:] = b"\n"
    b = bytes(out)
    for fl in ALT_FLAGS:
        b = b.replace(fl, b"A" * len(fl))
    if not well_formed(b):
        b = b.replace(b"\x01", b"h").replace(b"\x1b", b"e").replace(b"\xc2\x9b", b"cc")
    return b


def gen_chunks(rng, size):
    r = rng.random()
    if size == 0 or r < 0.3:
        return []
    out, left = [], size
    delays = rng.random() < 0.35
    unit = rng.choice([1, 7, 100, 512, 1000, 1023, 1024, 1025, 4096, 65536, 65537])
    while left > 0 and len(out) < 24:
        n = min(left, max(1, unit if rng.random() < 0.7 else rng.randint(1, 2 * unit)))
        out.append([n, rng.choice([0.001, 0.004, 0.02]) if delays and rng.random() < 0.4 else 0])
        left -= n
    return out


RET_FORMS = [["int", 0], ["int", 0], ["int", 3], ["int", 1], ["none", 0], ["tuple", 5], ["tuple2", 0], ["exit", 4], ["exit", 0], ["exitnone", 0], ["exitstr", 1],
             ["exitempty", 0], ["other", 0], ["raised", 1]]


def ret_rc(ret):
    kind, val = ret
    return {"int": val, "none": 0, "tuple": val, "tuple2": 0, "exit": val, "str": 0, "tuplestr": val, "raised": 1, "other": 0, "exitnone": 0, "exitstr": 1, "exitempty": 0}[kind]


def ret_sexp(ret):
    kind, val = ret
    return {
        "int": [Sym("int"), val], "none": Sym("none"), "tuple": [Sym("tuple"), [Sym("some"), val]], "tuple2": [Sym("tuple"), None],
        "exit": [Sym("exit"), [Sym("some"), val], True], "str": Sym("str"), "tuplestr": [Sym("tuple"), [Sym("some"), val]],
        "raised": Sym("raised"), "other": Sym("other"), "exitnone": [Sym("exit"), None, False], "exitstr": [Sym("exit"), None, True],
        "exitempty": [Sym("exit"), None, False],
    }[kind]


TEXTY = ("plain", "utf8", "esc", "oneline", "vt", "words", "longline")


def gen_stage(rng, role, kind, pkind, size, last, form):
    st = {"role": role, "kind": kind}
    if kind in ("ext_sh", "ext_py"):
        st["rc"] = rng.choice([0, 0, 0, 1, 2, 7, 42])
    if kind == "ext_py":
        st["chunks"] = gen_chunks(rng, size)
        if rng.random() < 0.15:
            st["linger"] = rng.choice([0.02, 0.15])
    if kind in ("ext_sh", "ext_cat", "ext_py") and role == "src":
        st["needs_file"] = True
    if kind in ("alias", "ualias"):
        st["chunks"] = gen_chunks(rng, size)
        st["mode"] = rng.choice(["buffer", "buffer", "text", "print", "inner"]) if pkind in TEXTY else rng.choice(["buffer", "buffer", "buffer", "inner"])
        if st["mode"] == "inner":
            st["chunks"] = st["chunks"][:3]
            if kind == "ualias":
                st["mode"] = "buffer"  # inner commands of a main-thread alias write to the interpreter's stdout by design
        if kind == "ualias" and st["mode"] == "print":
            st["mode"] = "text"  # print() in a main-thread alias goes to the interpreter's sys.stdout, which xonsh does not redirect
        st["flush"] = rng.random() < 0.7
        st["ret"] = list(rng.choice(RET_FORMS))
        if role == "src" and pkind in TEXTY and rng.random() < 0.15:
            st["ret"] = rng.choice([["str", 0], ["tuplestr", 6]])
        if role == "fil":
            st["read"] = rng.choice(["all", "all", "lines", "1000", "65536"])
    if kind.startswith("ext") and last and rng.random() < 0.5:
        st["hint"] = rng.choice(["thread", "unthread"])
    if kind in ("ext_sh", "ext_py", "alias") and rng.random() < 0.25:
        st["err"] = f"E{rng.randrange(1000)}q"
    return st


def stage_rc(st):
    k = st["kind"]
    if k in ("ext_sh", "ext_py"):
        return st.get("rc", 0)
    if k in ("ext_cat", "head"):
        return 0
    return ret_rc(st.get("ret", ["int", 0]))


def stage_sexp(st):
    if st["kind"] in ("alias", "ualias", "inner"):
        return [Sym("alias"), ret_sexp(st.get("ret", ["int", 0]))]
    return [Sym("proc"), stage_rc(st)]


def gen_case(rng, cid, big_ok=True, many_aliases=False, forms=("stdout", "object", "object", "inject"), perturb=True, kinds=None):
    form = rng.choice(forms)
    pkind = rng.choice(kinds or ["plain", "plain", "utf8", "crlf", "esc", "binary", "oneline", "vt", "longline", "crcrlf"])
    if form == "inject":
        pkind = "words"
    size = rng.choice(SIZES_BIG) if (big_ok and rng.random() < 0.12) else (rng.choice(SIZES_SMALL) if rng.random() < 0.8 else rng.randint(0, 9000))
    if form == "inject":
        size = min(size, 5000)
    payload = gen_payload(rng, pkind, size)
    n = rng.choice([1, 1, 1, 2, 2, 3, 4])
    stages = []
    aliases = 0
    for i in range(n):
        role = "src" if i == 0 else "fil"
        last = i == n - 1
        opts = ["ext_sh", "ext_py", "ext_cat", "alias", "alias"] if role == "src" else ["ext_sh", "ext_cat", "ext_py", "alias", "alias"]
        if n == 1:
            opts.append("ualias")
        if aliases >= 1 and not many_aliases:
            opts = [o for o in opts if o != "alias"]
        kind = rng.choice(opts)
        if kind == "alias":
            aliases += 1
        stages.append(gen_stage(rng, role, kind, pkind, len(payload), last, form))
        if many_aliases and kind == "alias" and rng.random() < 0.3:
            stages[-1]["mode"] = "inner"
            stages[-1]["chunks"] = stages[-1]["chunks"][:3]
    exp = payload
    if n >= 2 and rng.random() < 0.06:
        k = rng.choice([0, 1, 1024, 4096, len(payload) // 2, len(payload)])
        stages[-1] = {"role": "fil", "kind": "head", "n": k}
        exp = payload[:k]
    case = {"id": cid, "form": form, "pkind": pkind, "payload": payload, "exp": exp, "stages": stages}
    if form == "object":
        views = rng.sample(["out", "raw_out", "rtn", "iter", "str"], rng.randint(1, 4))
        if "rtn" not in views:
            views.append("rtn")
        case["views"] = views
        if rng.random() < 0.4:
            # reads before the command has ended are part of the program: .output / .lines right after creation, after a delay
            # shorter than the writer's script, after k iterated lines (the iteration is resumed afterwards)
            early = []
            for _ in range(rng.randint(1, 4)):
                r = rng.random()
                early.append(["output"] if r < 0.45 else ["lines"] if r < 0.55 else ["sleep", rng.choice([0.001, 0.01, 0.05])] if r < 0.7 else ["iter", rng.choice([0, 1, 1, 2, 5, 40])])
            if not any(e[0] == "output" for e in early):
                early.append(["output"])
            case["early"] = early
            if not any(v in views for v in ("out", "str")):
                views.insert(0, rng.choice(["out", "str"]))
    alias_idx = [i for i, st in enumerate(stages) if st["kind"] == "alias"]
    if len(alias_idx) >= 2:
        if any(stages[i].get("mode") == "inner" for i in alias_idx):
            for i in alias_idx:
                if stages[i].get("mode") == "print":
                    stages[i]["mode"] = "text"  # (keeps the known print() leak apart from anything an inner command does)
        if rng.random() < 0.7:
            # the order in which the alias threads enter / leave their redirect blocks is part of the schedule: stagger their starts
            case["special"] = {f"proxy.run:before:{i}": rng.choice([0.0, 0.03, 0.15, 0.3]) for i in alias_idx}
    if perturb and rng.random() < 0.6:
        case["perturb"] = [rng.getrandbits(30), rng.choice([0.1, 0.3, 0.6]), rng.choice([0.0005, 0.003, 0.02, 0.12])]
        if len(payload) > 20000:
            # hundreds of 1024-byte chunks pass every delay point: keep the injected delays short so that a slow run is not taken for a hang
            case["perturb"][1] = min(case["perturb"][1], 0.3)
            case["perturb"][2] = min(case["perturb"][2], 0.003)
    return case


# ======================================================================================= parent side: running and judging
def run_batch(cases, timeout=40):
    """-> observations (dict), 'hang', or 'error:…' per case; a worker whose real stderr was closed by xonsh is replaced"""
    common.scratch_root()
    out = [None] * len(cases)
    todo = list(range(len(cases)))
    for _attempt in range(4):
        if not todo:
            break
        res = common.map_in_child(_run_case, [cases[i] for i in todo], per_item_timeout=timeout, label="c06")
        again = []
        for i, r in zip(todo, res):
            if r == common.HANG:
                out[i] = "hang"
            elif isinstance(r, dict) and "__exc__" in r:
                if "child died on this item" in r["__exc__"]:
                    again.append(i)
                else:
                    out[i] = "error:" + r["__exc__"]
            else:
                out[i] = r
        todo = again
    for i in todo:
        out[i] = "error: worker kept dying on this item"
    return out


def diag_lines(cid):
    p = common.scratch_root() / "c06-diag.log"
    if not p.exists():
        return []
    tag = f"case {cid} "
    return [l[len(tag):].strip() for l in p.read_text(errors="replace").split("\n") if l.startswith(tag)]


def dec_text(x, exp):
    """-> (str, code points)"""
    if x is None:
        return None
    if x == "=E":
        s = exp.decode("utf-8")
    elif "u" in x:
        s = bytes.fromhex(x["u"]).decode("utf-8")
    elif "c" in x:
        s = "".join(chr(c) for c in x["c"])
    else:
        return None
    return s


def dec_bytes(x, exp):
    if x is None:
        return None
    if x == "=E":
        return exp
    return bytes.fromhex(x["b"])


def case_summary(case):
    c = {k: v for k, v in case.items() if k not in ("payload", "exp")}
    p = case["payload"]
    c["payload_len"] = len(p)
    c["payload_hex"] = p.hex() if len(p) <= 600 else p[:300].hex() + "..." + p[-300:].hex()
    c["payload_seed"] = case.get("payload_seed")
    c["exp_len"] = len(case["exp"])
    return c


def find_cut(frags, exp_decode_ok=True):
    """does a fragment boundary cut a CRLF pair or a UTF-8 sequence?"""
    for a, b in zip(frags, frags[1:]):
        if a.endswith(b"\r") and b.startswith(b"\n"):
            return "crlf"
    for i in range(len(frags) - 1):
        a, b = frags[i], frags[i + 1]
        j = a + b
        if a.decode("utf-8", "surrogateescape") + b.decode("utf-8", "surrogateescape") != j.decode("utf-8", "surrogateescape"):
            return "multibyte"
    return None


def has_crcr(frags):
    return any(f.endswith((b"\r\r\n", b"\r\r")) for f in frags)


STR_ONLY_BREAKS = "\x0b\x0c\x1c\x1d\x1e\x85  "


def is_rewind_of(obs, exp):
    """obs is exp with stretches repeated by rewinding: obs = exp[0:e1] + exp[s2:e2] + … with s(k+1) <= e(k), e increasing, last e = len"""
    if len(obs) <= len(exp):
        return False
    # greedy: walk both; on mismatch try to rewind to an earlier position that matches as far as possible
    i = j = 0
    rewinds = 0
    while j < len(obs):
        if i < len(exp) and obs[j] == exp[i]:
            i += 1
            j += 1
            continue
        best = None
        for s in range(i - 1, -1, -1):
            k = 0
            while j + k < len(obs) and s + k < len(exp) and obs[j + k] == exp[s + k]:
                k += 1
            if s + k >= i and k > 0:
                best = (s, k)
                break
        if best is None or rewinds > 64:
            return False
        rewinds += 1
        i = best[0]
    return i == len(exp) and rewinds > 0


def lean_bytes(b):
    return list(b)


def judge(ctx, stream, case, obs):
    """compare one observation with the models (correspondence) and with the property (Lean spec)"""
    exp = case["exp"]
    csum = case_summary(case)
    form = case["form"]
    dl = diag_lines(case["id"])
    multi_alias = sum(1 for s in case["stages"] if s["kind"] in ("alias", "inner")) >= 2 or (
        any(s["kind"] == "inner" for s in case["stages"])
    )
    died = [l for l in dl if l.startswith("proxy-run-escaped ValueError: I/O operation on closed file")]
    # an alias thread that found its stdin fd already closed (by _close_prev_procs) dies outside its try block
    ebadf = [l for l in dl if l.startswith("proxy-run-escaped OSError: [Errno 9] Bad file descriptor")]
    if obs == "hang" or (isinstance(obs, dict) and obs.get("std_closed")):
        closed = any("real-std-stream-closed" in l for l in dl) or bool(died)
        has_alias = any(s["kind"] in ("alias", "inner", "ualias") for s in case["stages"])
        key = K_STDERR if (closed or died) and has_alias else (K_STDIN if ebadf and has_alias and obs == "hang" else None)
        hangtxt = ""
        hp = common.scratch_root() / f"c06-hang-{case['id']}.txt"
        if obs == "hang" and hp.exists():
            hangtxt = hp.read_text(errors="replace")[-3000:]
        ctx.count("hang/" + (key or "NEW") if obs == "hang" else "std-stream-closed")
        ctx.spec_failure(csum | {"stream": stream}, {"result": "hang" if obs == "hang" else "the worker's real stderr/stdout object was closed by xonsh", "diag": dl[-6:], "threads": hangtxt},
                         "the capture never completed (a stage or the reader waits forever)" if obs == "hang" else "xonsh closed the interpreter's real stderr/stdout object while running the pipeline", key)
        return
    if isinstance(obs, str):
        raise common.InfraError(f"C06 worker failed on case {case['id']}: {obs}")
    ctx.count("form/" + form)
    for s in case["stages"]:
        ctx.count("stage/" + s["kind"] + ("+" + s["hint"] if s.get("hint") else ""))
    for c in obs.get("classes") or []:
        ctx.count("procclass/" + c)
    ctx.count("payload/" + case["pkind"])
    ctx.count("size/" + ("0" if not exp else "<1024" if len(exp) < 1024 else "<=8193" if len(exp) <= 8193 else ">=65535"))
    if case.get("perturb"):
        ctx.count("perturbed")
    failures = []  # (why, observed-detail, key)
    stdin_fail = any("stdin-read-failed" in (n or "") for ns in (obs.get("notes") or {}).values() for n in (ns or [])) or bool(ebadf)
    early_exit = case["stages"][-1]["kind"] == "head"  # upstream stages may meet EPIPE / SIGPIPE and say so on stderr
    last = case["stages"][-1]

    def fail(why, detail, key=None):
        failures.append((why, detail, key))

    if obs.get("exc"):
        fail("the capture raised", {"exception": obs["exc"], "diag": dl[-4:]}, K_STDERR if died else None)
    # ---- terminal
    alias_threads = [s for s in case["stages"] if s["kind"] in ("alias", "inner")]
    leak_key = None
    if obs.get("term_out"):
        # two alias threads: redirect_stdout(STDOUT_DISPATCHER) is a process-global swap; the thread that leaves first puts the
        # REAL sys.stdout back while the other one still print()s
        if len(alias_threads) >= 2 and any(s.get("mode") == "print" for s in alias_threads) and not any(s.get("mode") == "inner" for s in alias_threads) and obs["term_out"].strip() and obs["term_out"] in exp.decode("utf-8", "surrogateescape"):
            leak_key = K_GLOBAL
        fail("captured data (or anything else) reached the harness's terminal stdout", {"terminal_stdout": obs["term_out"][:300]}, leak_key)
    want_err = "".join(s.get("err", "") for s in case["stages"][:-1]) if form in ("object", "partial") else "".join(s.get("err", "") for s in case["stages"])
    terr = obs.get("term_err", "")
    raised = any(s.get("ret", [""])[0] == "raised" for s in case["stages"])
    if sorted(terr) != sorted(want_err) and not (stdin_fail or died or raised or early_exit):
        extra = terr
        for s_ in case["stages"]:
            if s_.get("err") and s_["err"] in extra and s_ is not last:
                extra = extra.replace(s_["err"], "", 1)
        ek = K_GLOBAL if len(alias_threads) >= 2 and last["kind"] == "alias" and last.get("err") and extra == last["err"] else None
        fail("the terminal stderr holds something else than the stages' stderr text", {"terminal_stderr": terr[:300], "expected": want_err}, ek)
        leak_key = leak_key or ek
    # ---- return code
    m_rc, _m_ps = ctx.driver.call("c06.rtn", [stage_sexp(s) for s in case["stages"]])
    if form != "inject" and obs.get("exc") is None:
        if obs.get("rtn") != m_rc:
            known = K_STDIN if stdin_fail and obs.get("rtn") in (97, None) else (K_STDERR if died else None)
            if known is None:
                ctx.disagree(stream, csum, {"rtn": obs.get("rtn")}, {"rtn": m_rc})
            fail("the reported return code is not the last stage's", {"rtn": obs.get("rtn"), "last_stage": m_rc, "pipestatus": obs.get("pipestatus")}, known)
    views = obs.get("views") or {}
    frag_calls = [[bytes.fromhex(f) for f in call] for call in obs.get("frags") or []]
    frags = [f for call in frag_calls for f in call]
    lost_known = K_STDIN if stdin_fail else (K_STDERR if died else leak_key)
    if form == "stdout":
        got = dec_text(views.get("stdout"), exp)
        if got is None:
            if obs.get("exc") is None:
                fail("$() returned no string", {"value": views.get("stdout")}, lost_known)
        else:
            m_lines, m_out = ctx.driver.call("c06.stdout", lean_bytes(exp))
            faithful = codes(got) == m_out
            if not faithful and lost_known is None:
                ctx.disagree(stream, csum, {"stdout": got[:200], "len": len(got)}, {"stdout": "".join(chr(c) for c in m_out[:200]), "len": len(m_out)})
            ok = ctx.driver.call("c06.spec", lean_bytes(exp), codes(got), None, None, None)[0]
            if not ok:
                key = lost_known
                if key is None and faithful and any(ch in got for ch in STR_ONLY_BREAKS) and got.endswith("\n"):
                    if ctx.driver.call("c06.spec", lean_bytes(exp), codes(got[:-1]), None, None, None)[0]:
                        key = K_VT
                fail("$() is not the text the final stage wrote (modulo CR/CRLF->LF, escape stripping, one-line newline)",
                     {"value_len": len(got), "value_head": got[:120], "value_tail": got[-80:], "expected_len": len(exp)}, key)
    elif form == "inject":
        got = views.get("inject")
        want = exp.decode("utf-8", "surrogateescape").split()
        if got != want:
            fail("@$() did not yield the whitespace-separated words the final stage wrote", {"got": (got or [])[:20], "want": want[:20], "n_got": len(got or []), "n_want": len(want)}, lost_known)
    else:
        # !(): protocol safety first — the raw fragments iterraw yielded, joined, must be the bytes written
        joined = b"".join(frags)
        key_bytes = lost_known
        if joined != exp:
            if key_bytes is None and "PopenThread" in (obs.get("classes") or [])[-1:] and is_rewind_of(joined, exp):
                key_bytes = K_DUP
            fail("the raw fragments handed to tee_stdout are not the bytes written (lost / duplicated / reordered)",
                 {"got_len": len(joined), "expected_len": len(exp), "first_difference_at": next((i for i, (a, b) in enumerate(zip(joined, exp)) if a != b), min(len(joined), len(exp)))}, key_bytes)
        m_lines, m_out, m_raw = ctx.driver.call("c06.shape", [lean_bytes(f) for f in frags])
        o_lines = [dec_text(x, exp) for x in views.get("lines") or []]
        if [codes(x) for x in o_lines] != m_lines:
            ctx.disagree(stream, csum, {"lines": [x[:60] for x in o_lines[:6]], "n": len(o_lines)}, {"lines": ["".join(chr(c) for c in l[:60]) for l in m_lines[:6]], "n": len(m_lines)})
        cut = find_cut(frags)
        crcr = has_crcr(frags)

        def text_key(faithful):
            if key_bytes:
                return key_bytes
            if not faithful:
                return None
            if cut:
                return K_FRAG
            if crcr:
                return K_CRCRLF
            return None

        sv = {"out": None, "iter": None, "raw": None}
        for name in ("out", "str"):
            if name in views:
                got = dec_text(views[name], exp)
                faithful = got is not None and codes(got) == m_out
                if not faithful and key_bytes is None:
                    ctx.disagree(stream, csum, {name: (got or "")[:200]}, {name: "".join(chr(c) for c in m_out[:200])})
                if got is None or not ctx.driver.call("c06.spec", lean_bytes(exp), None, codes(got), None, None)[1]:
                    tk = text_key(faithful)
                    if tk is None and faithful and len(frags) == 1 and b"\r" in frags[0][:-1] and ctx.driver.call("c06.spec", lean_bytes(exp), None, codes(got + "\n"), None, None)[1]:
                        tk = K_ONEFRAG  # 'one line' = one FRAGMENT: the newline goes although the text has CR-separated lines
                    fail(f".{name} is not the text the final stage wrote (modulo CR/CRLF->LF and escape stripping)",
                         {"len": len(got or ""), "head": (got or "")[:120], "tail": (got or "")[-80:], "expected_len": len(exp), "cut": cut}, tk)
        for kind_, ntaken, was_ended, val in obs.get("early") or []:
            ctx.count("early-read/" + kind_ + ("/after-end" if was_ended else "/before-end"))
            if kind_ == "lines":
                # before the end `lines` holds exactly what the iteration has yielded so far
                if not was_ended and val != ntaken:
                    fail("an early read of .lines does not hold the lines iterated so far", {"lines": val, "iterated": ntaken}, key_bytes)
                continue
            got = dec_text(val, exp)
            sofar = o_lines if was_ended else o_lines[:ntaken]
            want = "".join(chr(c) for c in ctx.driver.call("c06.fmt", [codes(x) for x in sofar]))
            if got != want:
                ctx.disagree(stream, csum, {"early_output": (got or "")[:120], "after_lines": ntaken, "ended": was_ended}, {"early_output": want[:120]})
                fail("a read of .output before the end is not the text of the lines delivered so far", {"value": (got or "")[:120], "expected": want[:120], "lines_iterated": ntaken}, key_bytes)
        if "iter" in views:
            got = [dec_text(x, exp) for x in views["iter"]]
            faithful = [codes(x) for x in got] == m_lines
            if not faithful and key_bytes is None:
                ctx.disagree(stream, csum, {"iter_n": len(got)}, {"iter_n": len(m_lines)})
            if not ctx.driver.call("c06.spec", lean_bytes(exp), None, None, [codes(x) for x in got], None)[2]:
                fail("iteration did not yield the text the final stage wrote", {"n": len(got), "head": got[:3], "cut": cut}, text_key(faithful))
        if "raw_out" in views:
            got = dec_bytes(views["raw_out"], exp)
            if list(got) != m_raw and key_bytes is None:
                ctx.disagree(stream, csum, {"raw_len": len(got)}, {"raw_len": len(m_raw)})
            if got != exp:
                fail(".raw_out is not the bytes the final stage wrote", {"len": len(got), "expected_len": len(exp)}, key_bytes)
        if "err" in views and obs.get("exc") is None:
            got = dec_text(views["err"], exp) or ""
            if last.get("err", "") != got and not stdin_fail:
                fail(".err is not what the final stage wrote to stderr", {"err": got[:100], "expected": last.get("err", "")}, leak_key)
    for why, detail, key in failures:
        ctx.count("spec-failure/" + (key or "NEW"))
        ctx.spec_failure(csum | {"stream": stream}, detail | {"pipe": obs.get("pipe"), "proc_classes": obs.get("classes")}, why, key)


def make_case(seed_str, cid, **kw):
    case = gen_case(random.Random(seed_str), cid, **kw)
    case["regen"] = {"seed": seed_str, "kw": {k: (list(v) if isinstance(v, tuple) else v) for k, v in kw.items()}}
    return case


# ======================================================================================= unit ties (run in a worker too)
def _unit_worker(item):
    """real builtins / real xonsh functions on the given inputs"""
    common.setup_repo_imports()
    import io
    import types

    kind = item["kind"]
    if kind == "prims":
        import xonsh.procs.pipelines as L

        out = []
        fake = types.SimpleNamespace(output_format="stream_lines")
        for b in item["inputs"]:
            t = b.decode("utf-8", "surrogateescape")
            lines = t.replace("\r\n", "\n").replace("\r", "\n").splitlines(keepends=True)
            bl = b.splitlines(keepends=True)
            out.append({
                "decode": [ord(c) for c in t],
                "stripesc": [ord(c) for c in L.RE_HIDE_ESCAPE.sub("", t)],
                "splitlinesb": [list(x) for x in bl],
                "lineslf": [list(x) for x in io.BytesIO(b).readlines()],
                "normnl": [ord(c) for c in t.replace("\r\n", "\n").replace("\r", "\n")],
                "strsplit": [[ord(c) for c in x] for x in lines],
                "fmt": [ord(c) for c in L.CommandPipeline.get_formatted_lines(fake, lines)],
                "fmt_frag": [ord(c) for c in L.CommandPipeline.get_formatted_lines(fake, [x.decode("latin-1") for x in bl])],
            })
        return {"out": out, "pattern": L.RE_HIDE_ESCAPE.pattern}
    if kind == "history":
        import xonsh.procs.pipelines as L

        res = []
        for ops in item["runs"]:
            fake = types.SimpleNamespace(ended=False, _output=None, lines=[], output_format="stream_lines")
            fake.get_formatted_lines = lambda lines, fake=fake: L.CommandPipeline.get_formatted_lines(fake, lines)
            outs = []
            for op in ops:
                if op[0] == "deliver":
                    if not fake.ended:  # (tee_stdout appends to `lines`; nothing arrives after `_end`)
                        fake.lines.append(op[1])
                elif op[0] == "finish":
                    fake.ended = True
                else:
                    outs.append([bool(fake.ended), L.CommandPipeline.output.fget(fake)])
            res.append(outs)
        return res
    if kind == "qreader":
        import xonsh.procs.readers as R

        res = []
        for chunks, ops in item["runs"]:
            rd = R.QueueReader(0, timeout=0)
            alive = [True]
            rd.thread = types.SimpleNamespace(is_alive=lambda: alive[0])
            unread = [bytes(c) for c in chunks]
            ppc = ["reading", None]
            outs = []
            for op in ops:
                if op[0] == "P":
                    # the statements of populate_fd_queue, one at a time, on the real reader object
                    if ppc[0] == "reading":
                        if unread:
                            ppc[:] = ["putting", unread.pop(0)]
                        else:
                            ppc[:] = ["closing", None]
                    elif ppc[0] == "putting":
                        rd.queue.put(ppc[1])
                        ppc[:] = ["reading", None]
                    elif ppc[0] == "closing":
                        rd.closed = True
                        ppc[:] = ["exiting", None]
                    elif ppc[0] == "exiting":
                        alive[0] = False
                        ppc[:] = ["dead", None]
                    outs.append("-")
                elif op[0] == "readq":
                    outs.append(list(rd.read_queue()))
                elif op[0] == "readlines":
                    outs.append([list(x) for x in rd.readlines(op[1])])
                elif op[0] == "read":
                    outs.append(list(rd.read(-1 if op[1] is None else op[1])))
                elif op[0] == "readline":
                    outs.append(list(rd.readline(-1 if op[1] is None else op[1])))
                elif op[0] == "full":
                    outs.append(bool(rd.is_fully_read()))
            # finish the producer and drain with the real blocking loops
            while ppc[0] != "dead":
                if ppc[0] == "reading":
                    ppc[:] = ["putting", unread.pop(0)] if unread else ["closing", None]
                elif ppc[0] == "putting":
                    rd.queue.put(ppc[1]); ppc[:] = ["reading", None]
                elif ppc[0] == "closing":
                    rd.closed = True; ppc[:] = ["exiting", None]
                else:
                    alive[0] = False; ppc[:] = ["dead", None]
            tail = [list(x) for x in (rd._read_all_lines() if item.get("drain") != "iterqueue" else rd.iterqueue())]
            res.append({"outs": outs, "tail": tail, "full": bool(rd.is_fully_read())})
        return res
    if kind == "populate":
        import queue as Q

        import xonsh.procs.readers as R

        res = []
        for chunks in item["runs"]:
            r, w = os.pipe()

            class RecQ(Q.Queue):
                def __init__(self, reader):
                    super().__init__()
                    self.reader = reader
                    self.log = []

                def put(self, c, *a, **k):
                    self.log.append([len(c), bool(self.reader.closed)])
                    super().put(c, *a, **k)

            rd = R.QueueReader(r, timeout=0.001)
            rq = RecQ(rd)
            rd.queue = rq
            th = threading.Thread(target=R.populate_fd_queue, args=(rd, r, rq), daemon=True)
            rd.thread = th
            th.start()

            def writer():
                for data, d in chunks:
                    if d:
                        time.sleep(d)
                    os.write(w, bytes(data))
                os.close(w)

            wt = threading.Thread(target=writer, daemon=True)
            wt.start()
            got = b"".join(rd.iterqueue())
            th.join(5)
            wt.join(5)
            os.close(r)
            res.append({"got": got.hex(), "puts": rq.log, "closed": bool(rd.closed), "alive": th.is_alive()})
        return res
    if kind == "membuf":
        import xonsh.procs.posix as P

        res = []
        for chunks, evs in item["runs"]:
            buf = io.BytesIO()
            todo = [bytes(c) for c in chunks]
            wpc = ["idle", None]
            delivered = b""
            trace = []
            for ev in evs:
                if ev == "W":
                    if wpc[0] == "idle":
                        if todo:
                            wpc[:] = ["told", buf.tell()]
                    elif wpc[0] == "told":
                        buf.seek(0, io.SEEK_END); wpc[0] = "atEnd"
                    elif wpc[0] == "atEnd":
                        buf.write(todo[0]); wpc[0] = "written"
                    else:
                        buf.seek(wpc[1]); todo.pop(0); wpc[:] = ["idle", None]
                else:
                    delivered += buf.read(ev[1])
                trace.append([buf.tell(), len(buf.getvalue()), len(delivered)])
            final = delivered + buf.read()
            res.append({"final": list(final), "trace": trace})
        # the statement sequence of the real _alt_mode_writer
        calls = []

        class Rec(io.BytesIO):
            def tell(self):
                calls.append("tell"); return super().tell()

            def seek(self, *a):
                calls.append("seek" + repr(tuple(a))); return super().seek(*a)

            def write(self, b):
                calls.append("write"); return super().write(b)

            def getbuffer(self):
                calls.append("getbuffer"); return super().getbuffer()

        class RecLock:
            def __enter__(self):
                calls.append("lock+")

            def __exit__(self, *a):
                calls.append("lock-")

        m = Rec(b"abc")
        m.seek(1)
        calls.clear()
        P.PopenThread._alt_mode_writer(types.SimpleNamespace(in_alt_mode=False, lock=RecLock()), b"xy", m, None)
        writer_calls = list(calls)
        import inspect

        import xonsh.procs.pipelines as L

        src = inspect.getsource(L.CommandPipeline.iterraw)
        return {"runs": res, "writer_calls": writer_calls, "writer_result": [m.getvalue().decode(), m.tell()], "reader_takes_lock": ".lock" in src or '"lock"' in src}
    raise ValueError(kind)


def run_unit(item):
    r = common.map_in_child(_unit_worker, [item], per_item_timeout=120, label="c06-unit")[0]
    if r == common.HANG or (isinstance(r, dict) and "__exc__" in r):
        raise common.InfraError(f"C06 unit worker failed: {r}")
    return r


# ======================================================================================= streams
def nasty_bytes(rng, n):
    alphabet = [b"a", b"b", b" ", b"\n", b"\r", b"\r\n", b"\x1b", b"[", b"3", b"1", b"m", b";", b"?", b" ", b"/", b"\x01", b"\x02", b"\x9b", b"\xc2\x9b", b"\xc3", b"\xa9",
                b"\xe2\x82\xac", b"\xe2\x82", b"\xf0\x9d\x84\x9e", b"\xf0\x9d", b"\xed\xa0\x80", b"\xc0\x80", b"\xff", b"\x0b", b"\x0c", b"\x1c", b"\xc2\x85", b"\xe2\x80\xa8", b"\xe2\x80\xa9", b"\x1b[0m", b"\x1b[1;31m", b"~", b"@"]
    return b"".join(rng.choice(alphabet) for _ in range(n))


def stream_prims(ctx, n, name="model-functions"):
    ctx.stream_rule(
        name,
        "every function of the shaping model against the real thing on byte strings dense in CR, LF, ESC [ … sequences, \\x01…\\x02, "
        "U+009B, truncated / overlong / surrogate UTF-8, and str-only line breaks: bytes.decode(utf-8, surrogateescape), "
        "RE_HIDE_ESCAPE.sub, bytes.splitlines(keepends), BytesIO.readlines, the two str.replace calls, str.splitlines(keepends), "
        "CommandPipeline.get_formatted_lines; non-trivial = the input holds an escape introducer, a CR or a non-ASCII byte",
    )
    inputs = [b"", b"\n", b"\r", b"\r\n", b"a\r\r\n", b"\x1b[", b"\x1b[31", b"\x01\x02", b"\x01a\nb\x02", b"\xc2\x9b1;2 q", b"\xf4\x90\x80\x80", b"\xe0\x9f\xbf", b"\xed\x9f\xbf", b"\xf0\x8f\xbf\xbf"]
    while len(inputs) < n:
        inputs.append(nasty_bytes(ctx.rng, ctx.rng.choice([1, 2, 3, 5, 8, 13, 30, 80])))
    r = run_unit({"kind": "prims", "inputs": inputs})
    ctx.fingerprints["RE_HIDE_ESCAPE.pattern"] = r["pattern"]
    want_pat = HIDE_PATTERN
    if r["pattern"] != want_pat:
        ctx.disagree(name, {"what": "RE_HIDE_ESCAPE.pattern"}, r["pattern"], want_pat)
    for b, real in zip(inputs, r["out"]):
        t = real["decode"]
        ctx.case(name, b, any(c in b for c in b"\r\x1b\x01") or any(x > 127 for x in b), {"bytes": b.hex()} )
        model = {
            "decode": ctx.driver.call("c06.prim", Sym("decode"), list(b)),
            "stripesc": ctx.driver.call("c06.prim", Sym("stripesc"), t),
            "splitlinesb": ctx.driver.call("c06.prim", Sym("splitlinesb"), list(b)),
            "lineslf": ctx.driver.call("c06.prim", Sym("lineslf"), list(b)),
            "normnl": ctx.driver.call("c06.prim", Sym("normnl"), t),
            "strsplit": ctx.driver.call("c06.prim", Sym("strsplit"), real["normnl"]),
            "fmt": ctx.driver.call("c06.fmt", real["strsplit"]),
            "fmt_frag": ctx.driver.call("c06.fmt", real["splitlinesb"]),
        }
        for k, mv in model.items():
            if mv != real[k]:
                ctx.disagree(name, {"function": k, "bytes": b.hex()}, real[k], mv)


def gen_qops(rng, chunks):
    ops = []
    for _ in range(rng.randint(3, 30)):
        r = rng.random()
        if r < 0.45:
            ops.append(["P"])
        elif r < 0.55:
            ops.append(["readq"])
        elif r < 0.75:
            ops.append(["readlines", rng.choice([0, 1, 2, 5, 1024])])
        elif r < 0.85:
            ops.append(["read", rng.choice([None, 0, 1, 3, 100])])
        elif r < 0.92:
            ops.append(["readline", rng.choice([None, 1, 100])])
        else:
            ops.append(["full"])
    return ops


def stream_qreader(ctx, n, name="queue-reader-ops"):
    ctx.stream_rule(
        name,
        "a real QueueReader object whose producer (the statements of populate_fd_queue: read, put, closed=True, thread exit) is "
        "played one statement at a time between calls of read_queue / readlines(hint) / read(size) / readline(size) / is_fully_read, "
        "then drained with the real _read_all_lines / iterqueue: every return value is compared with the Lean machine; non-trivial = a "
        "consumer call happens while chunks are still unread",
    )
    runs = []
    for _ in range(n):
        k = ctx.rng.randint(0, 5)
        chunks = [list(nasty_bytes(ctx.rng, ctx.rng.choice([1, 2, 4, 9]))) for _ in range(k)]
        chunks = [c for c in chunks if c]
        runs.append((chunks, gen_qops(ctx.rng, chunks)))
    for drain in ("lines", "iterqueue"):
        real = run_unit({"kind": "qreader", "runs": runs, "drain": drain})
        for (chunks, ops), rr in zip(runs, real):
            sops = [[Sym(o[0])] + [Sym("none") if a is None else a for a in o[1:]] for o in ops]
            tailops = [[Sym("P")]] * (2 * len(chunks) + 3) + [[Sym("full")], [Sym("readlines"), 10**9], [Sym("full")]]
            m = ctx.driver.call("c06.qreader", chunks, sops + tailops)
            m_outs, m_tail = m[: len(ops)], m[len(ops) + len(tailops) - 2]
            m_outs = ["-" if isinstance(x, Sym) else x for x in m_outs]
            ctx.case(name, repr((chunks, ops, drain)), any(o[0] != "P" for o in ops[: len(chunks)]), {"chunks": chunks, "ops": ops[:8]} )
            if m_outs != rr["outs"]:
                ctx.disagree(name, {"chunks": chunks, "ops": ops}, rr["outs"], m_outs)
            tail_ok = (rr["tail"] == m_tail) if drain == "lines" else (sum(rr["tail"], []) == sum(m_tail, []))
            if not tail_ok or not rr["full"] or m[-1] is not True:
                ctx.disagree(name, {"chunks": chunks, "ops": ops, "drain": drain}, {"tail": rr["tail"], "full": rr["full"]}, {"tail": m_tail, "full": m[-1]})
            # the property on the real object: everything handed out, in order, is the payload
            handed = []
            for o, v in zip(ops, rr["outs"]):
                if o[0] in ("readq", "read", "readline"):
                    handed += v
                elif o[0] == "readlines":
                    handed += sum(v, [])
            handed += sum(rr["tail"], [])
            if handed != sum(chunks, []):
                ctx.spec_failure({"stream": name, "chunks": chunks, "ops": ops}, {"handed_on": handed}, "QueueReader lost / duplicated / reordered bytes", None)


def stream_history(ctx, n, name="output-history"):
    ctx.stream_rule(
        name,
        "the real CommandPipeline.output property on an object whose lines / ended / _output are driven through random histories "
        "(lines delivered, reads before the end, the end, reads after it): every value is compared with the Lean history machine, "
        "and the property is checked on the real values — a read after the end is the formatted text of ALL lines, a read before "
        "it of the lines so far; non-trivial = a read before the end is followed by more lines and a read after the end",
    )
    runs = []
    for _ in range(n):
        ops, ended = [], False
        for _ in range(ctx.rng.randint(1, 12)):
            r = ctx.rng.random()
            if r < 0.45:
                ops.append(["deliver", ctx.rng.choice(["a\n", "bc\n", "\n", "d", "e\n"])])
            elif r < 0.85:
                ops.append(["read"])
            elif not ended or ctx.rng.random() < 0.3:
                ops.append(["finish"])
                ended = True
        ops += [["finish"], ["read"]]
        runs.append(ops)
    real = run_unit({"kind": "history", "runs": runs})
    for ops, rr in zip(runs, real):
        sops = [[Sym("deliver"), codes(o[1])] if o[0] == "deliver" else Sym(o[0]) for o in ops]
        m_reads, m_full = ctx.driver.call("c06.hist", False, sops)
        got = [[e, codes(v)] for e, v in rr]
        fin = next(i for i, o in enumerate(ops) if o[0] == "finish")
        nontriv = any(o[0] == "read" for o in ops[:fin]) and any(o[0] == "deliver" for o in ops[:fin])
        ctx.case(name, repr(ops), nontriv, {"ops": ops[:8]})
        if got != m_reads:
            ctx.disagree(name, {"ops": ops}, rr, [[e, "".join(chr(c) for c in v)] for e, v in m_reads])
        full = "".join(chr(c) for c in m_full)
        sofar, k, bad = [], 0, None
        ended = False
        for o in ops:
            if o[0] == "deliver" and not ended:
                sofar.append(o[1])
            elif o[0] == "finish":
                ended = True
            elif o[0] == "read":
                e, v = rr[k]
                k += 1
                want = full if ended else "".join(chr(c) for c in ctx.driver.call("c06.fmt", [codes(x) for x in sofar]))
                if v != want and bad is None:
                    bad = {"read_number": k, "after_the_end": ended, "value": v, "expected": want}
        if bad:
            ctx.spec_failure({"stream": name, "history": ops}, bad, "a read of the output view does not return the text delivered (so far / in full after the end)", None)


def stream_populate(ctx, n, name="populate-fd-queue"):
    ctx.stream_rule(
        name,
        "the real populate_fd_queue thread on a real pipe fed by a scripted writer (chunk sizes around 1024 and 65536, delays, "
        "close): every queue.put must carry 1..1024 bytes and happen while reader.closed is still False, the puts joined must be the "
        "bytes written, and closed must be True / the thread dead once iterqueue() returns; non-trivial = more than one put",
    )
    runs = []
    for _ in range(n):
        k = ctx.rng.randint(0, 4)
        chunks = []
        for _ in range(k):
            sz = ctx.rng.choice([1, 10, 1023, 1024, 1025, 2048, 3000, 65536, 65537, 100000])
            chunks.append([bytes(ctx.rng.getrandbits(8) for _ in range(min(sz, 3000))) * (1 if sz <= 3000 else sz // 3000 + 1), ctx.rng.choice([0, 0, 0.002, 0.02])])
            chunks[-1][0] = chunks[-1][0][:sz]
        runs.append(chunks)
    real = run_unit({"kind": "populate", "runs": runs})
    for chunks, rr in zip(runs, real):
        want = b"".join(c for c, _ in chunks)
        ctx.case(name, (len(want), len(chunks)), len(rr["puts"]) > 1, {"sizes": [len(c) for c, _ in chunks], "puts": len(rr["puts"])})
        bad = []
        if bytes.fromhex(rr["got"]) != want:
            bad.append("bytes differ")
        if any(not (1 <= n_ <= 1024) for n_, _ in rr["puts"]):
            bad.append("a put outside 1..1024 bytes")
        if any(cl for _, cl in rr["puts"]):
            bad.append("a put after closed=True")
        if not rr["closed"] or rr["alive"]:
            bad.append("iterqueue returned before closed / thread end")
        if bad:
            ctx.disagree(name, {"sizes": [len(c) for c, _ in chunks]}, {"puts": rr["puts"][:10], "closed": rr["closed"], "alive": rr["alive"], "problems": bad}, "model: chunks of 1..1024 bytes, closed only after the last put")
            ctx.spec_failure({"stream": name, "sizes": [len(c) for c, _ in chunks]}, {"problems": bad}, "populate_fd_queue / iterqueue did not deliver the bytes written to the pipe", None)


def stream_membuf(ctx, n, name="membuf-ops"):
    ctx.stream_rule(
        name,
        "a real io.BytesIO driven by the statement sequence of _alt_mode_writer (tell, seek(0,END), write, seek(p)) interleaved "
        "with reads of random sizes exactly as a random schedule says, compared with the Lean machine position by position; the "
        "statement sequence itself is recorded from the real PopenThread._alt_mode_writer on an instrumented buffer; non-trivial = a "
        "read lands between tell() and seek(0,END)",
    )
    runs = []
    for _ in range(n):
        chunks = [list(nasty_bytes(ctx.rng, ctx.rng.choice([1, 2, 5]))) for _ in range(ctx.rng.randint(0, 4))]
        evs = [("W" if ctx.rng.random() < 0.65 else ["R", ctx.rng.choice([0, 1, 2, 5, 100])]) for _ in range(ctx.rng.randint(0, 24))]
        runs.append((chunks, evs))
    real = run_unit({"kind": "membuf", "runs": runs})
    for (chunks, evs), rr in zip(runs, real["runs"]):
        sev = [Sym("W") if e == "W" else [Sym("R"), e[1]] for e in evs]
        final, tame, done, _deliv, trace = ctx.driver.call("c06.membuf", False, chunks, sev)
        ctx.case(name, repr((chunks, evs)), not tame, {"chunks": chunks, "events": evs[:10]})
        ctx.count("membuf/" + ("tame" if tame else "read-in-window"))
        if final != rr["final"] or trace != rr["trace"]:
            ctx.disagree(name, {"chunks": chunks, "events": evs}, {"final": rr["final"], "trace": rr["trace"]}, {"final": final, "trace": trace})
    want_calls = ["lock+", "tell", "seek(0, 2)", "write", "seek(1,)", "lock-"]
    ctx.fingerprints["_alt_mode_writer.calls"] = real["writer_calls"]
    ctx.extra["reader_takes_writer_lock"] = real["reader_takes_lock"]
    if real["writer_calls"] != want_calls or real["writer_result"] != ["abcxy", 1]:
        ctx.disagree(name, {"what": "statement sequence of PopenThread._alt_mode_writer on an instrumented BytesIO"}, {"calls": real["writer_calls"], "result": real["writer_result"]}, {"calls": want_calls, "result": ["abcxy", 1]})
    if not real["reader_takes_lock"]:
        # C06_B_locked is the theorem claimed for the current code: its hypothesis is that iterraw reads under PopenThread.lock
        ctx.disagree(name, {"what": "CommandPipeline.iterraw takes the proc's lock around readlines (hypothesis of C06_B_locked)"}, False, True)
    return real["reader_takes_lock"]


# ======================================================================================= directed programs (the known findings)
def _base(cid, form, payload, stages, **kw):
    c = {"id": cid, "form": form, "pkind": "directed", "payload": payload, "exp": kw.pop("exp", payload), "stages": stages}
    c.update(kw)
    return c


def d_late_stdin(cid, delay=0.4, form="stdout"):
    return _base(cid, form, b"hello\nworld\n", [{"role": "src", "kind": "ext_sh", "rc": 0, "needs_file": True},
                                                 {"role": "fil", "kind": "alias", "mode": "buffer", "ret": ["int", 0], "read": "all", "pre_delay": delay}],
                 views=["out", "rtn"], directed=["late_stdin", {"delay": delay, "form": form}])


def d_partial(cid, how="break", n=2000, k=1, wait=0.3):
    payload = "".join(f"{i}\n" for i in range(1, n + 1)).encode()
    return _base(cid, "partial", payload, [{"role": "src", "kind": "ext_sh", "rc": 0, "needs_file": True}], views=["out", "raw_out", "rtn"],
                 partial_how=how, partial_k=k, partial_wait=wait, directed=["partial", {"how": how, "n": n, "k": k, "wait": wait}])


def d_inner(cid, form="stdout"):
    return _base(cid, form, b"", [{"role": "src", "kind": "inner", "parts": ["A1\n", "B2", "C3\n"], "ret": ["int", 0]}], exp=b"A1\nB2\nC3\n",
                 views=["out", "rtn"], directed=["inner", {"form": form}])


def d_fragcut(cid, which="crlf", stage="alias"):
    payload, n = {"crlf": (b"a\r\nb\n", 2), "multibyte": ("é\nb\n".encode(), 1)}[which]
    if stage == "alias":
        st = {"role": "src", "kind": "alias", "mode": "buffer", "ret": ["int", 0], "chunks": [[n, 0], [len(payload) - n, 0.3]]}
    else:
        st = {"role": "src", "kind": "ext_py", "rc": 0, "needs_file": True, "chunks": [[n, 0], [len(payload) - n, 0.3]]}
    return _base(cid, "object", payload, [st], views=["out", "iter", "raw_out", "rtn"], directed=["fragcut", {"which": which, "stage": stage}])


def d_crcrlf(cid):
    return _base(cid, "object", b"a\r\r\nb\n", [{"role": "src", "kind": "ext_sh", "rc": 0, "needs_file": True, "hint": "thread"}], views=["out", "raw_out", "rtn"], directed=["crcrlf", {}])


def d_onefrag(cid):
    return _base(cid, "object", b"a\rb\n", [{"role": "src", "kind": "ext_sh", "rc": 0, "needs_file": True, "hint": "thread"}], views=["out", "raw_out", "rtn"], directed=["onefrag", {}])


def d_vt(cid):
    return _base(cid, "stdout", b"a\x0bb\n", [{"role": "src", "kind": "ext_sh", "rc": 0, "needs_file": True}], directed=["vt", {}])


def d_dup(cid, n=1000):
    payload = "".join(f"{i}\n" for i in range(1, n + 1)).encode()
    return _base(cid, "object", payload, [{"role": "src", "kind": "ext_sh", "rc": 0, "needs_file": True, "hint": "thread"}], views=["raw_out", "out", "rtn"], barrier=True, directed=["dup", {"n": n}])


def d_stderr(cid):
    return _base(cid, "object", b"x\n", [{"role": "src", "kind": "alias", "mode": "buffer", "ret": ["int", 0]},
                                        {"role": "fil", "kind": "alias", "mode": "buffer", "ret": ["int", 0], "read": "all"}],
                 views=["out", "rtn"], special={"parse_proxy_return:before": 0.3}, dump_after=4, directed=["stderr", {}])


def d_global(cid):
    payload = b"".join(b"line %d\n" % i for i in range(40))
    return _base(cid, "object", payload, [{"role": "src", "kind": "alias", "mode": "buffer", "ret": ["int", 0], "chunks": [[100, 0], [100, 0.5]]},
                                         {"role": "fil", "kind": "alias", "mode": "print", "ret": ["int", 0], "read": "all"}],
                 views=["out", "rtn"], special={"proxy.run:before:1": 0.25}, directed=["global", {}])


DIRECTED = {"onefrag": d_onefrag, "global": d_global, "late_stdin": d_late_stdin, "partial": d_partial, "inner": d_inner, "fragcut": d_fragcut, "crcrlf": d_crcrlf, "vt": d_vt, "dup": d_dup, "stderr": d_stderr}
WITNESS = {
    K_STDIN: ["late_stdin", {}], K_PARTIAL: ["partial", {}], K_ORDER: ["inner", {}], K_FRAG: ["fragcut", {"which": "crlf", "stage": "alias"}],
    K_ONEFRAG: ["onefrag", {}], K_GLOBAL: ["global", {}], K_CRCRLF: ["crcrlf", {}], K_VT: ["vt", {}], K_DUP: ["dup", {}], K_STDERR: ["stderr", {}],
}


def judge_special(ctx, stream, case, obs):
    """the two directed shapes whose classifier needs more than `judge` looks at; everything else goes to `judge`"""
    d = case.get("directed", [None])[0]
    exp = case["exp"]
    csum = case_summary(case)
    if d == "inner" and isinstance(obs, dict) and not obs.get("exc"):
        a, b, c = case["stages"][0]["parts"]
        v = obs["views"].get("stdout") if case["form"] == "stdout" else obs["views"].get("out")
        got = dec_text(v, exp)
        if got is not None and got != exp.decode():
            key = K_ORDER if got == b + "\n" + a + c else None
            ctx.count("spec-failure/" + (key or "NEW"))
            ctx.spec_failure(csum | {"stream": stream}, {"value": got, "written_in_this_order": exp.decode(), "pipe": obs.get("pipe")},
                             "what the alias wrote through its stdout argument before running an inner command arrives AFTER the inner command's output", key)
            return
    if d == "partial" and isinstance(obs, dict) and not obs.get("exc"):
        calls = [[bytes.fromhex(f) for f in call] for call in obs.get("frags") or []]
        views = obs["views"]
        out = dec_text(views.get("out"), exp)
        raw = dec_bytes(views.get("raw_out"), exp)
        ok_out = out is not None and ctx.driver.call("c06.spec", lean_bytes(exp), None, codes(out), None, None)[1]
        if not ok_out or raw != exp:
            first = b"".join(calls[0]) if calls else b""
            second = b"".join(f for call in calls[1:] for f in call)
            m_lines, _m_out, _ = ctx.driver.call("c06.shape", [lean_bytes(f) for call in calls for f in call])
            o_lines = [codes(dec_text(x, exp)) for x in views.get("lines") or []]
            mech = exp.startswith(first) and exp.endswith(second) and len(first) + len(second) <= len(exp) and raw == second and o_lines == m_lines and len(calls) == 2
            key = K_PARTIAL if mech else None
            ctx.count("spec-failure/" + (key or "NEW"))
            ctx.spec_failure(csum | {"stream": stream}, {"out_len": len(out or ""), "raw_out_len": len(raw or b""), "expected_len": len(exp), "yielded_before_abandoning": len(first),
                                                         "delivered_by_the_second_reader": len(second), "lost_bytes": len(exp) - len(first) - len(second)},
                             "after an abandoned iteration .out / .raw_out miss output the command wrote", key)
        if obs.get("rtn") != 0:
            ctx.spec_failure(csum | {"stream": stream}, {"rtn": obs.get("rtn")}, "the reported return code is not the last stage's", None)
        return
    judge(ctx, stream, case, obs)


def replay_known(ctx):
    for k, f in enumerate(ctx.known):
        w = f.get("witness") or {}
        name, params = w.get("directed", [None, {}])
        if name not in DIRECTED:
            continue
        case = DIRECTED[name](900000 + k, **params)
        before = len(ctx.spec_failures)
        obs = run_batch([case], timeout=10 if name == "stderr" else 40)[0]
        judge_special(ctx, "known-witness", case, obs)
        mine = [sf for sf in ctx.spec_failures[before:]]
        # an open finding must still show ITS failure; the witness of a fixed finding must pass altogether (whatever fails there is
        # recorded above with a key that is not an open one, i.e. it is a violation)
        fails = bool(mine) if str(f.get("status", "")).startswith("fixed") else any(sf["key"] == f["key"] for sf in mine)
        ctx.replayed(f["key"], fails, {"observed": [{"why": sf["why"], "key": sf["key"]} for sf in mine][:4]})


def stream_pipelines(ctx, n, name="pipelines", **kw):
    CH = 60
    for base in range(0, n, CH):
        if ctx.enough_failures():
            break
        cases = [make_case(f"C06:{ctx.seed}:{name}:{i}", i, **kw) for i in range(base, min(n, base + CH))]
        results = run_batch(cases)
        for case, obs in zip(cases, results):
            nontriv = len(case["exp"]) > 0
            ctx.case(name, case["regen"]["seed"], nontriv, {k: case[k] for k in ("form", "pkind")} | {"size": len(case["payload"]), "stages": [s["kind"] for s in case["stages"]]} if case["id"] < 3 else None)
            judge_special(ctx, name, case, obs)


PIPE_RULE = (
    "generated programs run by the real Execer in a forked worker whose own fds 1/2 are files: pipelines of 1-4 stages (sh -c / cat / "
    "a python writer with scripted chunk sizes, delays, lingering exit / threaded callable aliases writing via stdout.buffer, "
    "stdout.write, print or their return value / an unthreaded alias / head -c), @thread / @unthread on the last stage, exit codes "
    "and alias return-value forms, stderr markers; payload kinds plain, utf8, crlf, esc, binary, oneline, vt, longline, crcrlf, sizes "
    "0..8193 around every 1024 multiple and (when allowed) 65535..262145; capture forms $(), !() with views .out .raw_out .rtn "
    "iteration str() in random order — for 40% of the !() programs preceded by a schedule of reads BEFORE the end (.output / .lines "
    "right after creation, after a short delay, after k iterated lines of an iteration that is resumed afterwards) — and @$(); 60% of the programs with seeded random delays injected around populate_fd_queue, "
    "queue.put, read_queue, PopenThread.run/_read_write/_alt_mode_writer, iterraw (every yield), _close_prev_procs, "
    "_prev_procs_done, PrevProcCloser.run, ProcProxyThread.run, parse_proxy_return, PipeChannel.close_*. Correspondence: lines/.out/"
    ".raw_out vs the shaping model on the fragments iterraw really yielded, $() vs the $()-path model, .rtn vs the return-code model. "
    "Property (Lean spec): fragments joined = bytes written; text views = the text modulo CR/CRLF->LF and escape stripping, one-line "
    "$() without its newline; rtn = last stage; terminal stdout empty, terminal stderr = the stages' stderr text only"
)


def run(ctx):
    ctx.assumptions += [
        "the OS delivers pipe bytes in order, os.read returns b'' only at EOF, EOF arrives once every write end is closed",
        "single method calls of queue.Queue and io.BytesIO are atomic (GIL)",
        "liveness is observed with timeouts (40 s per program), not proved; a hang is reported as a property failure",
        "payloads never contain an alternate-screen switch (ESC[?1049h / ?47h / ?1047h and their l forms): xonsh diverts those to the terminal on purpose",
        "$XONSH_ENCODING=utf-8, $XONSH_ENCODING_ERRORS=surrogateescape, $XONSH_SUBPROC_OUTPUT_FORMAT=stream_lines, $THREAD_SUBPROCS=True, $XONSH_CAPTURE_ALWAYS=False (the defaults)",
        "general streams use at most one callable-alias stage per pipeline (two concurrent alias threads swap the process-global sys.stdout/sys.stderr under each other: known finding); the alias-pipelines stream lifts that",
    ]
    ctx.trusted_base += [
        "the statements in lean/XonshVerif/Props/C06.lean and the hand-written models in Model/Capture.lean (tied to the code by correspondence, not translated)",
        "xv/props/c06.py: generators, the forked worker, run-time wrappers that inject delays / record fragments (no source edits), the Lean spec oracle (Shape.spec*)",
        "CPython queue.Queue / io.BytesIO / GIL atomicity of single method calls; the OS's pipe semantics; liveness observed with timeouts only",
    ]
    ctx.explanation = (
        "Models in lean/XonshVerif/Model/Capture.lean (QReader, MemBuf, Shape, Rtn), theorems in Props/C06.lean. Tie: every model "
        "function against the real builtin / class (model-functions, queue-reader-ops, populate-fd-queue, membuf-ops) and whole "
        "generated pipelines in a forked worker under seeded delay injection, judged by the Lean spec. Liveness and OS pipe "
        "behaviour are observed only."
    )
    replay_known(ctx)
    stream_prims(ctx, ctx.n(400, 4000))
    stream_qreader(ctx, ctx.n(150, 2000))
    stream_populate(ctx, ctx.n(12, 120))
    stream_history(ctx, ctx.n(150, 2000))
    stream_membuf(ctx, ctx.n(200, 3000))
    ctx.stream_rule("pipelines", PIPE_RULE)
    stream_pipelines(ctx, ctx.n(190, 2400), big_ok=False)
    ctx.stream_rule("big-payloads", "as `pipelines`, payload sizes 65535..262145 (one to four pipe buffers, each boundary -1/0/+1) more often")
    stream_pipelines(ctx, ctx.n(16, 220), name="big-payloads", big_ok=True, forms=("stdout", "object"), kinds=["plain", "binary", "crlf", "utf8", "longline"])
    ctx.stream_rule("alias-pipelines", "as `pipelines`, any number of callable-alias stages per pipeline (threads of several aliases run concurrently)")
    stream_pipelines(ctx, ctx.n(60, 600), name="alias-pipelines", big_ok=False, many_aliases=True)


def search(ctx, reason):
    ctx.extra["search_reason"] = reason
    ctx.stream_rule("search:pipelines", PIPE_RULE)
    stream_pipelines(ctx, ctx.n(500, 3000), name="search:pipelines", big_ok=True)


def replay(ctx, path):
    r = json.loads(open(path).read())
    c = r["case"]
    if c.get("directed"):
        case = DIRECTED[c["directed"][0]](c.get("id", 1), **c["directed"][1])
    elif c.get("regen"):
        case = make_case(c["regen"]["seed"], c.get("id", 1), **c["regen"]["kw"])
    elif c.get("history"):
        ops = c["history"]
        rr = run_unit({"kind": "history", "runs": [ops]})[0]
        sops = [[Sym("deliver"), codes(o[1])] if o[0] == "deliver" else Sym(o[0]) for o in ops]
        m_reads, m_full = ctx.driver.call("c06.hist", False, sops)
        full = "".join(chr(x) for x in m_full)
        print("history:", ops)
        print("reads (ended, value):", rr, "| text of all lines:", repr(full))
        bad = [[e, codes(v)] for e, v in rr] != m_reads or any(e and v != full for e, v in rr)
        print(f"VIOLATION property={ID} replay={path}" if bad else "property holds on this history")
        return common.EXIT_VIOLATION if bad else common.EXIT_OK
    else:
        print("this replay is not a pipeline program; re-run ./check C06 with the same seed")
        return common.EXIT_INFRA
    obs = run_batch([case])[0]
    judge_special(ctx, "replay", case, obs)
    print("program:", obs.get("pipe") if isinstance(obs, dict) else obs, "| form:", case["form"], "| payload bytes:", len(case["payload"]))
    open_keys = {f["key"] for f in ctx.known if f.get("status") == "open"}
    bad = [f for f in ctx.spec_failures if f["key"] not in open_keys] or ctx.disagreements
    for f in ctx.spec_failures:
        print("  property failure:", f["why"], "| known finding:", f["key"])
    for d in ctx.disagreements[:3]:
        print("  model disagreement:", d["impl"], "vs", d["model"])
    print(f"VIOLATION property={ID} replay={path}" if bad else "property holds on this program (or only known findings)")
    return common.EXIT_VIOLATION if bad else common.EXIT_OK
