"""C19 — Cached bytecode never changes what a script does."""

from __future__ import annotations

import contextlib
import io
import json
import os
import shutil
import sys
import uuid

from .. import common
from ..codec import Sym

ID = "C19"
LEVEL = "proof"
GEN_MODULES = ["XonshVerif.Gen.CodeCache"]
PROPS_MODULES = ["XonshVerif.Props.C19"]
TECHNIQUE = "Lean 4 proof (cache-validity invariant by induction over histories; injectivity of the cache-name encoder over the translated character table; switch table) + translator + differential correspondence + exhaustive truncation / bit-flip enumeration of real cache files"
LEVEL_TEXT = (
    "proof: the freshness test, the should_use_cache switch expression and _CHARACTER_MAP are translated from /repo on every run; "
    "theorems: for EVERY history of edit / touch / run (cache on or off) / damaged entry / foreign-version entry / removal in which "
    "edits respect the clock proviso of the statement, every run executes the then-current source (C19_fresh; the same-tick "
    "counterexample shows the proviso is needed); cache off is plain compilation; unreadable or foreign entries are never executed "
    "and are rebuilt; the switch table; the cache-name encoder is injective for all paths (different scripts never share an entry). "
    "Tie: real run_script_with_cache / run_code_with_cache under os.utime-controlled sub-second mtimes, EVERY truncation length of "
    "every produced cache file, single-bit flips, foreign headers, relative script names from different directories."
)
LEVEL_NOTE = (
    "Trusted: Lean kernel + standard axioms; translator; harness. compile() and marshal are abstract in the model; that marshal.load "
    "rejects every strict prefix is established by exhaustive enumeration per produced file, not proved. md5 is assumed injective on "
    "the code strings (distinct-entry clause for run_code_with_cache). realpath is the file system's."
)

T0 = 1_700_000_000_000_000_000  # ns; one model clock unit = 0.1 s


def ns(clock):
    return T0 + clock * 100_000_000


class World:
    """a scratch data dir, one script, a real Execer"""

    _execer = None

    def __init__(self, relname="job.xsh"):
        common.setup_repo_imports()
        import xonsh.codecache as cc
        from xonsh.built_ins import XSH
        from xonsh.environ import Env
        from xonsh.execer import Execer

        self.cc = cc
        self.root = str(common.scratch_root() / f"c19-{uuid.uuid4().hex[:8]}")
        os.makedirs(self.root)
        XSH.env = Env(XONSH_DATA_DIR=os.path.join(self.root, "data"), XONSH_CACHE_SCRIPTS=True, XONSH_CACHE_EVERYTHING=False, XONSH_DEBUG=0, HOME=self.root)
        if World._execer is None:
            World._execer = Execer(scriptcache=True, cacheall=False)
        self.execer = World._execer
        XSH.execer = self.execer
        self.script = os.path.join(self.root, relname)
        self.XSH = XSH

    def cachefile(self):
        return self.cc.get_cache_filename(self.script, code=False)

    def write(self, content, clock):
        with open(self.script, "w") as f:
            f.write(f"RESULT.append({content})\n")
        os.utime(self.script, ns=(ns(clock), ns(clock)))

    def touch(self, clock):
        os.utime(self.script, ns=(ns(clock), ns(clock)))

    def run(self, use_cache, clock, script=None):
        """-> executed content id, or ('raised', repr)"""
        glb = {"RESULT": []}
        self.execer.scriptcache = bool(use_cache)
        cf = self.cc.get_cache_filename(script or self.script, code=False)
        before = os.stat(cf).st_mtime_ns if os.path.exists(cf) else None
        try:
            with contextlib.redirect_stderr(io.StringIO()), contextlib.redirect_stdout(io.StringIO()):
                res = self.cc.run_script_with_cache(script or self.script, self.execer, glb=glb, loc=None, mode="exec")
        except BaseException as e:  # noqa: BLE001
            self.execer.scriptcache = True
            return ("raised", f"{type(e).__name__}: {e}"[:200])
        self.execer.scriptcache = True
        if res is None or res[0] is not None:
            return ("raised", repr(res)[:200])
        # a cache entry written by this run gets the model's clock as its mtime
        if os.path.exists(cf) and os.stat(cf).st_mtime_ns != before:
            os.utime(cf, ns=(ns(clock), ns(clock)))
        return glb["RESULT"][-1] if glb["RESULT"] else ("raised", "script body did not run")

    def close(self):
        shutil.rmtree(self.root, ignore_errors=True)


def _unreadable(data):
    import marshal

    try:
        hdr = data.index(b"\n", data.index(b"\n") + 1) + 1
    except ValueError:
        return True
    try:
        marshal.loads(data[hdr:])
        return False
    except BaseException:  # noqa: BLE001
        return True


def unreadable(data):
    """does marshal reject the payload of this cache file? (an entry that still unmarshals — to whatever code object — is
    not 'unreadable': the cache format has no checksum, such damage is outside the property, and executing it could
    crash the interpreter, so it is never run).  marshal.loads is documented as unsafe on damaged data — it can take the
    interpreter down with it (it did, in a thorough run) — so the probe runs in a forked child; a child that dies counts as
    'marshal does not reject it' and the caller falls back to a truncation, which marshal does reject."""
    import base64

    r = common.map_in_child(lambda b: _unreadable(base64.b64decode(b)), [base64.b64encode(data).decode()], per_item_timeout=20, label="c19-marshal")[0]
    return r is True


def keep_mtime(path, fn):
    st = os.stat(path)
    fn()
    os.utime(path, ns=(st.st_atime_ns, st.st_mtime_ns))


# ------------------------------------------------------------------ stream 1: histories
def gen_history(rng, length, strict):
    ops = []
    content = 1
    dirty = False  # a cache entry may have been written since the last tick
    for _ in range(length):
        r = rng.random()
        if r < 0.2:
            ops.append([Sym("tick"), rng.choice([0, 0, 1, 4, 9, 25])])
            dirty = False
        elif r < 0.4:
            if strict and dirty:
                ops.append([Sym("tick"), rng.choice([0, 0, 3])])  # the clock proviso: the edit is saved later than the entry
                dirty = False
            content += 1
            ops.append([Sym("edit"), content])
        elif r < 0.47:
            ops.append([Sym("touch")])
        elif r < 0.82:
            u = rng.random() < 0.8
            ops.append([Sym("run"), u])
            dirty = dirty or u
        elif r < 0.9:
            ops.append([Sym("damage")])
        elif r < 0.95:
            ops.append([Sym("foreign")])
        else:
            ops.append([Sym("removeCache")])
    ops.append([Sym("run"), True])
    return ops


def run_history_impl(w, rng, ops):
    clock = 0
    w.write(1, 0)
    out = []
    for op in ops:
        name = str(op[0])
        res = None
        cf = w.cachefile()
        if name == "tick":
            clock += op[1] + 1
        elif name == "edit":
            w.write(op[1], clock)
        elif name == "touch":
            w.touch(clock)
        elif name == "run":
            res = w.run(op[1], clock)
        elif name == "damage" and os.path.exists(cf):
            data = open(cf, "rb").read()
            try:
                hdr = data.index(b"\n", data.index(b"\n") + 1) + 1
            except ValueError:
                hdr = 0  # already truncated inside the header
            kind = rng.random()
            if len(data) < 2 or hdr >= len(data):
                new = data[: len(data) // 2]
            elif kind < 0.6:
                new = data[: rng.randint(0, len(data) - 1)]
            elif kind < 0.9:
                i = rng.randrange(hdr, len(data))
                new = data[:i] + bytes([data[i] ^ (1 << rng.randrange(8))]) + data[i + 1 :]
            else:
                new = data[:hdr] + os.urandom(len(data) - hdr)
            if not unreadable(new):
                new = data[: max(0, len(data) - 3)]  # still loadable after the flip: truncate instead
            keep_mtime(cf, lambda: open(cf, "wb").write(new))
        elif name == "foreign" and os.path.exists(cf):
            data = open(cf, "rb").read()
            # another xonsh, another Python — or the SAME Python x.y.z at another release level / serial (3.12.1.candidate.1 vs
            # 3.12.1.final.0): every field of both stamps counts
            lines = data.split(b"\n", 2)
            kind = rng.random()
            if len(lines) < 3 or kind < 0.34:
                rest = data.split(b"\n", 1)[1] if b"\n" in data else b""  # (an earlier `damage` may have cut the header line)
                new = b"0.0.0-other\n" + rest
            elif kind < 0.5:
                new = lines[0] + b"\n" + b"9" + lines[1][1:] + b"\n" + lines[2]
            else:
                py = lines[1].split(b".")
                if len(py) >= 5:
                    # (always a value that differs from the RUNNING interpreter's, so that a second `foreign` cannot restore it)
                    import sys as _sys

                    if rng.random() < 0.5:
                        py[3] = b"candidate" if _sys.version_info.releaselevel != "candidate" else b"final"
                    else:
                        py[4] = str(_sys.version_info.serial + 1).encode()
                    new = lines[0] + b"\n" + b".".join(py) + b"\n" + lines[2]
                else:
                    new = b"0.0.0-other\n" + lines[1] + b"\n" + lines[2]
            keep_mtime(cf, lambda: open(cf, "wb").write(new))
        elif name == "removeCache" and os.path.exists(cf):
            os.unlink(cf)
        out.append((res, os.path.exists(cf)))
    return out


def stream_histories(ctx, n, length, name="histories"):
    ctx.stream_rule(
        name,
        f"random histories of {length} ops on a real script + real run_script_with_cache: save new text / touch (mtimes set with "
        "os.utime at 0.1 s resolution, incl. edits 0.1 s after a cache write and same-tick edits), run with the cache on or off, "
        "truncate / bit-flip / randomise the cache payload, give it a foreign version header, remove it; half of the histories obey "
        "the clock proviso (then EVERY run must execute the current text), the other half does not (compared with the model only); "
        "every run result and the existence of the entry are compared with the Lean machine; non-trivial = a run after an edit "
        "that followed a cached run",
    )
    for k in range(n):
        if ctx.enough_failures():
            break
        strict = k % 2 == 0
        ops = gen_history(ctx.rng, length, strict)
        model = ctx.driver.call("c19.run", 1, ops)
        w = World()
        try:
            impl = run_history_impl(w, ctx.rng, ops)
        finally:
            w.close()
        seen_cached_run = seen_edit_after = False
        nontriv = False
        for op in ops:
            ctx.count(f"op/{op[0]}")
            if str(op[0]) == "run" and op[1]:
                nontriv = nontriv or seen_edit_after
                seen_cached_run = True
            if str(op[0]) == "edit" and seen_cached_run:
                seen_edit_after = True
        ctx.case(name, repr(ops), nontriv, {"strict_clock": strict, "ops": fmt(ops[:12])})
        case = {"stream": name, "strict_clock": strict, "ops": fmt(ops)}
        for i, (op, (m_res, m_content, m_has), (i_res, i_has)) in enumerate(zip(ops, model, impl)):
            if str(op[0]) != "run":
                continue
            if isinstance(i_res, tuple):
                ctx.spec_failure(case | {"upto": i}, {"run": i_res[1]}, "running a script with the cache enabled was fatal / did not run the script", None)
                break
            if strict and i_res != m_content:
                ctx.spec_failure(case | {"upto": i}, {"executed_text": i_res, "current_text": m_content},
                                 "a run executed bytecode of an older text although the source had a newer modification time", None)
                break
            if not op[1] and i_res != m_content:
                ctx.spec_failure(case | {"upto": i}, {"executed_text": i_res, "current_text": m_content}, "with the cache off a run did not execute the current text", None)
                break
            if i_res != m_res[1] if isinstance(m_res, list) else True:
                # a damaged payload may by chance still unmarshal to the old code object: then the model's `unreadable`
                # does not describe it; only a result that is NEITHER the model's nor explained by that is a disagreement
                damaged_before = any(str(o[0]) == "damage" for o in ops[:i])
                if not (damaged_before and not strict):
                    ctx.disagree(name, case | {"upto": i}, i_res, fmt(m_res))
                    break


# ------------------------------------------------------------------ stream 2: every truncation, bit flips, foreign headers
def stream_damage(ctx, nfiles, flips, name="damaged-entries"):
    ctx.stream_rule(
        name,
        "for scripts of several shapes a cache entry is produced, then EVERY truncation length of the file (exhaustive), a sample of "
        "single-bit flips over the whole file and foreign xonsh/Python version lines are tried, each followed by a run with the "
        "cache on: the run must not raise, must execute the current text, and a later run must work too; non-trivial = every damaged file",
    )
    bodies = ["", "x = [i for i in range(3)]\n", "def f(a, *b, c=1, **d):\n    return a\nf(1)\n", "import os\ny = {'k': (1, 2.5, 'é')}\n"]
    for b in range(nfiles):
        w = World()
        try:
            body = bodies[b % len(bodies)]
            with open(w.script, "w") as f:
                f.write(body + "RESULT.append(7)\n")
            os.utime(w.script, ns=(ns(0), ns(0)))
            w.run(True, 5)
            cf = w.cachefile()
            good = open(cf, "rb").read()
            variants = [("truncate", n, good[:n]) for n in range(len(good))]
            for _ in range(flips):
                i = ctx.rng.randrange(len(good))
                bit = ctx.rng.randrange(8)
                variants.append(("bitflip", (i, bit), good[:i] + bytes([good[i] ^ (1 << bit)]) + good[i + 1 :]))
            rest = good.split(b"\n", 2)
            variants.append(("foreign-xonsh", 0, b"9.9.9\n" + rest[1] + b"\n" + rest[2]))
            variants.append(("foreign-python", 0, rest[0] + b"\n" + b"\x03\x02\x01\x00" + b"\n" + rest[2]))
            for kind, where, data in variants:
                if kind == "bitflip" and not unreadable(data) and data.split(b"\n", 2)[:2] == good.split(b"\n", 2)[:2]:
                    ctx.count("damage/bitflip-still-loadable (not run)")
                    continue
                with open(cf, "wb") as f:
                    f.write(data)
                os.utime(cf, ns=(ns(5), ns(5)))
                r1 = w.run(True, 6)
                r2 = w.run(True, 7)
                ctx.case(name, (b, kind, where), True, {"script": b, "damage": kind, "at": where} if kind != "truncate" or where % 50 == 0 else None)
                ctx.count(f"damage/{kind}")
                if r1 != 7 or r2 != 7:
                    ctx.spec_failure({"stream": name, "script_body": body, "damage": kind, "at": where}, {"first_run": r1, "second_run": r2},
                                     f"a {kind} cache entry was fatal or executed instead of being ignored and rebuilt", None)
                    break
        finally:
            w.close()
    ctx.exhaustive = True


# ------------------------------------------------------------------ stream 3: entries are never shared
def stream_names(ctx, n, name="entry-names"):
    ctx.stream_rule(
        name,
        "(a) scripts with the SAME relative name in different directories, each run by its relative name from its own directory "
        "(the second source older than the entry written by the first): each must run its own text; (b) random pairs of path "
        "component lists over A-Z a-z . _ - digits through the real _cache_renamer: equal names only for equal paths, and the "
        "names compared with the Lean encoder; (c) different code strings through run_code_with_cache run their own code; "
        "non-trivial = pairs differing only in case / dots / underscores",
    )
    # (a)
    for k in range(max(2, n // 50)):
        w = World(relname="a/build.xsh")
        here = os.getcwd()
        try:
            for d, c in (("a", 11), ("b", 22)):
                os.makedirs(os.path.join(w.root, d), exist_ok=True)
                p = os.path.join(w.root, d, "build.xsh")
                with open(p, "w") as f:
                    f.write(f"RESULT.append({c})\n")
                os.utime(p, ns=(ns(0), ns(0)))
            got = []
            for d in ("a", "b", "a"):
                os.chdir(os.path.join(w.root, d))
                got.append(w.run(True, 50, script="build.xsh"))
            ctx.case(name, ("relative", k), True, {"relative_name": "build.xsh", "dirs": ["a", "b", "a"]})
            if got != [11, 22, 11]:
                ctx.spec_failure({"stream": name, "relative_name": "build.xsh", "run_from": ["a", "b", "a"]}, {"executed": got, "want": [11, 22, 11]},
                                 "two different scripts with the same relative name shared a cache entry", None)
        finally:
            os.chdir(here)
            w.close()
    # (b)
    import xonsh.codecache as cc

    table = sorted([ord(k), [ord(c) for c in v]] for k, v in dict(cc._CHARACTER_MAP).items())
    tag = sys.implementation.cache_tag
    alphabet = "AaBbZz._-09x"
    seen = {}
    for k in range(n):
        comps = ["".join(ctx.rng.choice(alphabet) for _ in range(ctx.rng.randint(1, 4))) for _ in range(ctx.rng.randint(1, 3))]
        path = "/".join(comps)
        real = cc._cache_renamer(path, code=True)
        model = ["".join(map(chr, x)) for x in ctx.driver.call("c19.renamer", table, [ord(c) for c in tag], [[ord(c) for c in w_] for w_ in comps])]
        key = tuple(real)
        tricky = any(c in path for c in "._") and any(c.isupper() for c in path)
        ctx.case(name, path, tricky, {"path": path, "name": real})
        if real != model:
            ctx.disagree(name, {"path": path}, real, model)
        if key in seen and seen[key] != comps:
            ctx.spec_failure({"stream": name, "paths": [seen[key], comps]}, {"shared_name": real}, "two different paths map to the same cache file name", None)
        seen[key] = comps
    # (c)
    w = World()
    try:
        w.XSH.env["XONSH_CACHE_EVERYTHING"] = True
        for k in range(max(3, n // 40)):
            codes = [f"RESULT.append({100 + j})\n" for j in range(3)]
            got = []
            for code in codes + codes:
                glb = {"RESULT": []}
                try:
                    w.cc.run_code_with_cache(code, "<c>", w.execer, glb=glb, loc=None, mode="exec")
                    got.append(glb["RESULT"][-1] if glb["RESULT"] else None)
                except BaseException as e:  # noqa: BLE001
                    got.append(type(e).__name__)
            ctx.case(name, ("code", k), True)
            if got != [100, 101, 102, 100, 101, 102]:
                ctx.spec_failure({"stream": name, "codes": codes}, {"executed": got}, "different -c code strings shared a cache entry (or a cached one did not run)", None)
        w.XSH.env["XONSH_CACHE_EVERYTHING"] = False
    finally:
        w.close()


def stream_switches(ctx, name="switches"):
    ctx.stream_rule(name, "all 2^4 settings of (--no-script-cache, cacheall, $XONSH_CACHE_SCRIPTS, $XONSH_CACHE_EVERYTHING) x {exec, single} "
                          "through the real should_use_cache vs the documented table (exhaustive); non-trivial = every row")
    w = World()
    try:
        for mode in ("exec", "single"):
            for bits in range(16):
                sc, ca, es, ee = [bool(bits >> i & 1) for i in range(4)]
                w.execer.scriptcache, w.execer.cacheall = sc, ca
                w.XSH.env["XONSH_CACHE_SCRIPTS"], w.XSH.env["XONSH_CACHE_EVERYTHING"] = es, ee
                got = bool(w.cc.should_use_cache(w.execer, mode))
                want = ((sc or ca) and (es or ee)) if mode == "exec" else (ca or ee)
                ctx.case(name, (mode, bits), True, {"mode": mode, "scriptcache": sc, "cacheall": ca, "env_scripts": es, "env_everything": ee, "use_cache": got} if bits in (0, 5) else None)
                if got != want:
                    ctx.spec_failure({"stream": name, "mode": mode, "scriptcache": sc, "cacheall": ca, "env_scripts": es, "env_everything": ee}, {"use_cache": got, "documented": want},
                                     "should_use_cache departs from the documented switch table", None)
        w.execer.scriptcache, w.execer.cacheall = True, False
    finally:
        w.close()


def fmt(x):
    if isinstance(x, Sym):
        return str(x)
    if isinstance(x, (list, tuple)):
        return [fmt(y) for y in x]
    return x


def translate(ctx):
    from translator import c19 as tr

    text, fps, errors = tr.generate(common.REPO)
    common.write_if_changed(common.module_path("XonshVerif.Gen.CodeCache"), text)
    ctx.fingerprints.update(fps)
    ctx.translator_errors += errors
    ctx.trusted_base.append("translator/pylite.py + translator/c19.py (freshness comparison, switch expression, _CHARACTER_MAP dump)")


def run(ctx):
    ctx.assumptions += [
        "file modification times are what os.utime sets (0.1 s model units); marshal rejects every strict prefix (enumerated per file, not proved)",
        "md5 does not collide on the code strings used",
    ]
    ctx.explanation = (
        "Gen/CodeCache.lean is regenerated from /repo every run; Props/C19.lean proves freshness for all strict-clock histories, the "
        "bad-entry and switch clauses and injectivity of the entry names; the tie runs real scripts through the real cache under "
        "controlled mtimes, every truncation length, bit flips, foreign headers and colliding relative names."
    )
    stream_histories(ctx, ctx.n(120, 2000), ctx.n(14, 20))
    stream_damage(ctx, ctx.n(1, 4), ctx.n(120, 4000))
    stream_names(ctx, ctx.n(300, 4000))
    stream_switches(ctx)


def search(ctx, reason):
    ctx.extra["search_reason"] = reason
    stream_histories(ctx, ctx.n(600, 3000), 20, name="search:histories")
    stream_damage(ctx, 4, ctx.n(1500, 4000), name="search:damaged-entries")


def replay(ctx, path):
    r = json.loads(open(path).read())
    c = r["case"]
    if "ops" in c:
        ops = [[Sym(o[0])] + o[1:] for o in c["ops"]][: c.get("upto", len(c["ops"])) + 1]
        model = ctx.driver.call("c19.run", 1, ops)
        w = World()
        try:
            impl = run_history_impl(w, ctx.rng, ops)
        finally:
            w.close()
        print("executed:", impl[-1][0], " current text:", model[-1][1])
        bad = isinstance(impl[-1][0], tuple) or (c.get("strict_clock") and impl[-1][0] != model[-1][1])
    else:
        print("re-run ./check C19 with the same seed for this stream")
        return common.EXIT_INFRA
    print(f"VIOLATION property={ID} replay={path}" if bad else "property holds on this history")
    return common.EXIT_VIOLATION if bad else common.EXIT_OK
