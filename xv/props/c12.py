"""C12 — History records every command once, in order, and reads it back verbatim."""

from __future__ import annotations

import contextlib
import io
import json
import os
import shutil
import uuid

from .. import common
from ..codec import Sym

ID = "C12"
LEVEL = "proof"
PROPS_MODULES = ["XonshVerif.Props.C12"]
TECHNIQUE = "Lean 4 proof (invariant + refinement of the buffer/flusher-queue machine to an append-only log for all op sequences and flusher schedules; structural induction for the self-indexing JSON writer) + differential correspondence with imposed flusher schedules"
LEVEL_TEXT = (
    "proof (partial for len/index consistency): hand-written Lean model of JsonHistory's buffer, _len/_skipped accounting and FIFO of "
    "flusher snapshots. Theorems for ALL sequences of append / flush / flusher-runs / reads and all schedules: the accounting "
    "invariant; the recorded log (file ++ pending ++ buffer) only ever grows at its end by the accepted command (nothing lost, "
    "duplicated, reordered or invented); at quiescence every index below len reads the right command; without ignoredups/ignoreerr "
    "len and indexing agree at EVERY reachable state, flush in flight included. With those filters the full statement is false "
    "(C12_cex_len_index, known finding). The self-indexing JSON writer is modelled executably (LJ.ser) and tied (offsets, sizes and text "
    "compared with lazyjson on generated values, every node of the real output checked against its index entry) and its addressing "
    "theorem is proved for EVERY JSON value, any nesting: each node's (offset, size) index entry cuts exactly that node's own "
    "serialisation out of the file text and never reaches outside it (C12_lazyjson_addressing, C12_lazyjson_in_bounds; mutual "
    "structural induction over value / element list / key-value list). "
    "Tie: real JsonHistory with the flusher threads held and released by the harness, real LazyJSON, real SQLite backend."
)
LEVEL_NOTE = (
    "Trusted: Lean kernel + standard axioms; harness (flushers are held through the history's own condition variable, no hook in "
    "/repo needed); json.dumps/json.loads on leaves (ensure_ascii output is checked to be ASCII every run); SQLite. A flusher's "
    "dump is one atomic step (the code serialises flushers by queue + condition)."
)

TEXTS = [
    "ls -l", "echo 'quoted' \"double\"", "multi\nline\n  cmd", "tab\there", "日本語 コマンド", "emoji \U0001f600\U0001f680", "combining é ä",
    "rtl שלום", "ctrl \x01\x02\x1f", "back\\slash \\n", "lone \udc80 surrogate", "nul-free \x7f", "  leading space", "trailing space   ",
    "{\"json\": [1, 2]}", "a" * 300, "", "  line sep  ",
]


def _env(root, histcontrol=""):
    common.setup_repo_imports()
    from xonsh.built_ins import XSH
    from xonsh.environ import Env

    XSH.env = Env(XONSH_DATA_DIR=root, XONSH_DEBUG=0, HISTCONTROL=histcontrol, XONSH_STORE_STDOUT=False, XONSH_HISTORY_SAVE_CWD=True)
    XSH.history = None


# ------------------------------------------------------------------ stream 1: the buffer / flusher machine
def gen_ops(rng, length):
    ops = []
    for _ in range(length):
        r = rng.random()
        if r < 0.55:
            ops.append(("append", rng.randint(1, 4), rng.choice([0, 0, 0, 1]), rng.random() < 0.15))
        elif r < 0.63:
            ops.append(("flush",))
        elif r < 0.78:
            ops.append(("letrun",))
        else:
            ops.append(("read", rng.randint(0, 9)))
    return ops


def run_real(cfg, ops):
    """execute on a real JsonHistory, the harness holding the history's condition variable so that flusher threads run
    only when it says so; returns (effective model ops, per-step observations, final inps read back, on-disk inps)"""
    common.setup_repo_imports()
    import xonsh.history.json as hj

    root = str(common.scratch_root() / f"c12-{uuid.uuid4().hex[:8]}")
    os.makedirs(root)
    opts = ",".join(n for n, on in (("ignoredups", cfg[1]), ("ignoreerr", cfg[2]), ("ignorespace", cfg[3])) if on)
    _env(root, opts)
    hist = hj.JsonHistory(filename=os.path.join(root, "h.json"), buffersize=cfg[0], gc=False, ts=[0.0, None], locked=True, env={})
    eff, obs = [], []
    cond = hist._cond
    cond.acquire()
    n = 0

    def observe(read=Sym("-")):
        obs.append([read, len(hist), len(hist.buffer), len(hist._queue)])

    try:
        for op in ops:
            if op[0] == "append":
                n += 1
                hist.append({"inp": f"c{op[1]}", "rtn": op[2], "ts": [float(n), n + 0.5], "spc": op[3], "cwd": "/"})
                eff.append([Sym("append"), [op[1], op[2], op[3]]])
                observe()
            elif op[0] == "flush":
                hist.flush()
                eff.append([Sym("flush")])
                observe()
            elif op[0] == "letrun":
                before = len(hist._queue)
                if before:
                    cond.wait_for(lambda: len(hist._queue) < before, timeout=30)
                    ran = before - len(hist._queue)
                    if ran <= 0:
                        raise common.InfraError("a released flusher did not run within 30 s")
                    for k in range(ran):
                        eff.append([Sym("flusherRuns")])
                        if k == ran - 1:
                            observe()
                        else:
                            obs.append(None)  # several flushers ran back to back: only the state after the last is observed
            elif op[0] == "read":
                before = len(hist._queue)
                try:
                    v = hist.inps[op[1]]
                    r = [Sym("val"), int(v[1:])]
                except (IndexError, AttributeError):
                    # (an index equal to the number of stored commands makes LazyJSON hand back the whole list, which
                    #  then fails with AttributeError: the same out-of-range situation)
                    r = Sym("indexError")
                eff.append([Sym("read"), op[1]])
                observe(r)
        # quiescence, then everything is read back three ways
        wedged = False
        while len(hist._queue):
            before = len(hist._queue)
            if not cond.wait_for(lambda: len(hist._queue) < before, timeout=5):
                wedged = True  # nothing in the queue makes progress any more
                break
        if wedged:
            return eff, obs, {"wedged": [type(x).__name__ for x in hist._queue]}
        final_len = len(hist)
        by_index = []
        for i in range(final_len):
            try:
                by_index.append(int(hist.inps[i][1:]))
            except (IndexError, AttributeError):
                by_index.append("IndexError")
        try:
            by_iter = [int(it["inp"][1:]) for it in hist.items()]
        except (IndexError, AttributeError):
            by_iter = "IndexError"
        try:
            by_slice = [int(x[1:]) for x in hist.inps[:]]
        except (IndexError, AttributeError):
            by_slice = "IndexError"
    finally:
        cond.release()
    if "wedged" in locals() and wedged:
        pass
    hist.flush(at_exit=True)
    with open(hist.filename, encoding="utf-8") as f:
        text = f.read()
    disk = [int(c["inp"][1:]) for c in json.loads(text)["data"]["cmds"]]
    shutil.rmtree(root, ignore_errors=True)
    return eff, obs, {"len": final_len, "by_index": by_index, "by_iter": by_iter, "by_slice": by_slice, "disk": disk}


def spec_log(cfg, ops):
    """THE SPEC: the commands the session accepted, in order — an appended command is recorded unless a $HISTCONTROL rule
    excludes it (ignorespace: typed with a leading space; ignoreerr: failed; ignoredups: equal to the command before it)"""
    out, prev = [], None
    for op in ops:
        if op[0] != "append":
            continue
        inp, rtn, spc = op[1], op[2], op[3]
        if cfg[3] and spc:
            continue
        dropped = (cfg[2] and rtn != 0) or (cfg[1] and prev == inp)
        if not (cfg[2] and rtn != 0):
            prev = inp if not dropped or True else prev
        if not dropped:
            out.append(inp)
    return out


def stream_machine(ctx, n, length, name="buffer-and-flushers"):
    ctx.stream_rule(
        name,
        f"random sequences of {length} ops (append with return codes / leading-space flag over 4 texts so duplicates occur, flush, "
        "let-flushers-run, read by index) on a REAL JsonHistory with buffer sizes 1-5 and every $HISTCONTROL combination; flusher threads "
        "are held with the history's own condition variable and released by the harness (the schedule); after EVERY op len(), buffer "
        "and queue lengths and read results are compared with the Lean machine; at the end everything is read back by index, slice, "
        "iteration and decoded from disk; non-trivial = sequence with a read or len while a flusher was pending",
    )
    for _ in range(n):
        if ctx.enough_failures():
            break
        cfg = [ctx.rng.choice([1, 2, 3, 4, 5]), ctx.rng.random() < 0.4, ctx.rng.random() < 0.3, ctx.rng.random() < 0.3]
        ops = gen_ops(ctx.rng, length)
        with contextlib.redirect_stderr(io.StringIO()):
            eff, obs, final = run_real(cfg, ops)
        m_obs, m_contents = ctx.driver.call("c12.run", cfg, eff)
        if "wedged" in final:
            case = {"stream": name, "cfg": cfg, "ops": [list(o) for o in ops]}
            ctx.case(name, repr((cfg, ops)), True)
            ctx.spec_failure(case, {"queue": final["wedged"]}, "the history's flush queue is wedged: pending commands are never written (and flush at exit would hang)",
                             "reader-ticket-leak-wedges-queue")
            continue
        inflight = any(str(e[0]) == "read" and o is not None and o[3] > 0 for e, o in zip(eff, obs))
        ctx.case(name, repr((cfg, ops)), inflight, {"cfg": cfg, "ops": [list(o) for o in ops[:12]]})
        for e in eff:
            ctx.count(f"op/{e[0]}")
        case = {"stream": name, "cfg": cfg, "ops": [list(o) for o in ops]}
        # --- model vs implementation, step by step
        for i, (mo, io_) in enumerate(zip(m_obs, obs)):
            if io_ is not None and mo != io_:
                ctx.disagree(name, case | {"upto": i, "effective_ops": fmt(eff[: i + 1])}, fmt(io_), fmt(mo))
                break
        # --- the property on the implementation alone -----------------------------------------------
        filt = cfg[1] or cfg[2]
        for i, (e, o) in enumerate(zip(eff, obs)):
            if str(e[0]) == "read" and o[0] == "indexError":
                size_before = (obs[i - 1][1] if obs[i - 1] is not None else m_obs[i - 1][1]) if i else 0
                if e[1] < size_before:
                    key = "len-counts-commands-a-pending-flush-will-drop" if filt else None
                    ctx.spec_failure(case | {"upto": i, "effective_ops": fmt(eff[: i + 1])}, {"len": size_before, "index": e[1], "result": "IndexError"},
                                     f"len(history) was {size_before} but history.inps[{e[1]}] raised IndexError", key)
                    break
        want = final["disk"]
        # what a reader sees at quiescence = file ++ buffer (the model's `contents`); the exit flush then applies the
        # dump filter to the last buffer, so the disk is compared with the model after one more flush + flusher run
        _, m_disk = ctx.driver.call("c12.run", cfg, eff + [[Sym("flush")], [Sym("flusherRuns")]])
        views = {how: final[how] for how in ("by_index", "by_iter", "by_slice")}
        if len({repr(v) for v in views.values()}) > 1:
            ctx.spec_failure(case, views, "index, slice and iteration read-back disagree with each other at quiescence", None)
        elif final["by_index"] != m_contents or final["len"] != len(m_contents):
            ctx.disagree(name, case | {"what": "read-back at quiescence"}, {"len": final["len"], "by_index": final["by_index"]}, m_contents)
            ctx.spec_failure(case, {"len": final["len"], "read_back": final["by_index"], "recorded_in_order": m_contents},
                             "read-back at quiescence is not the recorded commands in append order (len/index inconsistent, lost, duplicated or reordered)", None)
        if want != m_disk:
            ctx.disagree(name, case | {"what": "on-disk store after the exit flush"}, want, m_disk)
            ctx.spec_failure(case, {"on_disk": want, "recorded_in_order": m_disk}, "the on-disk store after the exit flush is not the recorded commands in order", None)
        if not filt and want != spec_log(cfg, ops):
            ctx.spec_failure(case, {"stored": want, "accepted": spec_log(cfg, ops)}, "the stored commands are not the accepted commands in append order", None)
        if filt:
            # with ignoredups/ignoreerr the store must still be an in-order sub-sequence that contains every non-excluded command
            acc = spec_log(cfg, ops)
            it = iter(want)
            if not all(any(x == y for y in it) for x in acc):
                ctx.spec_failure(case, {"stored": want, "must_contain_in_order": acc}, "a command that no $HISTCONTROL rule excludes is missing or out of order", None)
            allapp = [o[1] for o in ops if o[0] == "append"]
            it2 = iter(allapp)
            if not all(any(x == y for y in it2) for x in want):
                ctx.spec_failure(case, {"stored": want, "appended": allapp}, "the store holds a command that was not appended (invention/duplication/reordering)", None)


# ------------------------------------------------------------------ stream 1b: flusher threads that start late (hook)
def stream_late_flushers(ctx, n, name="late-flusher-schedules"):
    """the order of the flush queue must be the order in which flush() was CALLED, however late the flusher threads are
    scheduled: the hook point at JsonHistoryFlusher.run entry holds chosen flusher threads back"""
    import threading

    common.setup_repo_imports()
    import xonsh._verif_hooks as vh
    import xonsh.history.json as hj

    ctx.stream_rule(
        name,
        "2-4 buffers are flushed back to back on a real JsonHistory while the hook point at JsonHistoryFlusher.run entry holds a "
        "seeded subset of the flusher threads back for 50-150 ms (threads scheduled late); optionally an indexed read is issued "
        "right after a flush(); afterwards the on-disk store must hold every command in append order and the read must have "
        "returned the right command; non-trivial = at least one flusher delayed while a later one was free to run",
    )
    if not vh.ENABLED:
        raise common.InfraError("XONSH_XONSH_VERIF hooks are not enabled")
    for k in range(n):
        root = str(common.scratch_root() / f"c12l-{uuid.uuid4().hex[:8]}")
        os.makedirs(root)
        _env(root)
        hist = hj.JsonHistory(filename=os.path.join(root, "h.json"), buffersize=100, gc=False, ts=[0.0, None], locked=True, env={})
        nflush = ctx.rng.choice([2, 3, 4])
        delayed = {i for i in range(nflush) if ctx.rng.random() < 0.5}
        order = []
        lock = threading.Lock()

        def plan(name_, kw, delayed=delayed, order=order, lock=lock):
            if name_ == "json.flusher.run":
                with lock:
                    idx = len(order)
                    order.append(kw["flusher"])
                if idx in delayed:
                    import time as _t

                    _t.sleep(0.05 + 0.05 * (idx % 3))

        vh.install(plan)
        expected, read_results = [], []
        try:
            c = 0
            flushers = []
            for i in range(nflush):
                for _ in range(ctx.rng.choice([1, 2])):
                    c += 1
                    hist.append({"inp": f"c{c}", "rtn": 0, "ts": [float(c), c + 0.5], "cwd": "/"})
                    expected.append(c)
                hf = hist.flush()
                flushers.append(hf)
                if ctx.rng.random() < 0.4:
                    idx = ctx.rng.randrange(len(expected))
                    try:
                        read_results.append((idx, int(hist.inps[idx][1:])))
                    except Exception as e:  # noqa: BLE001
                        read_results.append((idx, type(e).__name__))
            for hf in flushers:
                if hf is not None:
                    hf.join(30)
        finally:
            vh.install(None)
        with open(hist.filename, encoding="utf-8") as f:
            disk = [int(x["inp"][1:]) for x in json.loads(f.read())["data"]["cmds"]]
        nontriv = bool(delayed) and len(delayed) < nflush
        case = {"stream": name, "flushes": nflush, "delayed_flushers": sorted(delayed), "commands": expected}
        ctx.case(name, repr(case) + str(k), nontriv, case)
        if disk != expected:
            ctx.spec_failure(case, {"on_disk": disk, "appended": expected}, "commands reached the store out of append order (or were lost) when flusher threads were scheduled late", None)
        for idx, got in read_results:
            if got != expected[idx]:
                ctx.spec_failure(case, {"index": idx, "got": got, "want": expected[idx]}, "an indexed read issued right after flush() did not return the appended command", None)
        shutil.rmtree(root, ignore_errors=True)


# ------------------------------------------------------------------ stream 2: verbatim text, JSON and SQLite
def stream_texts(ctx, n, name="verbatim-texts"):
    ctx.stream_rule(
        name,
        "commands drawn from multi-line, astral / combining / RTL Unicode, quotes, backslashes, control characters, lone surrogates, "
        "U+2028, 300-char and empty texts with return codes and timestamps are appended to real JsonHistory (buffer sizes 1-4) and "
        "SqliteHistory objects and read back by index, negative index, slice, iteration and from the on-disk store (LazyJSON node "
        "by node; sqlite3 rows); non-trivial = every sequence (distinct texts/orders)",
    )
    common.setup_repo_imports()
    import xonsh.history.json as hj
    import xonsh.history.sqlite as hs
    import xonsh.lib.lazyjson as xlj

    for k in range(n):
        root = str(common.scratch_root() / f"c12t-{uuid.uuid4().hex[:8]}")
        os.makedirs(root)
        _env(root)
        cmds = []
        for i in range(ctx.rng.randint(1, 9)):
            t = ctx.rng.choice(TEXTS) + ctx.rng.choice(["", "", " x", "\n"])
            cmds.append({"inp": t, "rtn": ctx.rng.choice([0, 0, 1, 127]), "ts": [100.0 + i, 100.5 + i], "cwd": "/tmp/é"})
        case = {"stream": name, "backend": "json", "texts": [c["inp"] for c in cmds]}
        ctx.case(name, repr(case) + str(k), True, {"texts": [c["inp"][:30] for c in cmds[:4]]})
        # ---- JSON
        hist = hj.JsonHistory(filename=os.path.join(root, "h.json"), buffersize=ctx.rng.choice([1, 2, 3, 4]), gc=False, ts=[0.0, None], locked=True, env={})
        for c in cmds:
            hf = hist.append(dict(c))
            if hf is not None and ctx.rng.random() < 0.5:
                hf.join(30)
        inps = [c["inp"] for c in cmds]
        try:
            got = {
                "index": [hist.inps[i] for i in range(len(hist))],
                "negative": [hist.inps[-1 - i] for i in range(len(hist))][::-1],
                "slice": list(hist.inps[:]),
                "rtns": list(hist.rtns[:]),
                "tss": [list(x) for x in hist.tss[:]],
                "items": [it["inp"] for it in hist.items()],
            }
        except Exception as e:  # noqa: BLE001
            ctx.spec_failure(case, {"raised": f"{type(e).__name__}: {e}"[:300]}, "reading the JSON history back raised", None)
            shutil.rmtree(root, ignore_errors=True)
            continue
        want = {"index": inps, "negative": inps, "slice": inps, "rtns": [c["rtn"] for c in cmds], "tss": [c["ts"] for c in cmds], "items": [s.rstrip() for s in inps]}
        for how in want:
            if got[how] != want[how] or len(hist) != len(cmds):
                ctx.spec_failure(case, {"how": how, "got": got[how], "want": want[how], "len": len(hist)}, f"JSON history read-back ({how}) is not what was appended", None)
                break
        hist.flush(at_exit=True)
        with open(hist.filename, newline="\n", encoding="utf-8") as f:
            raw = f.read()
        if not raw.isascii():
            ctx.spec_failure(case, {}, "the JSON store is not pure ASCII: character offsets of its index are not byte offsets", None)
        try:
            with open(hist.filename, newline="\n", encoding="utf-8") as f:
                lj = xlj.LazyJSON(f, reopen=False)
                disk = [lj["cmds"][i]["inp"] for i in range(len(lj["cmds"]))]
                disk_rtn = [lj["cmds"][i]["rtn"] for i in range(len(lj["cmds"]))]
                whole = lj.load()
        except Exception as e:  # noqa: BLE001
            ctx.spec_failure(case, {"raised": f"{type(e).__name__}: {e}"[:300]}, "the on-disk JSON store cannot be read through its embedded index", None)
            shutil.rmtree(root, ignore_errors=True)
            continue
        if disk != inps or disk_rtn != [c["rtn"] for c in cmds] or [c["inp"] for c in whole["cmds"]] != inps:
            ctx.spec_failure(case, {"disk": disk, "want": inps}, "the on-disk JSON store (through its embedded index) does not hold the appended commands verbatim", None)
        # ---- SQLite
        setattr(hs.XH_SQLITE_CACHE, hs.XH_SQLITE_CREATED_SQL_TBL, False)
        sh = hs.SqliteHistory(filename=os.path.join(root, "h.sqlite"), gc=False)
        sq_err = None
        for c in cmds:
            try:
                sh.append(dict(c))
            except Exception as e:  # noqa: BLE001
                sq_err = (c["inp"], f"{type(e).__name__}: {e}")
                break
        if sq_err:
            lone = any(0xD800 <= ord(ch) <= 0xDFFF for ch in sq_err[0])
            ctx.spec_failure(case | {"backend": "sqlite"}, {"text": sq_err[0], "raised": sq_err[1]}, "SQLite history cannot record a command text",
                             "sqlite-rejects-lone-surrogates" if lone else None)
            shutil.rmtree(root, ignore_errors=True)
            continue
        rows = list(sh.items())
        def ts0(r):
            return r["ts"][0] if isinstance(r["ts"], (list, tuple)) else r["ts"]

        got_s = [(r["inp"], r.get("rtn"), ts0(r)) for r in rows]
        want_s = [(c["inp"].rstrip(), c["rtn"], c["ts"][0]) for c in cmds]
        if got_s != want_s:
            ctx.spec_failure(case | {"backend": "sqlite"}, {"got": got_s, "want": want_s}, "SQLite history read-back differs from what was appended (modulo trailing whitespace)", None)
        # ---- SQLite with $HISTCONTROL=ignoredups, commands as the shell supplies them (text + newline), every one typed twice
        if not any(0xD800 <= ord(ch) <= 0xDFFF for c in cmds for ch in c["inp"]):
            from xonsh.built_ins import XSH

            setattr(hs.XH_SQLITE_CACHE, hs.XH_SQLITE_CREATED_SQL_TBL, False)
            with XSH.env.swap(HISTCONTROL={"ignoredups"}):
                sh2 = hs.SqliteHistory(filename=os.path.join(root, "h2.sqlite"), gc=False)
                typed = []
                for c in cmds:
                    for rep in range(2):
                        d = dict(c)
                        d["inp"] = c["inp"].rstrip() + "\n"
                        d["ts"] = [c["ts"][0] + rep * 0.25, c["ts"][1] + rep * 0.25]
                        typed.append(d["inp"].rstrip())
                        sh2.append(d)
                got2 = [r["inp"] for r in sh2.items()]
            want2 = [t for i, t in enumerate(typed) if i == 0 or typed[i - 1] != t]
            if got2 != want2:
                ctx.spec_failure(case | {"backend": "sqlite", "HISTCONTROL": "ignoredups", "typed_twice_with_newline": True}, {"got": got2, "want": want2},
                                 "with ignoredups the SQLite store is not the typed commands with repeats of the previous command left out", None)
        shutil.rmtree(root, ignore_errors=True)


# ------------------------------------------------------------------ stream 3: the self-indexing JSON writer
def gen_json(rng, depth=0):
    r = rng.random()
    if depth >= 3 or r < 0.35:
        return rng.choice([rng.choice(TEXTS), rng.randint(-5, 10**6), 1.5, True, False, None, ""])
    if r < 0.68:
        return [gen_json(rng, depth + 1) for _ in range(rng.choice([0, 1, 2, 3]))]
    return {rng.choice(["k", "cmds", "inp", "é", "a b", "\udc80", ""]) + str(i): gen_json(rng, depth + 1) for i in range(rng.choice([0, 1, 2, 3]))}


def to_model_json(v):
    """J for the Lean model: leaves carry json.dumps text"""
    if isinstance(v, dict):
        return [Sym("obj"), [[list(map(ord, json.dumps(k))), to_model_json(x)] for k, x in v.items()]]
    if isinstance(v, list):
        return [Sym("arr"), [to_model_json(x) for x in v]]
    return [Sym("leaf"), list(map(ord, json.dumps(v)))]


def walk_index(node, offs, sizes, data, path, bad):
    if isinstance(node, dict):
        o, z = offs["__total__"], sizes["__total__"]
        for k, v in node.items():
            walk_index(v, offs[k], sizes[k], data, path + [k], bad)
    elif isinstance(node, list):
        o, z = offs[-1], sizes[-1]
        if len(offs) != len(node) + 1:
            bad.append((path, "index list has the wrong length"))
            return
        for i, v in enumerate(node):
            walk_index(v, offs[i], sizes[i], data, path + [i], bad)
    else:
        o, z = offs, sizes
    try:
        ok = json.loads(data[o : o + z]) == node
    except ValueError:
        ok = False
    if not ok:
        bad.append((path, f"data[{o}:{o + z}] = {data[o:o + z][:40]!r} does not decode to the node"))


def stream_index(ctx, n, name="lazyjson-index"):
    ctx.stream_rule(
        name,
        "random JSON values (nesting <= 3, empty containers, the rich text pool incl. lone surrogates as keys and values, numbers, "
        "booleans, null) are dumped with the real lazyjson.dumps; for EVERY node the (offset, size) recorded in the embedded index "
        "must slice out text that decodes to exactly that node, the header `locs` must address index and data, the file must be ASCII, "
        "and LazyJSON must load every node; offsets/sizes are also compared with the Lean model `LJ.ser`; non-trivial = nested value",
    )
    common.setup_repo_imports()
    import xonsh.lib.lazyjson as xlj

    for k in range(n):
        v = gen_json(ctx.rng)
        if not isinstance(v, (dict, list)):
            v = {"v": v}
        s = xlj.dumps(v)
        case = {"stream": name, "value": repr(v)[:300]}
        nested = any(isinstance(x, (dict, list)) for x in (v.values() if isinstance(v, dict) else v))
        ctx.case(name, repr(v), nested, {"value": repr(v)[:120]})
        bad = []
        if not s.isascii():
            bad.append(([], "dump is not ASCII"))
        try:
            whole = json.loads(s)
            iloc, ilen, dloc, dlen = whole["locs"]
            if json.loads(s[iloc : iloc + ilen]) != whole["index"]:
                bad.append((["locs"], "iloc/ilen do not address the index"))
            data = s[dloc : dloc + dlen]
            if json.loads(data) != v:
                bad.append((["locs"], "dloc/dlen do not address the data"))
            walk_index(v, whole["index"]["offsets"], whole["index"]["sizes"], data, [], bad)
            lj = xlj.LazyJSON(io.StringIO(s), reopen=False)
            if lj.load() != v:
                bad.append(([], "LazyJSON.load() differs"))
        except Exception as e:  # noqa: BLE001
            bad.append(([], f"{type(e).__name__}: {e}"))
        for path, why in bad[:1]:
            ctx.spec_failure(case, {"path": [str(p) for p in path], "why": why}, "the embedded index of the JSON store does not address a stored value", None)
        if not bad:
            m = ctx.driver.call("c12.ser", to_model_json(v))
            if m != [list(map(ord, data)), canon_idx(whole["index"]["offsets"], v), canon_idx(whole["index"]["sizes"], v)]:
                ctx.disagree(name, case, "offsets/sizes/text of lazyjson", "LJ.ser")


def canon_idx(idx, node):
    if isinstance(node, dict):
        return [Sym("obj"), [[list(map(ord, json.dumps(k))), canon_idx(idx[k], v)] for k, v in node.items()], idx["__total__"]]
    if isinstance(node, list):
        return [Sym("arr"), [canon_idx(i, v) for i, v in zip(idx, node)], idx[-1]]
    return [Sym("leaf"), idx]


def fmt(x):
    if isinstance(x, Sym):
        return str(x)
    if isinstance(x, (list, tuple)):
        return [fmt(y) for y in x]
    return x


def replay_known(ctx):
    for f in ctx.known:
        w = f["witness"]
        if w.get("backend") == "sqlite":
            import xonsh.history.sqlite as hs

            root = str(common.scratch_root() / f"c12k-{uuid.uuid4().hex[:8]}")
            os.makedirs(root)
            _env(root)
            setattr(hs.XH_SQLITE_CACHE, hs.XH_SQLITE_CREATED_SQL_TBL, False)
            sh = hs.SqliteHistory(filename=os.path.join(root, "h.sqlite"), gc=False)
            try:
                sh.append({"inp": w["text"], "rtn": 0, "ts": [1.0, 1.5], "cwd": "/"})
                fails, obs = False, "recorded"
            except Exception as e:  # noqa: BLE001
                fails, obs = True, f"{type(e).__name__}"
            shutil.rmtree(root, ignore_errors=True)
            ctx.replayed(f["key"], fails, obs)
            if fails:
                ctx.spec_failure({"stream": "known-witness", "backend": "sqlite", "text": w["text"]}, {"raised": obs}, f["what"], f["key"])
            continue
        with contextlib.redirect_stderr(io.StringIO()):
            eff, obs, final = run_real(w["cfg"], [tuple(o) for o in w["ops"]])
        if f["key"] == "reader-ticket-leak-wedges-queue":
            fails = "wedged" in final
            ctx.replayed(f["key"], fails, final.get("wedged"))
            if fails:
                ctx.spec_failure({"stream": "known-witness", **w}, {"queue": final["wedged"]}, f["what"], f["key"])
            continue
        i = len(eff) - 1
        fails = obs[i][0] == "indexError" and eff[i][1] < obs[i - 1][1]
        ctx.replayed(f["key"], fails, {"len_before_read": obs[i - 1][1], "index": eff[i][1], "result": fmt(obs[i][0])})
        if fails:
            ctx.spec_failure({"stream": "known-witness", **w}, {"len": obs[i - 1][1], "index": eff[i][1], "result": "IndexError"}, f["what"], f["key"])


# ------------------------------------------------------------------ the command loop records every executed command once
LOOP_LINES = ["x = 1", "y = 'two words'", "1/0", "raise SystemExit", "import sys; sys.exit(3)", "raise KeyboardInterrupt", "z = [1, 2]", "undefined_name_xv", "x += 1"]


def _loop_records(item):
    """lines typed into the real command loop body (BaseShell.default) with a real JsonHistory: what the history holds afterwards"""
    import contextlib
    import io

    lines, seed = item
    common.setup_repo_imports()
    import builtins

    import xonsh.history.json as hj
    from xonsh.built_ins import XSH
    from xonsh.execer import Execer
    from xonsh.shells.base_shell import BaseShell

    if not getattr(builtins, "__xv_c12_loop__", False):
        XSH.load(execer=Execer(), inherit_env=False)
        builtins.__xv_c12_loop__ = True
    root = str(common.scratch_root() / ("c12l-" + uuid.uuid4().hex[:8]))
    os.makedirs(os.path.join(root, "history_json"))
    env = XSH.env
    env["XONSH_DATA_DIR"] = root
    env["HISTCONTROL"] = set()
    env["XONSH_SHOW_TRACEBACK"] = False
    env["XONSH_STORE_STDOUT"] = False
    XSH.history = hist = hj.JsonHistory(gc=False, buffersize=3)
    shell = BaseShell(execer=XSH.execer, ctx={"__name__": "xv"})
    XSH.shell = type("S", (), {"shell": shell})()
    try:
        for ln in lines:
            buf = io.StringIO()
            with contextlib.redirect_stderr(buf), contextlib.redirect_stdout(buf):
                try:
                    shell.default(ln + "\n")
                except (SystemExit, KeyboardInterrupt):
                    pass  # the command loops catch these (or leave after the history was written)
        hf = hist.flush(at_exit=True)  # (an at-exit flush runs synchronously)
        if hf is not None and hf.is_alive():
            hf.join(30)
        mem = [str(x).rstrip() for x in hist.inps]
        return {"inps": mem}
    finally:
        XSH.history = None
        shutil.rmtree(root, ignore_errors=True)


def stream_loop(ctx, n, name="command-loop-records-every-command"):
    ctx.stream_rule(
        name,
        "lines run through the real BaseShell.default with a real JsonHistory (buffer 3, flushed at the end): assignments, a "
        "failing expression, an undefined name, `raise SystemExit`, `sys.exit(3)`, `raise KeyboardInterrupt`; afterwards the history "
        "holds every executed line exactly once, in order, verbatim — however the command ended; non-trivial = every sequence",
    )
    items = [[[ctx.rng.choice(LOOP_LINES) for _ in range(ctx.rng.randint(2, 7))], ctx.rng.randrange(1 << 30)] for _ in range(n)]
    results = common.map_in_child(_loop_records, items, per_item_timeout=60, label="c12-loop")
    for (lines, _), res in zip(items, results):
        if res == common.HANG or (isinstance(res, dict) and "__exc__" in res):
            raise common.InfraError(f"C12 command-loop worker failed: {res}")
        ctx.case(name, repr(lines), True, {"lines": lines})
        for ln in lines:
            ctx.count("loop/" + ("exit" if "xit" in ln else "interrupt" if "Interrupt" in ln else "other"))
        if res["inps"] != lines:
            ctx.spec_failure({"stream": name, "lines": lines}, {"history_holds": res["inps"]},
                             "the history does not hold every executed command exactly once, in order", None)


def run(ctx):
    common.setup_repo_imports()
    ctx.assumptions += [
        "one flusher's dump is atomic with respect to the session thread (queue + condition variable)",
        "json.dumps/json.loads are correct on leaves; with ensure_ascii the store is ASCII (checked every run) so character offsets are byte offsets",
    ]
    ctx.explanation = (
        "Models JsonHist and LJ with theorems in Props/C12.lean; tie = real JsonHistory under harness-imposed flusher schedules compared "
        "step by step, verbatim round trips of rich texts through JSON and SQLite, and the real self-indexing writer checked node by node."
    )
    replay_known(ctx)
    stream_machine(ctx, ctx.n(150, 2500), ctx.n(22, 30))
    stream_late_flushers(ctx, ctx.n(25, 300))
    stream_texts(ctx, ctx.n(40, 500))
    stream_index(ctx, ctx.n(300, 5000))
    stream_loop(ctx, ctx.n(40, 500))


def search(ctx, reason):
    ctx.extra["search_reason"] = reason
    stream_machine(ctx, ctx.n(600, 3000), 30, name="search:buffer-and-flushers")
    stream_texts(ctx, ctx.n(100, 500), name="search:verbatim-texts")
    stream_index(ctx, ctx.n(1000, 5000), name="search:lazyjson-index")


def replay(ctx, path):
    r = json.loads(open(path).read())
    c = r["case"]
    if "ops" in c and "cfg" in c:
        ops = [tuple(o) for o in c["ops"]]
        with contextlib.redirect_stderr(io.StringIO()):
            eff, obs, final = run_real(c["cfg"], ops)
        print("final:", final)
        bad = final["by_index"] != final["disk"] or any(
            str(e[0]) == "read" and o[0] == "indexError" and i and e[1] < obs[i - 1][1] for i, (e, o) in enumerate(zip(eff, obs))
        )
    else:
        print("re-run ./check C12 with the same seed for this stream")
        return common.EXIT_INFRA
    print(f"VIOLATION property={ID} replay={path}" if bad else "property holds on this history")
    return common.EXIT_VIOLATION if bad else common.EXIT_OK
