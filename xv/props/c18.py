"""C18 — Tab-completing a path always inserts text that means that path."""

from __future__ import annotations

import contextlib
import io
import json
import os
import re
import shutil
import uuid

from .. import common
from ..codec import Sym, codes, uncodes

ID = "C18"
LEVEL = "proof"
GEN_MODULES = ["XonshVerif.Gen.Quote"]
PROPS_MODULES = ["XonshVerif.Props.C18"]
TECHNIQUE = (
    "Lean 4 proof (round trip readBack(quote(name)) = [name] by induction over character lists, per quoting style, over the "
    "character tables translated from the source) + translator + differential correspondence that creates real files, runs the "
    "real completer, splices the completion into a command line and EXECUTES it with a recording alias"
)
LEVEL_TEXT = (
    "proof (partial): the quoting decision and escaping of the path completer (_quote_paths, _quote_to_use, _raw_quote, the `~` "
    "special case, the opened-quote detection) and xonsh's reading of a subprocess argument (string scanning incl. the triple-quote "
    "look-ahead, one-letter escapes, raw strings, expand_path = $VAR + tilde rule, bare words, the `!` macro) are modelled over "
    "character lists; _PATTERN's class and keywords, _CONTROL_CHAR_ESCAPE, name_needs_quotes, _quote_to_use and _raw_quote are "
    "TRANSLATED from /repo on every run. Theorem C18_roundtrip_partial (instantiated for the translated tables: C18_roundtrip_gen): "
    "for ALL non-empty names, the seven opening styles ('' ' \" r' r\" ''' \"\"\") x cursor positions x typed-or-not, files and "
    "directories, every text the model completer offers reads back as exactly [name] — under the exact decidable guard "
    "`classify = []`. The unrestricted statement is false on the unchanged code: one `_cex` theorem and one open known finding per "
    "excluded class (trailing backslash, unquoted `!`, raw string + its own quote, control char + $VAR, tilde after `=`/`:`/~user, "
    "trailing space, unescaped line separators, opened raw string + control char, triple-quote endings, cursor inside a closed "
    "triple quote / a lone quote / next to the `~` entry, odd name tokens, Python statements). Two classes carry a model VARIANT "
    "that is probed from the implementation on every run and proved both ways: the closing-quote test (repaired in /repo 6047536) and "
    "the escape table covering all str.splitlines() boundaries (repaired in 00e7ff2; for that variant the proof covers the names "
    "without those six characters, the rest is tied by execution); their witnesses are replayed as FIXED witnesses. Tie: real files with nasty names in "
    "scratch directories, the real Completer.complete pipeline for empty and typed prefixes in every opening style (plus R' p' pr' "
    "rp' r''' spellings), completion spliced and executed through the real Execer; recorded argv vs the name on disk (oracle) and vs "
    "the model (correspondence). Analyser clause (CompletionContextParser.parse never raises; prefix/suffix reproduce the text "
    "around the cursor): TIED, NOT PROVED — the reconstruction predicate is stated in Lean (C18_reconstructs_splits says what it "
    "buys) and evaluated by the driver on the real analyser's output for generated lines x every cursor position; two open "
    "findings there (cursor inside a closing triple quote, line continuation inside the word) and one repaired (exception on a "
    "leading line continuation, b9028ce)."
)
LEVEL_NOTE = (
    "Trusted: Lean kernel + standard axioms; translator (regex parse tree -> class + keywords, cross-checked against "
    "_PATTERN.search on every code point; StrLite for three small functions); harness. The reader model is hand-written from "
    "tokenize.py / lexer.py / parsers/base.py / built_ins.expand_path and tied by executing generated literals and bare words; "
    "escapes other than the one-letter ones, p/f/b/u-strings and several words per text are outside it (`unmodelled`, counted). "
    "The PLY completion-context parser is not modelled: its clause is differential testing only. POSIX only (sep = '/'). One "
    "directory entry per scratch directory in the modelled stream (a several-entries stream checks reachability without the `~` "
    "entry). Candidate SELECTION (globbing of the typed prefix, $VAR / ~ expansion in it) is not part of the property. Names that "
    "are not valid UTF-8 are exercised but not representable in the model; f'/b'/u' openings are not exercised."
)

# ------------------------------------------------------------------ session
VAR_NAME, VAR_VALUE = "XVVAR", "VALUE"


class Session:
    """a real xonsh session in this process: Execer, the path completer alone, a recording alias"""

    _inst = None

    @classmethod
    def get(cls):
        if cls._inst is None:
            cls._inst = cls()
        return cls._inst

    def __init__(self):
        common.setup_repo_imports()
        import warnings

        warnings.simplefilter("ignore")
        from collections import OrderedDict

        from xonsh.built_ins import XSH
        from xonsh.execer import Execer

        self.root = str(common.scratch_root() / f"c18-{uuid.uuid4().hex[:8]}")
        self.home = os.path.join(self.root, "home")
        os.makedirs(self.home)
        os.environ["HOME"] = self.home
        self.execer = Execer()
        XSH.load(execer=self.execer, ctx={}, inherit_env=False)
        env = XSH.env
        for k, v in dict(
            XONSH_SHOW_TRACEBACK=False, XONSH_INTERACTIVE=False, THREAD_SUBPROCS=False, SUBSEQUENCE_PATH_COMPLETION=False,
            FUZZY_PATH_COMPLETION=False, HOME=self.home, PATH=[], COMPLETE_DOTS="never", CDPATH=[], XONSH_DATA_DIR=os.path.join(self.root, "data"),
            XONSH_CACHE_SCRIPTS=False, XONSH_CACHE_EVERYTHING=False, COMPLETION_QUERY_LIMIT=1000, UPDATE_OS_ENVIRON=False,
        ).items():
            env[k] = v
        env[VAR_NAME] = VAR_VALUE
        self.XSH = XSH
        self.rec = []

        def xvrec(args, stdin=None):
            self.rec.append(list(args))
            return 0

        for k in list(XSH.aliases):
            del XSH.aliases[k]  # nothing but the recorder can run (and $PATH is empty)
        XSH.aliases["xvrec"] = xvrec
        from xonsh.completer import Completer
        from xonsh.completers.path import complete_path

        XSH._completers = OrderedDict(path=complete_path)
        self.completer = Completer()
        import pwd

        import xonsh.completers.path as xcp
        import xonsh.lib.completion_quoting as cq

        self.xcp, self.cq = xcp, cq
        self.homes = {p.pw_name: p.pw_dir for p in pwd.getpwall()}
        self.homes[""] = self.home
        self._rw = re.compile(r"\w")
        self.whole_quote = self.probe_whole_quote()
        # the other model variant: does the escape table cover the six remaining str.splitlines() boundaries (Lean `unescapedBreaks`)?
        self.sep_escaped = all(ord(c) in dict(xcp._CONTROL_CHAR_ESCAPE) for c in "\x1c\x1d\x1e\x85\u2028\u2029")
        self.hdr = [
            [c for c in range(128) if cq._PATTERN.search(chr(c))],
            [codes(k) for k in keywords_of(cq._PATTERN)],
            [[int(k), codes(v)] for k, v in sorted(dict(xcp._CONTROL_CHAR_ESCAPE).items())],
        ]

    def probe_whole_quote(self):
        """which variant of the model matches the implementation: does `_complete_path_raw` recognise a closing TRIPLE quote
        right after the cursor (repaired: the whole quote is compared) or not (unchanged: one character is compared)?"""
        d = os.path.join(self.root, "probe")
        os.mkdir(d)
        here = os.getcwd()
        try:
            os.chdir(d)
            open("ab", "w").close()
            paths, _ = self.xcp._complete_path_raw("'''a", "'''a'''", 0, 4, {})
            return not any(str(p).rstrip().endswith("'''") for p in paths)
        except Exception:  # noqa: BLE001
            return False
        finally:
            os.chdir(here)
            shutil.rmtree(d, ignore_errors=True)

    # -- the model's view of the characters / environment at hand
    def extra(self, *strings):
        seen = sorted({c for s in strings for c in s if ord(c) >= 128})
        return [[ord(c), bool(self.cq._PATTERN.search(c)), bool(self._rw.match(c)), c.isidentifier()] for c in seen]

    def vars_for(self, s):
        out = []
        for w in set(re.findall(r"\w+", s)):
            if w in self.XSH.env:
                d = self.XSH.env.get_detyper(w)
                v = self.XSH.env[w]
                val = str(v) if d is None else d(v)
                out.append([codes(w), codes(str(v) if val is None else val)])
        return out

    def homes_for(self, s):
        out = [[codes(""), codes(self.home)]]
        for i, c in enumerate(s):
            if c == "~":
                for j in range(i + 2, min(len(s), i + 34) + 1):
                    u = s[i + 1 : j]
                    if u in self.homes:
                        out.append([codes(u), codes(self.homes[u])])
        return out

    # -- implementation adapters
    def complete(self, line, cursor):
        """-> [(text, prefix_len)] through Completer.complete (analysis, path completer, formatting)"""
        ctx = self.completer.parse(line, cursor)
        comps, lp = self.completer.complete("", line, 0, cursor, {}, multiline_text=line, cursor_index=cursor, completion_context=ctx)
        out = []
        for c in comps:
            pl = c.prefix_len if getattr(c, "prefix_len", None) is not None else lp
            out.append((str(c), pl))
        return out, ctx

    def run_line(self, line):
        """execute one interactive line; -> list of recorded argv lists | ('raised', type, msg)"""
        self.rec.clear()
        sink = io.StringIO()
        try:
            with contextlib.redirect_stderr(sink), contextlib.redirect_stdout(sink):
                self.execer.exec(line + "\n", mode="single", glbs={}, filename="<c18>")
        except BaseException as e:  # noqa: BLE001
            return ("raised", type(e).__name__, str(e)[:160])
        return [list(a) for a in self.rec]

    def close(self):
        shutil.rmtree(self.root, ignore_errors=True)


def keywords_of(pattern):
    """the `\\bWORD\\b` alternatives of the compiled pattern (same parse as the translator's)"""
    from translator import c18 as tr

    try:
        return tr.split_pattern(pattern.pattern, pattern.flags)[1]
    except tr.Unsupported:
        return []


# ------------------------------------------------------------------ generators
SPECIALS = " '\"$\\\n\t!~#=:@%^+,;&|<>()[]{}*?`-."
RARE = ["\r", "\x0b", "\x0c", "\x1c", "\x1d", "\x1e", "\x85", "\u2028", "\u2029", "\x01", "\x1b", "\x7f", "\xa0", "\u3000", "é", "ü", "日", "²", "½", "٣", "\u0301", "😀", "ﬁ", "ǅ"]
WORDS = ["and", "or", "not", "in", "if", "$" + VAR_NAME, "${" + VAR_NAME + "}", "${'" + VAR_NAME + "'}", "$HOME", "$NOPE", "~", "~root", "~daemon", "=~", ":~",
         "\\", "\\\\", "'''", '"""', "''", "!=", "r'", "&&", "||", "$(", "@(", "![", "2>", "a>", "-", "--", "#"]
CORNERS = [
    "plain", "sp ace", "do$llar", "back\\slash", "endbs\\", "two\\\\", "a!b", "!x", "a!", "a!=b", "q'uote", 'd"q', "both'\"q", "both'\"$q", "nl\nx", "tab\tx", "cr\rx",
    "nl\n$" + VAR_NAME, "nl\n${'" + VAR_NAME + "'}", "~", "~root", "~nosuchuser", "x=~", "a b=~", "a=b:~", "a=~daemon", "-dash", "--", "#hash", "and", "or", "a and b", "1and", "andy",
    "st*r", "q?", "br[a]", "{b}", "a,b", "se;mi", "pi|pe", "am&p", "lt<", "gt>", "pa(r)", "back`tick", "@at", "@(x)", "a=b", "=x", "=5", "+=1", ":x", "ünï", "файл", "%pct", "^caret",
    "a:b", "$HOME", "${HOME}", "a\\'b", "\x01ctl", "\x7fdel", "a\\nb", "x'''y", 'x"""y', "x'", "x''", 'x"', "e\\", "\\", "\\\\", "'", '"', "$", " lead", "trail ", "  ", "r'x'", "None",
    "True", "if", "in", "not", "is", "lambda", "*", "?", "[", "a\x0bv", "a\x0cf", "a\x1cfs", "a\x85nel", "a\u2028ls", "a\xa0nbsp", "²", "a²", "1²", "½cup", "😀", ".dot", "...", "a.b",
    "1e5", "0777", "0x1f", "a-b", "a+b", "2>1", "e>o", "a&&b", "a||b", "a;b|c", "'''", '"""', "''", "a''", "a'''", "~\\", "~ ", "a\n", "\n", "\t", "a\tb\\c", "a\n\\", "a$b\n", "p'x", "f'x",
]
OPENINGS = ["", "'", '"', "r'", 'r"', "'''", '"""']
# further spellings of an opening quote (outside the theorem's `openings`; the model completer takes any prefix letters, the
# model reader declines p-strings): raw in either case, the path-string prefixes in both orders, raw triple quotes
EXTRA_OPENINGS = ["R'", 'R"', "p'", 'p"', "pr'", 'pr"', "rp'", 'rp"', "r'''", 'r"""']
MODES = ["atEnd", "closedInside", "closedAfter"]
SEPARATORS = [";", "|", "&&", "||", " and ", " or ", "$(", "@(", "!(", "![", "$[", "@$(", "@!("]


def gen_name(rng):
    n = rng.choice([1, 1, 2, 2, 3, 4, 5, 7])
    parts = []
    for _ in range(n):
        r = rng.random()
        if r < 0.16:
            parts.append(rng.choice(WORDS))
        elif r < 0.52:
            parts.append(rng.choice(SPECIALS))
        elif r < 0.60:
            parts.append(rng.choice(RARE))
        else:
            parts.append(rng.choice("ab1_Z"))
    s = "".join(parts).replace("/", "")
    if s in ("", ".", "..") or len(s.encode("utf-8", "surrogatepass")) > 200:
        return "x" + s[:20]
    return s


PREFIX_LETTERS = "rRp"


def is_raw(o):
    return "r" in o.lower()


def encode_typed(prefix, o, ctrl):
    """how a user types the characters `prefix` after the opening quote `o`; None = cannot be typed in that style"""
    if o == "":
        return prefix
    q = o.lstrip(PREFIX_LETTERS)
    if is_raw(o):
        if q[0] in prefix or prefix.endswith("\\") or any(c in prefix for c in "\n\r\x0b\x0c\t"):
            return None
        return prefix
    s = prefix.replace("\\", "\\\\").replace(q[0], "\\" + q[0])
    for k, v in ctrl.items():
        s = s.replace(k, v)
    return s


LINE_BREAKS = "\n\r\x0b\x0c\x1c\x1d\x1e\x85\u2028\u2029"
CTRL_TYPED = {"\n": "\\n", "\t": "\\t", "\r": "\\r", "\x0c": "\\f", "\x0b": "\\v"}


def typed_prefix(rng, S, name, o):
    """(value prefix, typed text after the opening) — a true prefix of the name that the user can type in style o and that
    the documented prefix expansion ($VAR, leading ~) leaves alone"""
    k = rng.choice([0, 0, 1, 2, 3, len(name)])
    p = name[: min(k, len(name))]
    if "$" in p or p.startswith("~"):
        p = ""
    if o == "" and (S.cq.name_needs_quotes(p) or "!" in p or p.startswith(("#", "=", ":")) or p != p.strip()):
        p = ""
    t = encode_typed(p, o, CTRL_TYPED)
    if t is None or any(c in t for c in LINE_BREAKS):
        p, t = "", ""
    return p, t


# ------------------------------------------------------------------ one case of the main stream
def sx_mode(m):
    return Sym(m)


def model_complete(ctx, S, name, o, typed_empty, mode, is_dir):
    texts, reads, classes, seen = ctx.driver.call(
        "c18.complete", S.hdr, S.extra(name), S.vars_for(name), S.homes_for(name), bool(S.whole_quote), bool(S.sep_escaped), codes(name), codes(o), bool(typed_empty), sx_mode(mode), bool(is_dir)
    )
    return [uncodes(t) for t in texts], [dec_read(r) for r in reads], [str(c) for c in classes], (uncodes(seen[0]), uncodes(seen[1]), seen[2])


def dec_read(r):
    if isinstance(r, list) and r and str(r[0]) == "args":
        return ("args", [uncodes(a) for a in r[1]])
    return (str(r),)


def model_read(ctx, S, text):
    return dec_read(ctx.driver.call("c18.read", S.hdr, S.extra(text), S.vars_for(text), S.homes_for(text), codes(text)))


def is_odd(c):
    """Lean `oddChar`: a \\w character that can neither start an identifier nor is an ASCII digit"""
    return re.match(r"\w", c) is not None and not c.isidentifier() and not ("0" <= c <= "9")


def split_by_analyser(S, cctx, typed_arg, o, mode):
    """the analyser does not report the typed argument as the text before the cursor (observed on its own output) AND one of
    the two known mechanisms is present in the typed text: a command separator / sub-command opener inside an opened quote,
    or a character whose token value the lexer replaces by its 'Unexpected token' message.  -> finding key | None"""
    q = o.lstrip(PREFIX_LETTERS)
    expected = typed_arg + (q if mode == "closedAfter" else "")
    cut = cctx is None or cctx.command is None or cctx.command.raw_prefix != expected
    if not cut:
        return None
    if o != "" and mode == "atEnd" and any(sep in typed_arg[len(o) :] for sep in SEPARATORS):
        return "analyser-splits-opened-quote"
    if any(is_odd(c) for c in typed_arg):
        return "odd-token"
    return None


def make_entry(S, name, is_dir):
    d = os.path.join(S.root, "d-" + uuid.uuid4().hex[:10])
    os.mkdir(d)
    p = os.path.join(d, name)
    try:
        if is_dir:
            os.mkdir(p)
        else:
            open(p, "w").close()
    except (OSError, ValueError, UnicodeError):
        shutil.rmtree(d, ignore_errors=True)
        return None
    return d


def has_surrogate(s):
    return any(0xD800 <= ord(c) <= 0xDFFF for c in s)


def run_case(ctx, S, stream, name, o, mode, is_dir, prefix=None, rng=None, known_key_only=None, force_key=None):
    """create the entry, complete, splice, execute, compare.  Returns a summary dict (used by replays)."""
    d = make_entry(S, name, is_dir)
    if d is None:
        ctx.count("cannot-create")
        return None
    here = os.getcwd()
    try:
        os.chdir(d)
        if prefix is None:
            p, t = typed_prefix(rng, S, name, o)
        else:
            p, t = prefix
        if o == "":
            mode = "atEnd"
        q = o.lstrip(PREFIX_LETTERS)
        typed_arg = o + t
        line0 = "xvrec " + typed_arg
        cursor = len(line0)
        if mode == "closedInside":
            line0 += q
        elif mode == "closedAfter":
            line0 += q
            cursor = len(line0)
        case = {"stream": stream, "name": codes(name), "name_repr": repr(name), "is_dir": is_dir, "opening": o, "typed": t, "typed_prefix": p, "mode": mode, "line": line0, "cursor": cursor}
        try:
            comps, cctx = S.complete(line0, cursor)
        except Exception as e:  # noqa: BLE001
            ctx.spec_failure(case, {"raised": f"{type(e).__name__}: {e}"[:300]}, "the completer raised instead of completing", None)
            return {"failed": True, "keys": [None]}
        typed_empty = t == ""
        m_texts, m_reads, classes, seen = model_complete(ctx, S, name, o, typed_empty, mode, is_dir)
        split = split_by_analyser(S, cctx, typed_arg, o, mode)
        if split:
            classes = [split] + [c for c in classes if c != split]
        nontrivial = bool(S.cq.name_needs_quotes(name)) or o != ""
        ctx.case(stream, (name, o, t, mode, is_dir), nontrivial, {k: case[k] for k in ("name_repr", "is_dir", "line", "cursor")} | {"completions": [c for c, _ in comps]})
        ctx.count(f"style/{o or 'bare'}/{mode}")
        for c in classes:
            ctx.count("class/" + c)
        i_texts = sorted(c for c, _ in comps)
        if not comps:
            ctx.count("no-candidate")
            # an entry that is not hidden must be offered for the empty prefix and for a plain typed prefix (this keeps the
            # stream from passing vacuously); prefixes with quotes / odd characters may legitimately match nothing
            plain = re.fullmatch(r"[A-Za-z0-9_.-]*", p) is not None
            lone = o != "" and typed_empty and not is_raw(o) and mode != "closedAfter"
            expected = plain and (not name.startswith(".") or p.startswith(".")) and not lone and not split and name == name.rstrip(" ")
            if expected:
                ctx.disagree(stream, case, [], m_texts)
            return {"failed": False, "keys": []}
        if not split and i_texts != sorted(m_texts):
            ctx.disagree(stream, case, i_texts, sorted(m_texts))
        want = [name, name + "/"] if is_dir else [name]
        failed, keys = False, []
        for text, pl in comps:
            line = line0[: cursor - pl] + text + line0[cursor:]
            got = S.run_line(line)
            ok = isinstance(got, list) and len(got) == 1 and len(got[0]) == 1 and got[0][0] in want
            # the reader model on the same text
            mr = None
            if not split and text in m_texts:
                mr = m_reads[m_texts.index(text)]
                if mr[0] == "args":
                    if got != [mr[1]]:
                        ctx.disagree(stream + ":read", case | {"executed": line}, got, mr)
                elif mr[0] == "error":
                    if isinstance(got, list):
                        ctx.disagree(stream + ":read", case | {"executed": line}, got, mr)
                else:
                    ctx.count("read-unmodelled")
            if ok:
                ctx.count("round-trip-ok" + ("-in-excluded-class" if classes else ""))
                continue
            failed = True
            # known only if a class of the exact guard applies, the inserted text is what the faithful model inserts, and
            # the model's reader (where it speaks) predicts the same wrong outcome
            key = None
            if classes and (split or text in m_texts):
                predicted = mr is None or mr[0] == "unmodelled" or (mr[0] == "args" and got == [mr[1]]) or (mr[0] == "error" and not isinstance(got, list))
                if predicted:
                    key = pick_key(classes, text, got)
            if known_key_only is not None and key != known_key_only:
                key = None
            if force_key is not None:
                key = force_key  # the witness of a FIXED finding fails again: reported under that (no longer open) key
            keys.append(key)
            ctx.spec_failure(case | {"completion": text, "prefix_len": pl, "executed": line, "classes": classes},
                             {"argv": got, "expected": [want[0]]},
                             "executing the completed line does not hand the command exactly the name on disk", key)
        return {"failed": failed, "keys": keys, "classes": classes}
    finally:
        os.chdir(here)
        shutil.rmtree(d, ignore_errors=True)


PRIORITY = [
    "analyser-splits-opened-quote", "lone-quote-cursor-inside", "triple-quote-cursor-inside", "tilde-entry-cursor-inside", "trailing-space", "line-separator", "trailing-backslash",
    "raw-quote-conflict", "raw-control-char", "triple-quote-end", "dollar-expansion", "tilde-expansion", "bang-unquoted", "python-statement", "odd-token",
]


def pick_key(classes, text, got):
    for k in PRIORITY:
        if k in classes:
            return k
    return classes[0]


# ------------------------------------------------------------------ streams
def stream_names(ctx, n_random, single_chars, name="names"):
    ctx.stream_rule(
        name,
        "one directory entry (file, 1 in 4 a directory) per fresh scratch directory; names = the fixed corner list, every single "
        "character of an alphabet (ASCII 1-127 and rare Unicode: line separators, spaces, digits that are not identifier starts, "
        "combining marks, astral) in the positions c / a<c>b / <c>b / a<c>, and random strings over a weighted alphabet of shell "
        "metacharacters, quotes, `$`, backslashes, control characters, keywords, $VAR forms, ~user; for each name every opening "
        "style ('' ' \" r' r\" ''' \"\"\"; further spellings R' p' pr' rp' r''' in both quote kinds are sampled) x cursor position (at the "
        "end / inside closed quotes / after the closing quote) x a typed prefix (empty or a true prefix encoded in that style): "
        "real Completer.complete -> splice -> real Execer with a recording "
        "alias; argv vs the name on disk (oracle), completion text and argv vs the Lean model; non-trivial = the name needs "
        "quoting or a quote was opened",
    )
    S = Session.get()
    rng = ctx.rng
    names = list(CORNERS)
    alphabet = [chr(c) for c in range(1, 128) if chr(c) != "/"] + RARE
    chosen = alphabet if single_chars is None else rng.sample(alphabet, min(single_chars, len(alphabet)))
    for c in chosen:
        names += [c, "a" + c + "b", c + "b", "a" + c]
    names = [n for n in dict.fromkeys(names) if n not in (".", "..", "")]
    for _ in range(n_random):
        names.append(gen_name(rng))
    for idx, nm in enumerate(names):
        if ctx.enough_failures(6):
            break
        is_dir = rng.random() < 0.25
        # every base style for corner names (plus two of the further spellings), a sample of all styles for the rest
        styles = [(o, m) for o in OPENINGS for m in (MODES if o else ["atEnd"])]
        extra = [(o, m) for o in EXTRA_OPENINGS for m in MODES]
        if idx >= len(CORNERS):
            styles = [("", "atEnd")] + rng.sample(styles[1:] + extra, 5)
        else:
            styles = styles + rng.sample(extra, 2)
        for o, m in styles:
            run_case(ctx, S, name, nm, o, m, is_dir, rng=rng)


def stream_separators(ctx, n, name="opened-quote-with-separator"):
    ctx.stream_rule(
        name,
        "an opened (unclosed) quote whose typed text contains a command separator or sub-command opener (; | && || and or $( @( !( "
        "![ $[ @$( ) followed by more text — the analyser must still treat the quoted text as ONE argument; non-trivial = all",
    )
    S = Session.get()
    rng = ctx.rng
    for _ in range(n):
        sep = rng.choice(SEPARATORS)
        o = rng.choice(["'", '"', "r'", 'r"', "'''", '"""'])
        a = "".join(rng.choice("ab_1 ") for _ in range(rng.randint(0, 2)))
        b = "".join(rng.choice("ab_1") for _ in range(rng.randint(1, 3)))
        nm = (a + sep + b + rng.choice(["", "z", " z"])).strip() or "x"
        p = a + sep + b[:1] if not (a + sep).startswith(" ") else nm[:3]
        if not nm.startswith(p):
            p = nm[: len(a + sep) + 1]
        run_case(ctx, S, name, nm, o, "atEnd", False, prefix=(p, encode_typed(p, o, CTRL_TYPED) or ""))


def stream_multi(ctx, n, name="several-entries"):
    ctx.stream_rule(
        name,
        "3-6 entries in ONE directory (no entry named `~`), empty prefix, bare and r' styles: every offered completion is executed "
        "and must name an entry of the directory; every entry outside the excluded classes must be named by some completion; the "
        "offered set is compared with the union of the model's per-entry completions; non-trivial = all",
    )
    S = Session.get()
    rng = ctx.rng
    here = os.getcwd()
    for k in range(n):
        if ctx.enough_failures(6):
            break
        d = os.path.join(S.root, "m-" + uuid.uuid4().hex[:10])
        os.mkdir(d)
        entries = {}
        try:
            os.chdir(d)
            while len(entries) < rng.randint(3, 6):
                nm = rng.choice(CORNERS) if rng.random() < 0.4 else gen_name(rng)
                if nm == "~" or nm.startswith(".") or nm in entries or nm.lower() in {e.lower() for e in entries} or has_surrogate(nm):
                    continue
                isd = rng.random() < 0.25
                try:
                    os.mkdir(nm) if isd else open(nm, "w").close()
                except (OSError, ValueError):
                    continue
                entries[nm] = isd
            for o in ("", "r'"):
                line0 = "xvrec " + o
                comps, _ = S.complete(line0, len(line0))
                model = {}
                classes = {}
                for nm, isd in entries.items():
                    ts, rs, cl, _seen = model_complete(ctx, S, nm, o, True, "atEnd", isd)
                    for t in ts:
                        model[t] = nm
                    classes[nm] = cl
                case = {"stream": name, "entries": {repr(a): b for a, b in entries.items()}, "opening": o}
                ctx.case(name, (tuple(sorted(entries.items())), o), True, case | {"completions": [c for c, _ in comps]})
                if sorted(c for c, _ in comps) != sorted(model):
                    ctx.disagree(name, case, sorted(c for c, _ in comps), sorted(model))
                named = set()
                for text, pl in comps:
                    line = line0[: len(line0) - pl] + text
                    got = S.run_line(line)
                    hit = got[0][0].rstrip("/") if isinstance(got, list) and len(got) == 1 and len(got[0]) == 1 else None
                    owner = model.get(text)
                    if hit in entries and (owner is None or owner == hit) and (got[0][0] == hit or entries[hit]):
                        named.add(hit)
                        continue
                    cl = classes.get(owner, [])
                    ctx.spec_failure(case | {"completion": text, "executed": line, "for_entry": repr(owner), "classes": cl}, {"argv": got},
                                     "executing the completed line does not hand the command exactly the name on disk", pick_key(cl, text, got) if cl else None)
                for nm, cl in classes.items():
                    if not cl and nm not in named:
                        ctx.spec_failure(case | {"entry": repr(nm)}, {"named_by_no_completion": repr(nm)}, "an entry of the directory is not reachable by any offered completion", None)
        finally:
            os.chdir(here)
            shutil.rmtree(d, ignore_errors=True)


def stream_undecodable(ctx, name="undecodable-names"):
    ctx.stream_rule(name, "names that are not valid UTF-8 (surrogate-escaped bytes): the completion is executed; outside the Lean model; non-trivial = all")
    S = Session.get()
    for raw in [b"a\xffb", b"\xfe", b"caf\xe9", b"x \xff"]:
        nm = raw.decode("utf-8", "surrogateescape")
        d = os.path.join(S.root, "u-" + uuid.uuid4().hex[:10])
        os.mkdir(d)
        here = os.getcwd()
        try:
            os.chdir(d)
            open(raw, "w").close()
            line0 = "xvrec "
            case = {"stream": name, "name_bytes": raw.hex(), "line": line0}
            ctx.case(name, raw, True, case)
            try:
                comps, _ = S.complete(line0, len(line0))
            except Exception as e:  # noqa: BLE001
                ctx.spec_failure(case, {"raised": f"{type(e).__name__}: {e}"[:200]}, "the completer raised instead of completing", "undecodable-name" if isinstance(e, UnicodeError) else None)
                continue
            for text, pl in comps:
                got = S.run_line(line0[: len(line0) - pl] + text)
                if got != [[nm]]:
                    key = "undecodable-name" if isinstance(got, tuple) and got[1] in ("UnicodeEncodeError", "UnicodeDecodeError") else None
                    ctx.spec_failure(case | {"completion": repr(text)}, {"argv": repr(got)}, "executing the completed line does not hand the command exactly the name on disk", key)
        finally:
            os.chdir(here)
            shutil.rmtree(d, ignore_errors=True)


def stream_quote_paths(ctx, n, name="quote-paths-direct"):
    ctx.stream_rule(
        name,
        "the real _quote_paths / name_needs_quotes / _quote_to_use / _raw_quote / str.translate(_CONTROL_CHAR_ESCAPE) called directly on "
        "random strings with random (start, end, append_end) including exotic prefixes (R' p' pr' b' f' u') vs the Lean model; "
        "non-trivial = the string needs quoting or a start is given",
    )
    S = Session.get()
    rng = ctx.rng
    starts = [("", ""), ("'", "'"), ('"', '"'), ("r'", "'"), ('r"', '"'), ("'''", "'''"), ('"""', '"""'), ("R'", "'"), ("p'", "'"), ("pr'", "'"), ("b'", "'"), ("f\"", '"'), ("u'", "'"), ("r'''", "'''"), ('rb"', '"')]
    here = os.getcwd()
    d = os.path.join(S.root, "q-" + uuid.uuid4().hex[:8])
    os.mkdir(d)
    try:
        os.chdir(d)  # an empty directory: no candidate is a directory
        for k in range(n):
            s = rng.choice(CORNERS) if rng.random() < 0.3 else gen_name(rng)
            if has_surrogate(s):
                continue
            st, en = rng.choice(starts)
            ap = rng.random() < 0.8
            out, _nq = S.xcp._quote_paths({s}, st, en, ap)
            got = sorted(out)
            m = uncodes(ctx.driver.call("c18.quote", S.hdr, S.extra(s), codes(s), codes(st), codes(en), False, ap))
            ctx.case(name, (s, st, ap), bool(S.cq.name_needs_quotes(s)) or st != "", {"s": repr(s), "start": st, "append_end": ap, "out": got})
            if got != [m]:
                ctx.disagree(name, {"s": repr(s), "start": st, "end": en, "append_end": ap}, got, m)
            h = ctx.driver.call("c18.helpers", S.hdr, S.extra(s), codes(s))
            impl = [bool(S.cq.name_needs_quotes(s, sep="/")), S.xcp._quote_to_use(s), S.xcp._raw_quote(s), bool(S.xcp._has_control_chars(s)), s.translate(S.xcp._CONTROL_CHAR_ESCAPE)]
            mod = [h[0], uncodes(h[1]), uncodes(h[2]), h[3], uncodes(h[4])]
            if impl != mod:
                ctx.disagree(name + ":helpers", {"s": repr(s)}, impl, mod)
    finally:
        os.chdir(here)
        shutil.rmtree(d, ignore_errors=True)


def render_literal(rng, v):
    """a string literal (or bare word) for the value v, correctly or sloppily escaped"""
    style = rng.choice(["'", '"', "r'", 'r"', "'''", '"""', "r'''", "bare", "bare"])
    if style == "bare":
        return v
    q = style.lstrip("r")
    body = v
    if not style.startswith("r"):
        if rng.random() < 0.85:
            body = body.replace("\\", "\\\\")
        if rng.random() < 0.85:
            body = body.replace(q[0], "\\" + q[0])
        if rng.random() < 0.7:
            for a, b in CTRL_TYPED.items():
                body = body.replace(a, b)
    return style + body + q + rng.choice(["", " ", "  "])


def stream_reader(ctx, n, name="reader"):
    ctx.stream_rule(
        name,
        "generated argument texts (string literals in every style with correct and sloppy escaping, bare words with `!`, `=`, `~`, "
        "`$VAR`, odd characters) appended to `xvrec ` and executed through the real Execer vs the Lean reader model; texts the "
        "model declines (`unmodelled`) are counted, not compared; non-trivial = the text is not a plain bare word",
    )
    S = Session.get()
    rng = ctx.rng
    for k in range(n):
        v = rng.choice(CORNERS) if rng.random() < 0.3 else gen_name(rng)
        if has_surrogate(v):
            continue
        text = render_literal(rng, v)
        if text.strip(" ") == "":
            continue
        mr = model_read(ctx, S, text)
        ctx.case(name, text, not re.fullmatch(r"\w+", text), {"text": repr(text), "model": repr(mr)})
        ctx.count("reader/" + mr[0])
        if mr[0] == "unmodelled":
            continue
        got = S.run_line("xvrec " + text)
        if mr[0] == "args" and got != [mr[1]] or mr[0] == "error" and isinstance(got, list):
            ctx.disagree(name, {"text": repr(text)}, got, mr)


# ------------------------------------------------------------------ the analyser clause
LINE_WORDS = ["ls", "echo", "cd", "xvrec", "a", "b.txt", "-l", "--opt=val", "/usr/", "~/x", "$HOME", "${'A'}", "'q", "'q w'", '"d', '"d e"', "r'raw", "r'raw'", "'''t", "'''t'''", '"""u"""',
              "p'p", "f'{x}'", "b'b'", "|", "||", "&&", ";", "&", "and", "or", "not", ">", ">>", "2>", "2>&1", "e>o", "<", "$(", "$[", "![", "!(", "@(", "@$(", "@!(", "${", ")", "]", "}", "(", "[", "{",
              "#c", " #c", "\n", "\\\n", "\\", "!", "a!b", "*", "?", "`re`", "g`*`", "=", "x=1", "$X=1", "é", "日本", "😀", "\t", "\x0c", "\r", "\x00", "\x1c", "\x85", "\u2028", "''", '""', "''''''", "'\\'", "@", ":", ",", "..", "import os", "for i in", "def f():",
              "lambda", "1", "1.5", "0x1f", "in", "if", "with", "\n    "]
LINE_CHARS = list(" '\"$\\\n\t!~#=:@%^+,;&|<>()[]{}*?`-.abr1é\x00\x0c\r\x85²٣")


UNCLOSED = ["'q", '"d', "r'raw", "'''t", "'q w", '"my dir/sub', "p'p", 'r"a b', "'a;b", '"""u v']


def gen_line(rng):
    r = rng.random()
    if r < 0.12:
        # the last argument is an unclosed quote followed by blanks (every cursor position inside them is tried)
        head = "".join(rng.choice(LINE_WORDS) + " " for _ in range(rng.randint(1, 3)))
        return head + rng.choice(UNCLOSED) + " " * rng.randint(1, 4)
    if r < 0.65:
        n = rng.randint(1, 6)
        parts = []
        for _ in range(n):
            parts.append(rng.choice(LINE_WORDS))
            parts.append(rng.choice([" ", " ", " ", "", "  "]))
        return "".join(parts)
    if r < 0.9:
        return "".join(rng.choice(LINE_CHARS) for _ in range(rng.randint(0, 14)))
    return rng.choice(LINE_WORDS) + "".join(rng.choice(LINE_CHARS) for _ in range(rng.randint(0, 6))) + rng.choice(LINE_WORDS)


def recon_cmd(ctx, text, cursor, c):
    return ctx.driver.call("c18.recon", codes(text), cursor, codes(c.opening_quote), codes(c.prefix), codes(c.suffix), codes(c.closing_quote), bool(c.is_after_closing_quote)) is True


def recon_py(ctx, text, cursor, p):
    return ctx.driver.call("c18.reconpy", codes(text), cursor, codes(p.multiline_code), int(p.cursor_index)) is True


LINE_CONT = "\\\n"


def without_continuations(text, cursor):
    """what the analyser works on (completion_context.py, `process_string_segment`): every backslash-newline removed and the
    cursor moved left by the continuations that lie COMPLETELY before it"""
    return text.replace(LINE_CONT, ""), cursor - len(LINE_CONT) * text.count(LINE_CONT, 0, cursor)


LEADING_CONT = re.compile(r"(?:[ \f\t]*(?:#[^\n]*)?\r?\n)*[ \f\t]*\\\r?\n")


def lexer_message_tokens(text):
    """does the (tolerant, subprocess-mode) lexer hand the analyser a token whose VALUE is its 'Unexpected token' message?"""
    from xonsh.parsers.lexer import Lexer

    lx = Lexer(tolerant=True, pymode=False)
    try:
        lx.input(text)
        return any(isinstance(t.value, str) and t.value.startswith("Unexpected token:") for t in lx)
    except Exception:  # noqa: BLE001
        return False


def analyser_key(ctx, text, cursor, exc=None, cmd=None, py=None):
    """known-finding classifiers for the analyser clause: each names ONE mechanism and re-checks it on the observation"""
    if exc is not None:
        # the subprocess-mode lexer dereferences the (absent) previous token when a line continuation arrives before any token
        # that records itself as `last` (only blank / comment lines, `&&`, `||` may precede it): the innermost frame says so
        import traceback

        frames = traceback.extract_tb(exc.__traceback__)
        inner = frames[-1] if frames else None
        if (isinstance(exc, AttributeError) and "'NoneType' object has no attribute 'end'" in str(exc) and inner is not None
                and inner.name == "handle_error_linecont" and inner.filename.endswith("lexer.py") and LINE_CONT in text):
            return "analyser-raises-on-leading-line-continuation"
        return None
    if cmd is not None and len(cmd.closing_quote) == 3 and not cmd.is_after_closing_quote:
        # the cursor is strictly inside the closing triple quote: the context is the one of the delimiter's first character
        for k in (1, 2):
            if cursor - k >= 0 and text[cursor - k : cursor] == cmd.closing_quote[0] * k and recon_cmd(ctx, text, cursor - k, cmd):
                return "cursor-inside-closing-triple-quote"
    if any(is_odd(c) for c in text) and lexer_message_tokens(text):
        # the tokenizer emits an OP token for such a character and the lexer's fallback puts its MESSAGE into the token value
        return "odd-token"
    if LINE_CONT in text:
        # prefix / suffix are those of the text with the line continuations removed
        t2, c2 = without_continuations(text, cursor)
        if (cmd is None or recon_cmd(ctx, t2, c2, cmd)) and (py is None or recon_py(ctx, t2, c2, py) or recon_py(ctx, text, cursor, py)):
            return "line-continuation-not-reproduced"
    return None


def check_analysis(ctx, S, stream, text, cursor):
    case = {"stream": stream, "text": text, "text_repr": repr(text), "cursor": cursor}
    try:
        r = S.completer.context_parser.parse(text, cursor)
    except BaseException as e:  # noqa: BLE001
        ctx.spec_failure(case, {"raised": f"{type(e).__name__}: {e}"[:300]}, "analysing a command line for completion raised", analyser_key(ctx, text, cursor, exc=e))
        return
    if r is None:
        ctx.count("analysis/none")
        return
    if r.command is not None:
        c = r.command
        ctx.count("analysis/command")
        if not recon_cmd(ctx, text, cursor, c):
            ctx.spec_failure(case, {"opening_quote": c.opening_quote, "prefix": c.prefix, "suffix": c.suffix, "closing_quote": c.closing_quote, "is_after_closing_quote": c.is_after_closing_quote,
                                    "before_cursor": text[:cursor], "after_cursor": text[cursor:]},
                             "the command context's prefix / suffix do not reproduce the text around the cursor", analyser_key(ctx, text, cursor, cmd=c))
    if r.python is not None:
        p = r.python
        ctx.count("analysis/python")
        if not recon_py(ctx, text, cursor, p):
            ctx.spec_failure(case, {"multiline_code": p.multiline_code, "cursor_index": p.cursor_index, "before_cursor": text[:cursor], "after_cursor": text[cursor:]},
                             "the python context's code around its cursor index does not reproduce the text around the cursor", analyser_key(ctx, text, cursor, py=p))


def stream_analyser(ctx, n, name="analyser"):
    ctx.stream_rule(
        name,
        "generated command lines (words, opened / closed / triple / raw / prefixed quotes, separators, redirections, sub-command "
        "openers and closers, comments, line continuations, newlines, control and Unicode characters) and random character strings "
        "x EVERY cursor position: CompletionContextParser.parse must not raise and the Lean predicate `reconstructs` must hold of "
        "its command / python context; non-trivial = the line is not a single plain word",
    )
    S = Session.get()
    rng = ctx.rng
    fixed = ["", " ", "ls ", "ls 'a b", "ls 'a b' ", "echo $(ls ", "echo @(", "ls | grep ", "ls; cd ", "ls && cd", "a 'b'c", "ls r'x", "ls '''x", "ls \"a\\\"", "ls a\\\n b", "ls #x", "ls '#x",
             "![ls ", "$[ls", "echo ${", "ls 'a b   ", 'ls "my dir/sub    ', "ls r'x  ", "ls '''t   ", "ls 'q' 'w  ", "ls ~/", "ls 2>", "ls > f", "x = 1", "import ", "ls 'x|y z", "ls \"a;b", "ls 'a\nb", "ls '", "ls ''", "ls '''", "cd 'a'\"b\"", "ls and", "ls and ", "a or b"]
    lines = fixed + [gen_line(rng) for _ in range(n)]
    for text in lines:
        if ctx.enough_failures(6):
            break
        if has_surrogate(text):
            continue
        ctx.case(name, text, not re.fullmatch(r"\w*", text), {"text": repr(text), "cursors": len(text) + 1})
        for cur in range(len(text) + 1):
            check_analysis(ctx, S, name, text, cur)


# ------------------------------------------------------------------ known findings
def replay_known(ctx):
    """open findings: the witness must still fail in the recorded way; fixed findings: the witness must pass — if it fails
    again the failure is reported under the finding's key, which is no longer open, hence a VIOLATION"""
    S = Session.get()
    for f in ctx.known:
        w = f["witness"]
        status = f.get("status", "open")
        fixed = status.startswith("fixed")
        if status != "open" and not fixed:
            continue
        if w.get("kind") == "undecodable":
            continue  # replayed by its stream
        before = len(ctx.spec_failures)
        if w.get("kind") == "analyser":
            check_analysis(ctx, S, "fixed-witness" if fixed else "known-witness", w["text"], w["cursor"])
            new = ctx.spec_failures[before:]
            if fixed:
                for sf in new:
                    sf["key"] = f["key"]
                ctx.replayed(f["key"], bool(new), {"fixed": status, "observed": [sf["observed"] for sf in new][:1]})
            else:
                ctx.replayed(f["key"], any(sf["key"] == f["key"] for sf in new), [sf["observed"] for sf in new][:1])
            continue
        nm = uncodes(w["name"])
        r = run_case(ctx, S, "fixed-witness" if fixed else "known-witness", nm, w["opening"], w["mode"], w["is_dir"], prefix=(w.get("typed_prefix", ""), w.get("typed", "")),
                     known_key_only=None if fixed else f["key"], force_key=f["key"] if fixed else None)
        new = ctx.spec_failures[before:]
        if fixed:
            ctx.replayed(f["key"], bool(r and r["failed"]), {"fixed": status, "observed": [sf["observed"] for sf in new][:1]})
        else:
            ctx.replayed(f["key"], bool(r and r["failed"] and f["key"] in r["keys"]), [sf["observed"] for sf in new][:1])


# ------------------------------------------------------------------ entry points
def translate(ctx):
    from translator import c18 as tr

    text, fps, errors = tr.generate(common.REPO)
    common.write_if_changed(common.module_path("XonshVerif.Gen.Quote"), text)
    ctx.fingerprints.update(fps)
    ctx.translator_errors += errors
    ctx.trusted_base.append("translator/c18.py (_PATTERN parse tree -> character class + keywords, cross-checked on every code point; _CONTROL_CHAR_ESCAPE dump; StrLite for name_needs_quotes, _quote_to_use, _raw_quote; CPython \\w / isidentifier ranges)")


def run(ctx):
    ctx.assumptions += [
        "POSIX (os.sep == '/'); EXPAND_ENV_VARS and XONSH_SUBPROC_ARG_EXPANDUSER at their defaults; the command word is not a Python name in scope",
        "the reader model (string scanning, one-letter escapes, expand_path, bare words, `!`) is hand-written from tokenize.py / lexer.py / parsers/base.py / built_ins.py and tied by execution, not derived mechanically",
        "the completion-context analyser clause is tied by differential testing only (no theorem)",
    ]
    ctx.explanation = (
        "Gen/Quote.lean is regenerated from /repo every run; Model/PathQuote.lean = completer + reader; Props/C18.lean proves the round "
        "trip for every name outside the exact guard and a counterexample per excluded class; the tie creates the files, runs the real "
        "completer and executes the completed line."
    )
    try:
        # the model variant that matches the implementation (DESIGN §3): the closing-quote test of _complete_path_raw
        ctx.extra["model_variant"] = {"whole_closing_quote_test (repaired in 6047536)": bool(Session.get().whole_quote),
                                      "escape_table_covers_all_line_boundaries (repaired in 00e7ff2)": bool(Session.get().sep_escaped)}
        replay_known(ctx)
        stream_names(ctx, ctx.n(350, 12000), ctx.n(80, None))
        stream_separators(ctx, ctx.n(80, 1500))
        stream_multi(ctx, ctx.n(50, 1500))
        stream_undecodable(ctx)
        stream_quote_paths(ctx, ctx.n(4000, 60000))
        stream_reader(ctx, ctx.n(1500, 30000))
        stream_analyser(ctx, ctx.n(900, 20000))
    finally:
        Session.get().close()


def search(ctx, reason):
    ctx.extra["search_reason"] = reason
    try:
        Session._inst = None
        stream_names(ctx, ctx.n(600, 2500), None, name="search:names")
        stream_quote_paths(ctx, 6000, name="search:quote-paths-direct")
    finally:
        Session.get().close()


def replay(ctx, path):
    r = json.loads(open(path).read())
    c = r["case"]
    S = Session.get()
    try:
        if "name" in c and "opening" in c:
            res = run_case(ctx, S, "replay", uncodes(c["name"]), c["opening"], c["mode"], c["is_dir"], prefix=(c.get("typed_prefix", ""), c.get("typed", "")))
            for sf in ctx.spec_failures:
                print("executed:", repr(sf["case"].get("executed")), "->", sf["observed"], " classes:", sf["case"].get("classes"), " known-finding:", sf["key"])
            bad = bool(res and res["failed"])
        elif "text" in c and "cursor" in c:
            check_analysis(ctx, S, "replay", c["text"], c["cursor"])
            for sf in ctx.spec_failures:
                print(sf["why"], sf["observed"])
            bad = bool(ctx.spec_failures)
        else:
            print("re-run ./check C18 with the same seed for this stream")
            return common.EXIT_INFRA
    finally:
        S.close()
    print(f"VIOLATION property={ID} replay={path}" if bad else "property holds on this case")
    return common.EXIT_VIOLATION if bad else common.EXIT_OK
