"""C10 — The typed environment survives the trip to child processes and back."""

from __future__ import annotations

import pathlib
import warnings

from .. import common
from ..codec import Sym, codes, uncodes

ID = "C10"
LEVEL = "proof"
GEN_MODULES = ["XonshVerif.Gen.EnvVars"]
PROPS_MODULES = ["XonshVerif.Props.C10"]
TECHNIQUE = "Lean 4 proof (round-trip theorems by induction on character lists; table obligations over the regenerated variable registry; cache invariant by induction over histories) + translator + differential correspondence"
LEVEL_TEXT = (
    "proof (partial for the launch clause): (1) round-trip theorems convert(detype v) = v for ALL valid values of the separator-"
    "joined sequence types (env paths ':', csv ',') and of bool / bool-or-none against the _FALSES table of the current source; "
    "(2) the registry of variables (name, validate, convert, detype) is dumped from /repo on every run and C10_every_var obliges "
    "every registered converter pair to be classified as proved, tied by correspondence, or not exported; (3) the _detyped cache "
    "machine with object identity: for every history that mutates values only through `$VAR.…` a launch hands the child the "
    "current values (C10_launch_fresh_partial); the unrestricted statement is false (C10_cex_held_reference, known finding). "
    "All 30+ converter pairs, including the ones only tied, are round-tripped on generated values against the real functions."
)
LEVEL_NOTE = (
    "Trusted: Lean kernel + standard axioms; translator (a table dump from a fresh interpreter importing /repo); harness. "
    "Floats, locale, colour-dict, LsColors, history/dynamic-cwd tuples, log-file options are tied, not proved. str.lower() is "
    "modelled for ASCII only. The OS is trusted to pass the env mapping to the child verbatim."
)

ALPHABET = ["a", "b", "Z", "0", "/", ".", " ", "-", "_", "é", "日", "\U0001f600", "~", "$", ",", ";", "=", "'", '"', "\\", "\n", "\t"]


def rstr(rng, exclude="", maxlen=6):
    n = rng.choice([0, 1, 1, 2, 3, maxlen])
    return "".join(rng.choice([c for c in ALPHABET if c not in exclude]) for _ in range(n))


# ------------------------------------------------------------------ stream A: converter pairs
def sample_values(rng, vname, validate, default, tools, environ):
    """valid values of the variable's type, chosen by the NAME of its validator (a few per variable)"""
    v = validate
    if v == "is_bool":
        return [True, False]
    if v == "is_bool_or_none":
        return [True, False, None]
    if v in ("is_string", "is_string_or_callable"):
        return [rstr(rng) for _ in range(3)]
    if v == "is_env_path":
        out = []
        for _ in range(3):
            l = [rstr(rng, exclude=":~$") for _ in range(rng.choice([0, 1, 2, 3]))]
            if l != [""]:
                out.append(environ.EnvPath(l))
        return out
    if v == "is_int":
        return [rng.choice([0, 1, -1, 7, 10**12, -(10**9)]) for _ in range(2)]
    if v == "is_float":
        return [rng.choice([0.0, 0.5, 1.0, 2.25, 1e-3, 123456.789, 0.1, 1234567.125, 1e21])]
    if v == "is_valid_shlvl":
        return [rng.choice([0, 1, 5, 100])]
    if v == "is_string_set":
        return [set(rng.sample(["ignoredups", "ignoreerr", "ignorespace", "erasedups"], rng.choice([0, 1, 2, 3])))]
    if v == "is_nonstring_seq_of_strings":
        return [[".EXE", ".BAT"][: rng.choice([1, 2])]]
    if v == "is_history_tuple":
        # (numbers with seven and more significant digits included: a `%g`-style rendering does not round-trip them)
        return [
            (rng.choice([0, 1, 8128, 10**6, 1234567, 10**7 + 1]), rng.choice(["commands", "files"])),
            (float(rng.choice([1, 30, 86400, 86400.25, 2592000.5])), "s"),
            (rng.choice([1, 1024, 20 * 2**20, 2**30, 123456789]), "b"),
        ]
    if v == "is_dynamic_cwd_width":
        return [(float(rng.choice([10, 20, 50])), rng.choice(["c", "%"])), (float("inf"), "c")]
    if v == "is_logfile_opt":
        return [None, "/tmp/xv.log"]
    if v == "is_path":
        return [pathlib.Path("/tmp/xv-hist.json")]
    if v == "is_completions_display_value":
        return ["none", "single", "multi"]
    if v == "is_completion_mode":
        return ["default", "menu-complete"]
    if v == "is_history_backend":
        return ["json", "sqlite"]
    if v == "is_regex":
        return ["^ls", "a|b"]
    if v == "is_breakpoint_engine":
        return ["auto", "pdb"]
    # everything else: the registered default (when it is a plain value)
    if default is not None and not callable(default) and default is not environ.DefaultNotGiven:
        return [default]
    return []


def classify_pair_failure(key, v, back):
    """name of the known finding whose classifier matches (else None)"""
    if key in ("XONSH_ENV_PATTERN_PATH", "XONSH_ENV_PATTERN_DIRS") and back is None:
        return "varpattern-does-not-convert-back"
    if key == "XONSH_TRACEBACK_LOGFILE" and v is None and back == "":
        return "logfile-none-reads-back-as-empty-string"
    if key == "ENABLE_COMMANDS_CACHE" and isinstance(back, str):
        return "untyped-bool-enable-commands-cache"
    return None


def values_equal(a, b):
    try:
        if isinstance(a, float) and isinstance(b, float):
            return a == b or (a != a and b != b)
        return bool(a == b)
    except Exception:  # noqa: BLE001
        return False


def stream_pairs(ctx, n_rounds, name="converter-pairs"):
    ctx.stream_rule(
        name,
        "for EVERY variable registered in DEFAULT_VARS and every ENSURERS preset, a few valid values of its type (drawn by the "
        "validator: bools, Unicode/quote/control strings, EnvPaths of 0-3 such strings, ints, floats, sets, history/cwd tuples, ... "
        "or the registered default) are detyped and converted back with the variable's REAL functions and must compare equal; "
        "the proved pairs are also compared with the Lean definitions; non-trivial = non-default value",
    )
    common.setup_repo_imports()
    warnings.simplefilter("ignore")
    import xonsh.environ as environ
    import xonsh.tools as xt
    from xonsh.built_ins import XSH

    XSH.env = env = environ.Env({})
    falses = [codes(x) for x in sorted(xt._FALSES)]
    seen_pairs = set()
    for rnd in range(n_rounds):
        for key, var in environ.DEFAULT_VARS.items():
            if not isinstance(key, str) or var.detype is None:
                continue
            vname = getattr(var.validate, "__qualname__", "") or getattr(var.validate, "__name__", "")
            conv = var.convert
            for v in sample_values(ctx.rng, key, vname, var.default, xt, environ):
                try:
                    if not var.validate(v) and conv is not None and vname not in ("always_false",):
                        continue
                    s = var.detype(v)
                    back = conv(s) if conv is not None else s
                except Exception as e:  # noqa: BLE001
                    ctx.spec_failure({"stream": name, "variable": key, "value": repr(v)}, {"raised": f"{type(e).__name__}: {e}"},
                                     f"detype/convert of a valid ${key} value raised", classify_pair_failure(key, v, None))
                    continue
                pair = (getattr(conv, "__qualname__", str(conv)), getattr(var.detype, "__qualname__", str(var.detype)))
                seen_pairs.add(pair)
                nontriv = not values_equal(v, var.default)
                ctx.case(name, (key, repr(v)), nontriv, {"variable": key, "value": repr(v), "detyped": s, "back": repr(back)})
                ctx.count(f"pair/{pair[0]}+{pair[1]}")
                if not isinstance(s, str) and s is not None:
                    ctx.spec_failure({"stream": name, "variable": key, "value": repr(v)}, {"detyped": repr(s)}, f"${key} detypes to a non-string", None)
                if s is None:
                    continue  # omitted from the child mapping, never garbled
                ok = values_equal(back, v) or (vname == "always_false" and values_equal(back, v))
                if not ok:
                    ctx.spec_failure({"stream": name, "variable": key, "value": repr(v)}, {"detyped": s, "converted_back": repr(back)},
                                     f"${key}: convert(detype(v)) != v", classify_pair_failure(key, v, back))
                # Lean models of the proved pairs
                if pair == ("to_bool", "bool_to_str") and isinstance(v, bool):
                    m_s = uncodes(ctx.driver.call("c10.boolToStr", v))
                    m_b = ctx.driver.call("c10.toBool", falses, codes(s))
                    if (m_s, m_b) != (s, back):
                        ctx.disagree(name, {"variable": key, "value": v}, [s, back], [m_s, m_b])
                if pair == ("str_to_env_path", "env_path_to_str"):
                    elems = list(v._l)
                    m_s = uncodes(ctx.driver.call("c10.join", ord(":"), [codes(e) for e in elems]))
                    m_l = [uncodes(e) for e in ctx.driver.call("c10.split", ord(":"), codes(s))]
                    if (m_s, m_l) != (s, list(back._l)):
                        ctx.disagree(name, {"variable": key, "value": elems}, [s, list(back._l)], [m_s, m_l])
    ctx.extra["converter_pairs_exercised"] = sorted("+".join(p) for p in seen_pairs)


# ------------------------------------------------------------------ stream B: histories with object identity
KEYS = {0: "XV_S0", 1: "XV1PATH", 2: "XV2PATH"}


def gen_history(rng, length):
    ops = []
    refs = 0
    for _ in range(length):
        r = rng.random()
        if r < 0.15:
            ops.append([Sym("setStr"), 0, rng.randint(1, 9)])
        elif r < 0.35:
            ops.append([Sym("setList"), rng.choice([1, 2]), [rng.randint(1, 9) for _ in range(rng.choice([0, 1, 2]))]])
            refs += 1
        elif r < 0.42:
            ops.append([Sym("del"), rng.choice([0, 1, 2])])
        elif r < 0.52:
            ops.append([Sym("getitem"), rng.choice([0, 1, 2])])
        elif r < 0.67:
            ops.append([Sym("mutateVia"), rng.choice([1, 2]), rng.randint(1, 9)])
        elif r < 0.77 and refs:
            ops.append([Sym("mutateHeld"), rng.randrange(refs), rng.randint(1, 9)])
        else:
            ops.append([Sym("detype")])
    ops.append([Sym("detype")])
    return ops


def run_history_impl(ops):
    import xonsh.environ as environ
    from xonsh.built_ins import XSH

    XSH.env = env = environ.Env({})
    names = {v: k for k, v in KEYS.items()}
    held = []  # every list object ever created, by allocation order (the model's refs)
    out = []
    for op in ops:
        name = str(op[0])
        res = None
        if name == "setStr":
            env[KEYS[op[1]]] = f"v{op[2]}"
        elif name == "setList":
            env[KEYS[op[1]]] = [f"e{x}" for x in op[2]]
            held.append(env._d[KEYS[op[1]]])  # the stored object itself (no __getitem__ side effect)
        elif name == "del":
            if KEYS[op[1]] in env._d:
                del env[KEYS[op[1]]]
        elif name == "getitem":
            env.get(KEYS[op[1]])
        elif name == "mutateVia":
            if KEYS[op[1]] in env._d:
                env[KEYS[op[1]]].append(f"e{op[2]}")
        elif name == "mutateHeld":
            held[op[1]].append(f"e{op[2]}")
        elif name == "detype":
            d = env.detype()
            res = []
            for k, v in d.items():
                if k in names:
                    if names[k] == 0:
                        res.append([names[k], [Sym("str"), int(v[1:])]])
                    else:
                        res.append([names[k], [Sym("list"), [int(e[1:]) for e in v.split(":")] if v else []]])
            res.sort()
        out.append(res)
    return out


def stream_histories(ctx, n, length, name="launch-histories"):
    ctx.stream_rule(
        name,
        f"random histories of {length} ops on a real Env: set a string variable, set *PATH-typed variables to new lists, delete, "
        "read, `$VAR.append(x)`, append through a reference held from an earlier assignment, detype() (= what every launch does); "
        "each detype() result is compared with the Lean cache machine AND with the Lean `fresh` (the current values, i.e. the "
        "property); non-trivial = history containing a mutation after a detype",
    )
    for _ in range(n):
        if ctx.enough_failures():
            break
        ops = gen_history(ctx.rng, length)
        model = ctx.driver.call("c10.run", ops)
        impl = run_history_impl(ops)
        seen_detype = False
        nontriv = False
        for op in ops:
            ctx.count(f"op/{op[0]}")
            if str(op[0]) == "detype":
                seen_detype = True
            elif seen_detype and str(op[0]).startswith("mutate"):
                nontriv = True
        ctx.case(name, repr(ops), nontriv, {"ops": fmt(ops[:10])})
        for i, (op, (m_out, m_fresh, _), i_out) in enumerate(zip(ops, model, impl)):
            if str(op[0]) != "detype":
                continue
            m_out_s = sorted(m_out[1]) if m_out is not None else None
            fresh = sorted(m_fresh)
            case = {"stream": name, "ops": fmt(ops[: i + 1])}
            if i_out != m_out_s:
                ctx.disagree(name, case, fmt(i_out), fmt(m_out_s))
            if i_out != fresh:
                held_since = any(str(o[0]) == "mutateHeld" for o in ops[:i])
                key = "held-reference-mutation" if held_since else None
                ctx.spec_failure(case, {"child_would_receive": fmt(i_out), "current_values": fmt(fresh)},
                                 "the mapping handed to a child does not reflect the values at launch time", key)
                break


def fmt(x):
    if isinstance(x, Sym):
        return str(x)
    if isinstance(x, (list, tuple)):
        return [fmt(y) for y in x]
    return x


def unfmt(x):
    if isinstance(x, str):
        return Sym(x)
    if isinstance(x, list):
        return [unfmt(y) for y in x]
    return x


# ------------------------------------------------------------------ stream C: real launch path
def stream_launch(ctx, n, name="prep-env-subproc"):
    ctx.stream_rule(
        name,
        "SubprocSpec.prep_env_subproc on a real Env after `$PATH.append(...)`-style edits, with and without a per-command overlay "
        "(`$X=1 cmd`) incl. DELETE_VAR, and a sampled real child (`env -0`): the child's mapping must equal detype of the current "
        "values plus the overlay, and masked / undetypable entries must be absent; non-trivial = overlay or in-place edit present",
    )
    import subprocess

    import xonsh.environ as environ
    from xonsh.built_ins import XSH
    from xonsh.procs.specs import SubprocSpec

    for i in range(n):
        XSH.env = env = environ.Env({"XV_S0": "a", "XV1PATH": ["/x"], "HOME": "/tmp"})
        edits = ctx.rng.choice([0, 1, 2])
        for j in range(edits):
            env["XV1PATH"].append(f"/e{j}")
        env.detype()
        if ctx.rng.random() < 0.6:
            env["XV1PATH"].append("/late")
        overlay = {}
        if ctx.rng.random() < 0.6:
            overlay["XV_OV"] = "1"
        if ctx.rng.random() < 0.3:
            overlay["XV_S0"] = env.DELETE_VAR
        spec = SubprocSpec(["env", "-0"])
        spec.env = dict(overlay) or None
        kwargs = {}
        spec.prep_env_subproc(kwargs)
        got = kwargs["env"]
        want_path = ":".join(env["XV1PATH"])
        case = {"stream": name, "path": list(env["XV1PATH"]._l), "overlay": {k: ("DELETE_VAR" if v is env.DELETE_VAR else v) for k, v in overlay.items()}}
        ctx.case(name, repr(case) + str(i), bool(overlay) or edits > 0, case)
        problems = []
        if got.get("XV1PATH") != want_path:
            problems.append(f"XV1PATH={got.get('XV1PATH')!r}, current value {want_path!r}")
        if "XV_OV" in overlay and got.get("XV_OV") != "1":
            problems.append("per-command overlay value missing")
        if overlay.get("XV_S0") is env.DELETE_VAR and "XV_S0" in got:
            problems.append("masked variable handed to the child")
        if "XV_S0" not in overlay and got.get("XV_S0") != "a":
            problems.append("XV_S0 lost")
        if any(not isinstance(k, str) or not isinstance(v, str) for k, v in got.items()):
            problems.append("non-string entry in the child mapping")
        if "XV_OV" in env or ("XV_S0" not in env):
            problems.append("overlay leaked into / damaged the session env")
        if i % 10 == 0 and not problems:
            p = subprocess.run(["env", "-0"], env=got, capture_output=True)
            child = dict(x.split("=", 1) for x in p.stdout.decode("utf-8", "surrogateescape").split("\0") if "=" in x)
            if child != got:
                problems.append("the real child saw a different mapping")
        for pr in problems:
            ctx.spec_failure(case, {"child_env_subset": {k: got.get(k) for k in ("XV_S0", "XV1PATH", "XV_OV")}}, "launch: " + pr, None)


def stream_overlay_launch(ctx, n, name="launch-around-overlay-scopes"):
    ctx.stream_rule(
        name,
        "a launch (prep_env_subproc) made INSIDE a callable-alias style overlay scope (values and DELETE_VAR masks) is followed, "
        "after the scope ended and with no env write in between, by another launch: the second child must receive the session's "
        "values again (no overlay value, no missing masked variable), and the first must have received the overlay; "
        "non-trivial = overlay with a mask or shadowing an existing variable",
    )
    import xonsh.environ as environ
    from xonsh.built_ins import XSH
    from xonsh.procs.specs import SubprocSpec

    for i in range(n):
        XSH.env = env = environ.Env({"XV_A": "a", "XV_B": "b", "HOME": "/tmp"})
        if ctx.rng.random() < 0.5:
            env.detype()
        ov = {}
        if ctx.rng.random() < 0.7:
            ov["XV_A"] = ctx.rng.choice(["shadow", env.DELETE_VAR])
        if ctx.rng.random() < 0.7 or not ov:
            ov["XV_NEW"] = "n"
        inner, outer = {}, {}
        with env.swap(overlay=ov):
            spec = SubprocSpec(["true"])
            spec.prep_env_subproc(inner)
        spec2 = SubprocSpec(["true"])
        spec2.prep_env_subproc(outer)
        inner, outer = inner["env"], outer["env"]
        case = {"stream": name, "overlay": {k: ("DELETE_VAR" if v is env.DELETE_VAR else v) for k, v in ov.items()}}
        ctx.case(name, repr(case) + str(i), "XV_A" in ov, case)
        want_inner = {"XV_A": "a", "XV_B": "b"}
        for k, v in ov.items():
            if v is env.DELETE_VAR:
                want_inner.pop(k, None)
            else:
                want_inner[k] = v
        sub = lambda d: {k: d[k] for k in ("XV_A", "XV_B", "XV_NEW") if k in d}  # noqa: E731
        if sub(inner) != want_inner:
            ctx.spec_failure(case, {"child_in_scope": sub(inner), "want": want_inner}, "a child launched inside an overlay scope did not receive the overlaid values", None)
        if sub(outer) != {"XV_A": "a", "XV_B": "b"}:
            ctx.spec_failure(case, {"child_after_scope": sub(outer), "want": {"XV_A": "a", "XV_B": "b"}}, "a child launched after an overlay scope ended still received that scope's environment", None)


def stream_lscolors(ctx, n, name="ls-colors-histories"):
    ctx.stream_rule(
        name,
        "$LS_COLORS (a mutable mapping with its own detype cache): random sequences of item assignment (colour tuples, 'target', "
        "('RESET',)), deletion and launches; every launch must hand the child exactly what a FRESH LsColors built from the current "
        "items detypes to, and converting it back must give the current items; non-trivial = assignment after a launch",
    )
    import xonsh.environ as environ
    from xonsh.built_ins import XSH

    keys = ["ln", "ln", "ln", "di", "ex", "*.py", "fi"]
    vals = [("RESET",), ("RESET",), "target", "target", ("BLUE",), ("BOLD_GREEN",), ("RED", "BACKGROUND_BLACK")]
    for i in range(n):
        XSH.env = env = environ.Env({"HOME": "/tmp"})
        env["LS_COLORS"] = environ.LsColors({"di": ("BLUE",), "ln": ("CYAN",)})
        script = []
        launched = False
        nontriv = False
        for _ in range(ctx.rng.randint(4, 10)):
            r = ctx.rng.random()
            lsc = env["LS_COLORS"]
            if r < 0.5:
                k, v = ctx.rng.choice(keys), ctx.rng.choice(vals)
                if k != "ln" and v == "target":
                    v = ("RESET",)
                lsc[k] = v
                script.append(["set", k, v if isinstance(v, str) else list(v)])
                nontriv = nontriv or launched
            elif r < 0.65:
                k = ctx.rng.choice(keys)
                if k in lsc:
                    del lsc[k]
                    script.append(["del", k])
            else:
                got = env.detype().get("LS_COLORS")
                fresh = environ.LsColors(dict(lsc.items()) if hasattr(lsc, "items") else dict(lsc))
                for k in list(lsc.keys()):
                    if lsc.is_target(k) if hasattr(lsc, "is_target") else False:
                        fresh[k] = "target"
                want = fresh.detype()
                script.append(["launch"])
                launched = True
                if got != want:
                    case = {"stream": name, "script": script}
                    ctx.spec_failure(case, {"child_receives": got, "current_value_detypes_to": want}, "$LS_COLORS handed to a child does not reflect its current items", None)
                    break
        ctx.case(name, repr(script) + str(i), nontriv, {"script": script[:6]})


def stream_pipeline_env(ctx, n, name="per-command-env-in-pipelines"):
    ctx.stream_rule(
        name,
        "cmds_to_specs on pipelines of 1-4 stages where a seeded subset of the stages carries a `$X=v cmd` prefix (the parser's "
        "`envs` list, aligned with the command list including the '|' entries): every stage's spec must carry exactly its own "
        "overlay and no other stage's; a stage may be a return_command alias that asks for an overlay of its own, which is merged with "
        "the inline prefix; non-trivial = a prefix on a stage other than the first",
    )
    import xonsh.environ as environ
    from xonsh.built_ins import XSH
    from xonsh.commands_cache import CommandsCache
    from xonsh.procs.specs import cmds_to_specs

    XSH.env = environ.Env({"PATH": ["/usr/bin", "/bin"], "HOME": "/tmp"})
    XSH.commands_cache = CommandsCache(XSH.env)
    from xonsh.aliases import Aliases

    if XSH.aliases is None:
        XSH.aliases = Aliases()

    # a return_command alias that asks for an environment overlay of its own: it is MERGED with an inline `$X=v` prefix
    @Aliases.return_command
    def _xvra(args):
        return {"cmd": ["cat"], "env": {"XV_ALIAS": "from-alias"}}

    XSH.aliases["xvra"] = _xvra
    for i in range(n):
        k = ctx.rng.choice([1, 2, 2, 3, 3, 4])
        cmds, envs, want = [], [], []
        for j in range(k):
            if j:
                cmds.append("|")
                envs.append(None)
            via_alias = ctx.rng.random() < 0.3
            cmds.append(["xvra"] if via_alias else (["cat"] if j else ["echo", "hi"]))
            e = {f"XV_P{j}": f"v{j}"} if ctx.rng.random() < 0.5 else None
            envs.append(e)
            w = dict(e or {})
            if via_alias:
                w["XV_ALIAS"] = "from-alias"
            want.append(w or None)
        try:
            specs = cmds_to_specs(cmds, captured="hiddenobject", envs=envs)
        except Exception as ex:  # noqa: BLE001
            ctx.spec_failure({"stream": name, "cmds": cmds, "envs": envs}, {"raised": f"{type(ex).__name__}: {ex}"}, "cmds_to_specs raised on a pipeline with per-command env prefixes", None)
            continue
        # (cmds_to_specs itself adds XONSH_CAPTURE_ALWAYS for piped stages: only the user's variables are compared)
        got = [({k: v for k, v in s.env.items() if k.startswith("XV_")} or None) if s.env else None for s in specs]
        for s in specs:
            s.close() if hasattr(s, "close") else None
        ctx.case(name, repr((cmds, envs)), any(e is not None for e in want[1:]), {"stages": k, "prefix_on": [j for j, e in enumerate(want) if e]})
        if got != want:
            ctx.spec_failure({"stream": name, "envs_by_stage": want}, {"spec_env_by_stage": got}, "a `$X=v cmd` prefix inside a pipeline reached the wrong stage (or none)", None)


def replay_known(ctx):
    import xonsh.environ as environ

    for f in ctx.known:
        w = f["witness"]
        if "variable" in w:
            var = environ.DEFAULT_VARS[w["variable"]]
            v = var.default if w["value"] == "default" else w["value"]
            try:
                s = var.detype(v)
                back = var.convert(s) if var.convert is not None else s
                fails = not values_equal(back, v)
                obs = {"detyped": s, "converted_back": repr(back)}
            except Exception as e:  # noqa: BLE001
                fails, obs = True, {"raised": f"{type(e).__name__}: {e}"}
            ctx.replayed(f["key"], fails, obs)
            if fails:
                ctx.spec_failure({"stream": "known-witness", **{k: repr(x) for k, x in w.items()}}, obs, f["what"], f["key"])
            continue
        ops = unfmt(f["witness"]["ops"])
        model = ctx.driver.call("c10.run", ops)
        impl = run_history_impl(ops)
        fresh = sorted(model[-1][1])
        fails = impl[-1] != fresh
        ctx.replayed(f["key"], fails, {"child_would_receive": fmt(impl[-1]), "current_values": fmt(fresh)})
        if fails:
            ctx.spec_failure({"stream": "known-witness", "ops": f["witness"]["ops"]}, {"child_would_receive": fmt(impl[-1]), "current_values": fmt(fresh)}, f["what"], f["key"])


def translate(ctx):
    from translator import c10 as tr

    text, fps, errors = tr.generate(common.REPO)
    if text is not None:
        common.write_if_changed(common.module_path("XonshVerif.Gen.EnvVars"), text)
    ctx.fingerprints.update(fps)
    ctx.translator_errors += errors
    ctx.trusted_base.append("translator/c10.py: dumps DEFAULT_VARS/ENSURERS/_FALSES from a fresh interpreter importing /repo's working tree")


def run(ctx):
    common.setup_repo_imports()
    warnings.simplefilter("ignore")
    ctx.assumptions += [
        "the OS hands the env mapping to the child verbatim (sampled with `env -0`)",
        "values other than list-like ones are immutable; mutable values are modelled by object identity",
    ]
    ctx.explanation = (
        "Gen/EnvVars.lean is regenerated from /repo on every run; Props/C10.lean proves the round trips for the modelled pairs, "
        "obliges every registered pair to be classified, and proves the cache invariant for disciplined histories; the tie runs "
        "all real converter pairs, detype histories with held references, and the real prep_env_subproc path."
    )
    replay_known(ctx)
    stream_pairs(ctx, ctx.n(2, 20))
    stream_histories(ctx, ctx.n(400, 6000), 14)
    stream_launch(ctx, ctx.n(60, 600))
    stream_overlay_launch(ctx, ctx.n(40, 400))
    stream_lscolors(ctx, ctx.n(200, 2000))
    stream_pipeline_env(ctx, ctx.n(60, 600))


def search(ctx, reason):
    ctx.extra["search_reason"] = reason
    stream_histories(ctx, ctx.n(2000, 8000), 18, name="search:launch-histories")
    stream_pairs(ctx, ctx.n(6, 30), name="search:converter-pairs")


def replay(ctx, path):
    import json

    r = json.loads(open(path).read())
    c = r["case"]
    if "ops" in c:
        ops = unfmt(c["ops"])
        model = ctx.driver.call("c10.run", ops)
        impl = run_history_impl(ops)
        fresh = sorted(model[-1][1])
        print("child would receive:", fmt(impl[-1]))
        print("current values     :", fmt(fresh))
        bad = impl[-1] != fresh
    else:
        print("re-run ./check C10 with the same seed for this stream")
        return common.EXIT_INFRA
    print(f"VIOLATION property={ID} replay={path}" if bad else "property holds on this history")
    return common.EXIT_VIOLATION if bad else common.EXIT_OK
