"""C20 — The job table is always consistent with the processes it tracks."""

from __future__ import annotations

import io

from .. import common
from ..codec import Sym
from ..threads import Worker

ID = "C20"
LEVEL = "proof"
GEN_MODULES = ["XonshVerif.Gen.JobsReg"]
PROPS_MODULES = ["XonshVerif.Props.C20"]
TECHNIQUE = "Lean 4 proof (invariant by induction over op sequences; well-founded lowest-free search) + differential correspondence with xonsh/procs/jobs.py"
LEVEL_TEXT = (
    "proof: hand-written executable Lean model of the job table (dict + MRU deque per owner, _clear_dead_jobs, "
    "get_next_job_number, add_job, resume_job/fg/bg, disown, get_next_task, use_main_jobs routing). Theorems for ALL op "
    "sequences from the main thread and alias threads: the MRU order is a duplicate-free permutation of exactly the "
    "registered jobs (C20_inv, C20_mru_is_perm), lowest-free numbering from 1, dead jobs gone after every purge, live jobs "
    "never purged, selection rules for none/+/-/N, move-to-front keeps relative order, errors leave the table unchanged. "
    "The model is tied to the code by running both on the same generated histories and comparing dict, deque and results after every op."
)
LEVEL_NOTE = (
    "Trusted: Lean kernel + standard axioms; the correspondence harness (stub process objects with scripted poll(), "
    "pipeline.resume and SIGCONT stubbed). Each job op is modelled as atomic: interleavings INSIDE one op from two threads "
    "(the code takes no lock) are not modelled. Real process reaping/signals are outside the model."
)

ARGS = ["none", "plus", "minus", "num", "bad", "many"]


class StubProc:
    def __init__(self):
        self.alive = True

    def poll(self):
        return None if self.alive else 0


class StubPipeline:
    class spec:  # noqa: N801
        captured = "hiddenobject"

    def __init__(self):
        self.resumed = 0

    def resume(self, job, tee_output=True):
        self.resumed += 1


def gen_history(rng, nworkers, length):
    ops = []
    for _ in range(length):
        owner = rng.choice([0, 0, 0] + list(range(1, nworkers + 1)))
        k = rng.random()
        if k < 0.30:
            ops.append([owner, Sym("add"), rng.random() < 0.6, rng.random() < 0.7])
        elif k < 0.45:
            ops.append([owner, Sym("die"), rng.randint(1, 6)])
        elif k < 0.52:
            ops.append([owner, Sym("stop"), rng.randint(1, 6)])
        elif k < 0.77:
            kind = rng.choice(ARGS)
            arg = [Sym("num"), rng.choice([-1, 0, 1, 2, 3, 4, 5, 7])] if kind == "num" else Sym(kind)
            name = rng.choice(["fg", "bg"])
            if name == "fg":
                owner = 0  # fg is @unthreadable: it only ever runs on the main thread
            ops.append([owner, Sym(name), arg])
        elif k < 0.87:
            n = rng.choice([0, 1, 1, 1, 2])
            ops.append([owner, Sym("disown"), [rng.choice([-2, 0, 1, 2, 3, 4, 5, 9]) for _ in range(n)]])
        elif k < 0.92:
            ops.append([owner, Sym("jobs")])
        elif k < 0.97:
            ops.append([owner, Sym("nextTask")])
        else:
            ops.append([owner, Sym("clean")])
    return ops


class Impl:
    """the real xonsh.procs.jobs functions over fresh tables, with one real thread per owner"""

    def __init__(self, nworkers):
        common.setup_repo_imports()
        import xonsh.procs.jobs as J
        from xonsh.built_ins import XSH
        from xonsh.environ import Env

        self.J, self.XSH = J, XSH
        XSH.env = Env(XONSH_INTERACTIVE=False, AUTO_CONTINUE=False)
        XSH.all_jobs = {}
        J._tasks_main.clear()
        # the harness thread is the Python main thread; bind its thread-local table to the fresh dict
        J._jobs_thread_local.tasks = J._tasks_main
        J._jobs_thread_local.jobs = XSH.all_jobs
        J._continue = lambda job: None  # SIGCONT to a real process group: outside the model
        self.workers = [Worker(f"alias-{i}") for i in range(nworkers)]
        self.pid = 1000

    def on(self, owner, fn):
        return fn() if owner == 0 else self.workers[owner - 1].call(fn)

    def table(self, owner):
        J = self.J

        def snap():
            jobs = J.get_jobs()
            return [
                [[n, bool(j["bg"]), j["status"] == "running", j["obj"] is not None and j["obj"].poll() is None] for n, j in jobs.items()],
                list(J.get_tasks()),
            ]

        return self.on(owner, snap)

    def state(self):
        return [self.table(0)] + [self.table(i + 1) for i in range(len(self.workers))]

    def step(self, op):
        J = self.J
        owner, name, args = op[0], str(op[1]), op[2:]

        def classify(res):
            if res is None:
                return None
            msg = res[1] if isinstance(res, tuple) else res
            if "no suspended jobs" in msg or "no active jobs" in msg:
                return Sym("noJobs")
            if "Invalid job" in msg or "not a valid job ID" in msg:
                return Sym("invalid")
            if "expects 0 or 1" in msg:
                return Sym("arity")
            if isinstance(res, str) and ("Removed job" in res):
                return "removed"
            raise common.InfraError(f"unclassified job-control message {res!r}")

        def argv(a):
            if isinstance(a, list):
                return [str(a[1])]
            return {"none": [], "plus": ["+"], "minus": ["-"], "bad": ["x1"], "many": ["1", "2"]}[str(a)]

        def do():
            if name == "add":
                self.pid += 1
                info = {
                    "cmds": [["sleep", "1"]],
                    "pids": [self.pid],
                    "obj": StubProc(),
                    "bg": args[0],
                    "pipeline": StubPipeline(),
                    "pgrp": None,
                    "status": "running" if args[1] else "stopped",
                }
                J.add_job(info)
                new = [n for n, j in J.get_jobs().items() if j is info]
                if len(new) != 1:
                    return Sym(f"added-{len(new)}-keys")
                return [Sym("ok"), new[0]]
            if name in ("die", "stop"):
                j = J.get_jobs().get(args[0])
                if j is not None:
                    if name == "die":
                        j["obj"].alive = False
                    else:
                        j["status"] = "stopped"
                return None
            if name in ("fg", "bg"):
                res = (J.fg if name == "fg" else J.bg)(argv(args[0]))
                c = classify(res)
                if c is None:
                    with J.use_main_jobs():
                        return [Sym("ok"), J.get_tasks()[0]]
                return c
            if name == "disown":
                res = J.disown_fn(job_ids=list(args[0]))
                c = classify(res)
                return None if c in (None, "removed") else c
            if name == "jobs":
                out = io.StringIO()
                J.jobs([], stdout=out)
                listed = [int(l.split("'num': ")[1].split(",")[0]) for l in out.getvalue().splitlines() if l]
                with J.use_main_jobs():
                    if listed != list(J.get_tasks()):
                        return Sym("listing-differs-from-mru-order")
                return None
            if name == "nextTask":
                t = J.get_next_task()
                if t is None:
                    return None
                return [Sym("ok"), J.get_tasks()[0]]
            if name == "clean":
                J._clear_dead_jobs()
                return None
            raise common.InfraError(f"unknown op {name}")

        return self.on(owner, do)

    def close(self):
        for w in self.workers:
            w.stop()


def invariant_ok(table):
    jobs, tasks = table
    keys = [j[0] for j in jobs]
    return len(set(tasks)) == len(tasks) and sorted(tasks) == sorted(keys) and all(k >= 1 for k in keys)


def run_history(ctx, nworkers, ops):
    """returns (first disagreement | None, first property failure | None, stats)"""
    model = ctx.driver.call("c20.run", nworkers, ops)
    impl = Impl(nworkers)
    try:
        for i, op in enumerate(ops):
            try:
                out = impl.step(op)
            except common.InfraError:
                raise
            except Exception as e:  # an internal exception from a job command
                out = Sym(f"raised-{type(e).__name__}")
            st = impl.state()
            m_out, m_state = model[i]
            # property (independent of the model): invariant of every table, unique lowest-free number
            for tb in st:
                if not invariant_ok(tb):
                    return None, (i, f"table invariant broken after op {i}: {tb}"), None
            if isinstance(out, Sym) and (str(out).startswith("raised-") or str(out).startswith("added-") or str(out).startswith("listing-")):
                return None, (i, f"op {i} {op}: {out}"), None
            if out != m_out or st != m_state:
                return (i, {"out": out, "state": st}, {"out": m_out, "state": m_state}), None, None
        return None, None, None
    finally:
        impl.close()


def fmt_ops(ops):
    return [[o[0], str(o[1])] + [str(a) if isinstance(a, Sym) else a for a in o[2:]] for o in ops]


def stream_histories(ctx, n, length, name="histories"):
    ctx.stream_rule(
        name,
        f"random histories of {length} ops (add bg/fg running/stopped, process exit, stop, fg/bg with none/+/-/N/garbage/two args, "
        "disown with 0-2 ids, jobs, get_next_task, purge) issued from the main thread and 0-2 real alias threads (baton-scheduled); "
        "after EVERY op the real dict+deque of every owner and the op's result are compared with the Lean model, and the table "
        "invariant is checked on the real tables directly; non-trivial = history in which some table reached >= 3 jobs",
    )
    for k in range(n):
        if ctx.enough_failures():
            break
        nworkers = ctx.rng.choice([0, 1, 1, 2])
        ops = gen_history(ctx.rng, nworkers, length)
        dis, fail, _ = run_history(ctx, nworkers, ops)
        model = ctx.driver.call("c20.run", nworkers, ops)
        peak = max((len(t[0]) for _, st in model for t in st), default=0)
        for o in ops:
            ctx.count(f"op/{o[1]}")
        for out, _ in model:
            ctx.count(f"result/{out[0] if isinstance(out, list) else out}")
        ctx.case(name, repr(ops), peak >= 3, {"nworkers": nworkers, "ops": fmt_ops(ops[:12])})
        if fail or dis:

            def still(sub, want_fail=bool(fail)):
                d, f, _ = run_history(ctx, nworkers, sub)
                return bool(f) if want_fail else bool(d)

            small = common.shrink_list(ops, still)
            dis, fail, _ = run_history(ctx, nworkers, small)
            case = {"stream": name, "nworkers": nworkers, "ops": fmt_ops(small)}
            if fail:
                ctx.spec_failure(case, {"at": fail[0], "what": fail[1]}, "job table inconsistent: " + fail[1][:120], None)
            elif dis:
                ctx.disagree(name, case, dis[1], dis[2])
                # a disagreement is a property failure when the REAL result breaks a clause the theorems state
                why = property_clause_broken(small, dis)
                if why:
                    ctx.spec_failure(case, {"impl": dis[1], "model": dis[2]}, why, None)


def property_clause_broken(ops, dis):
    """the model is proved to satisfy the property's clauses; when the real code differs from it at step i,
    say which clause the real behaviour breaks (None: the difference is outside the stated clauses)"""
    i, impl, model = dis
    op = ops[i]
    name = str(op[1])
    if name == "add" and impl["out"] != model["out"]:
        return f"add_job did not hand out the lowest free job number: got {impl['out']}, lowest free is {model['out']}"
    if name in ("fg", "bg", "disown", "nextTask") and impl["out"] != model["out"]:
        return f"{name} {op[2:]} selected/reported {impl['out']} but the documented rule gives {model['out']}"
    if impl["state"] != model["state"]:
        it = [(sorted(t[0]), t[1]) for t in impl["state"]]
        mt = [(sorted(t[0]), t[1]) for t in model["state"]]
        if it != mt:
            return f"after {name} {op[2:]} the job table is {impl['state']} but the documented rules give {model['state']}"
    return None


REG_CHILD = r"""
import json, os, random, sys
sys.dont_write_bytecode = True
sys.path.insert(0, sys.argv[1])
import warnings; warnings.simplefilter("ignore")
from xonsh.main import setup
setup(shell_type="none")
from xonsh.built_ins import XSH
from xonsh.procs import jobs as xj
from xonsh.procs.specs import _run_command_pipeline, cmds_to_specs
XSH.env["XONSH_INTERACTIVE"] = False
XSH.env["THREAD_SUBPROCS"] = True
def _al(args, stdin=None):
    if stdin is not None:
        stdin.read()
    return "a\n"
XSH.aliases["xvalias"] = _al
rng = random.Random(int(sys.argv[2]))
out = []
for i in range(int(sys.argv[3])):
    n = rng.choice([1, 1, 2, 2, 3])
    kinds = [rng.choice(["real", "alias"]) for _ in range(n)]
    cmds = []
    for j, k in enumerate(kinds):
        if j:
            cmds.append("|")
        cmds.append(["xvalias"] if k == "alias" else (["cat"] if j else ["echo", "hi"]))
    specs = cmds_to_specs(cmds, captured="hiddenobject")
    proxies = [bool(s.is_proxy) for s in specs]
    cp = _run_command_pipeline(specs, cmds)
    nums = [num for num, j in xj.get_jobs().items() if j.get("pipeline") is cp]
    mru = [t for t in xj.get_tasks() if t in nums]
    keys = sorted(xj.get_jobs())
    tasks = list(xj.get_tasks())
    try:
        cp.end()
    except Exception as e:
        pass
    out.append({"kinds": kinds, "is_proxy": proxies, "proc": cp.proc is not None, "nums": nums, "mru": mru, "keys": keys, "tasks": tasks})
print("XVRESULT " + json.dumps(out))
"""


def stream_registration(ctx, n, name="registration"):
    """real cmds_to_specs + _run_command_pipeline in a child interpreter: which pipelines end up in the job table"""
    import json
    import subprocess

    ctx.stream_rule(
        name,
        "real pipelines of 1-3 stages mixing external processes and callable aliases are built with cmds_to_specs and started with "
        "_run_command_pipeline in a child interpreter; a pipeline holding at least one real process must appear exactly once in the "
        "job dict and once in the MRU deque, an alias-only pipeline must not appear; non-trivial = mixed pipeline",
    )
    p = subprocess.run(["/venv/bin/python", "-c", REG_CHILD, str(common.REPO), str(ctx.seed), str(n)], capture_output=True, text=True, timeout=600)
    line = [l for l in p.stdout.splitlines() if l.startswith("XVRESULT ")]
    if not line:
        raise common.InfraError("registration child failed: " + (p.stderr or p.stdout)[-800:])
    for r in json.loads(line[-1][9:]):
        mixed = len(set(r["kinds"])) > 1
        ctx.case(name, repr(r["kinds"]) + str(len(ctx.distinct)), mixed, {"stages": r["kinds"], "registered_as": r["nums"]})
        ctx.count("registration/" + ("mixed" if mixed else r["kinds"][0] + "-only"))
        want = r["proc"] and any(not x for x in r["is_proxy"])
        ok = (len(r["nums"]) == 1 and r["mru"] == r["nums"]) if want else r["nums"] == []
        if sorted(r["tasks"]) != r["keys"] or len(set(r["tasks"])) != len(r["tasks"]):
            ok = False
        if not ok:
            ctx.spec_failure({"stream": name, "stages": r["kinds"]}, {"job_numbers": r["nums"], "in_mru": r["mru"], "dict_keys": r["keys"], "deque": r["tasks"]},
                             "a pipeline containing a real process is not registered exactly once (or an alias-only one is)", None)


def translate(ctx):
    from translator import c20 as tr

    text, fps, errors = tr.generate(common.REPO)
    common.write_if_changed(common.module_path("XonshVerif.Gen.JobsReg"), text)
    ctx.fingerprints.update(fps)
    ctx.translator_errors += errors
    ctx.trusted_base.append("translator/pylite.py + translator/c20.py for the registration guard of _run_command_pipeline")


# ------------------------------------------------------------------ a purge on an alias thread interleaved with the main thread
def _interleaved(item):
    """an alias thread runs the real `jobs` command (it works on the MAIN table through use_main_jobs and purges finished
    jobs); its purge is parked inside one job's poll(); meanwhile the main thread starts a job / runs fg / lets a not yet polled
    job exit; then the purge goes on.  Returns the job dict keys, the MRU order and the expected live set."""
    import io
    import threading

    n, gate_pos, dying, action, seed = item
    common.setup_repo_imports()
    import xonsh.procs.jobs as xj
    from xonsh.built_ins import XSH

    class Proc:
        def __init__(self):
            self.pid, self.returncode = None, None

        def poll(self):
            return self.returncode

    class Gate(Proc):
        def __init__(self):
            super().__init__()
            self.worker, self.parked, self.release, self.used = None, threading.Event(), threading.Event(), False

        def poll(self):
            if threading.current_thread() is self.worker and not self.used:
                self.used = True
                self.parked.set()
                self.release.wait(20)
            return self.returncode

    class Pipeline:
        spec = type("Spec", (), {"captured": "stdout"})()

        def resume(self, job, tee_output=True):
            pass

    XSH.env = {"XONSH_INTERACTIVE": False}
    XSH.all_jobs = {}
    xj._tasks_main.clear()
    xj._jobs_thread_local.jobs = XSH.all_jobs
    xj._jobs_thread_local.tasks = xj._tasks_main
    procs = []

    def start(proc=None, bg=True):
        proc = proc or Proc()
        xj.add_job({"cmds": [["j"]], "pids": [None], "obj": proc, "bg": bg, "pipeline": Pipeline(), "pgrp": None})
        procs.append(proc)
        return proc

    gate = Gate()
    for i in range(n):
        start(gate if i == gate_pos else None, bg=(i % 2 == 0))
    live = set(range(1, n + 1))
    out = io.StringIO()
    t = threading.Thread(target=lambda: xj.jobs([], stdout=out), name="alias-thread")
    gate.worker = t
    t.start()
    if not gate.parked.wait(20):
        return {"error": "the purge never reached poll()"}
    try:
        if action == "start":
            start()
            live.add(max(live) + 1 if live else 1)
        elif action == "fg":
            tgt = next(iter(sorted(live - {gate_pos + 1})), None)
            if tgt is not None:
                xj.fg([str(tgt)])
        for d in dying:
            if d != gate_pos and d < n:
                procs[d].returncode = 0  # exits while the purge is parked
    finally:
        gate.release.set()
        t.join(20)
    # a job that exited is gone after one more purge on the main thread at the latest
    xj.jobs([], stdout=io.StringIO())
    for d in dying:
        if d != gate_pos and d < n:
            live.discard(d + 1)
    return {"jobs": sorted(xj.get_jobs()), "tasks": list(xj.get_tasks()), "live": sorted(live)}


def stream_interleaved(ctx, n, name="purge-on-an-alias-thread-interleaved"):
    ctx.stream_rule(
        name,
        "directed schedules on the real tables (property oracle, no model — the Lean model's operations are atomic): an alias "
        "thread runs the real `jobs` command on the main table (use_main_jobs) and is parked inside one job's poll(); meanwhile the "
        "main thread starts a job or runs `fg` and not-yet-polled jobs exit; afterwards the job dict is exactly the live jobs and the "
        "MRU order is a permutation of exactly those; non-trivial = every schedule",
    )
    items = []
    for _ in range(n):
        r = ctx.rng
        k = r.randint(2, 5)
        items.append([k, r.randrange(k), r.sample(range(k), r.randint(0, 2)), r.choice(["start", "start", "fg", "none"]), r.randrange(1 << 30)])
    results = common.map_in_child(_interleaved, items, per_item_timeout=60, label="c20-interleaved")
    for it, res in zip(items, results):
        if res == common.HANG or (isinstance(res, dict) and ("__exc__" in res or "error" in res)):
            raise common.InfraError(f"C20 interleaved worker failed: {res}")
        ctx.case(name, repr(it), True, {"jobs": it[0], "parked_in": it[1], "exiting": it[2], "meanwhile": it[3]})
        ctx.count("interleaved/" + it[3])
        if res["jobs"] != res["live"] or sorted(res["tasks"]) != res["live"]:
            ctx.spec_failure({"stream": name, "schedule": {"jobs": it[0], "parked_in": it[1], "exiting": it[2], "meanwhile": it[3]}}, res,
                             "after an interleaved purge the job dict / the MRU order is not exactly the live jobs", None)


def run(ctx):
    ctx.assumptions += [
        "each job-control operation is atomic (no lock in the code; intra-op interleavings are not modelled)",
        "proc.poll() is scripted by the harness; pipeline.resume and SIGCONT are stubs",
    ]
    ctx.explanation = (
        "Model Jobs (lean/XonshVerif/Model/Jobs.lean) with theorems in Props/C20.lean for all op sequences; tie = "
        "per-step differential comparison of the real jobs.py tables with the model on generated histories."
    )
    stream_histories(ctx, ctx.n(250, 4000), ctx.n(30, 40))
    stream_registration(ctx, ctx.n(40, 400))
    stream_interleaved(ctx, ctx.n(120, 1500))


def search(ctx, reason):
    ctx.extra["search_reason"] = reason
    stream_histories(ctx, ctx.n(1500, 8000), 40, name="search:histories")
    stream_registration(ctx, ctx.n(100, 400), name="search:registration")


def replay(ctx, path):
    import json

    r = json.loads(open(path).read())
    c = r["case"]
    ops = [[o[0], Sym(o[1])] + [Sym(a) if isinstance(a, str) else ([Sym(a[0])] + a[1:] if isinstance(a, list) and a and a[0] == "num" else a) for a in o[2:]] for o in c["ops"]]
    dis, fail, _ = run_history(ctx, c["nworkers"], ops)
    print("disagreement:", dis)
    print("property failure:", fail)
    bad = bool(fail) or bool(dis and property_clause_broken(ops, dis))
    print(f"VIOLATION property={ID} replay={path}" if bad else "property holds on this history")
    return common.EXIT_VIOLATION if bad else common.EXIT_OK
